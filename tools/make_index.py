#!/usr/bin/env python3
"""Regenerate /verif/seeded/INDEX.md: which check catches which independently seeded change (and that twins stay silent)."""
from __future__ import annotations

import concurrent.futures as cf
import json
import pathlib
import sys

VERIF = pathlib.Path(__file__).resolve().parent.parent
sys.path.insert(0, str(VERIF))
sys.path.insert(0, str(VERIF / "tools"))
from run_seeded import one  # noqa: E402


def main() -> int:
    dirs = sorted(str(p.parent) for p in (VERIF / "seeded").glob("*/patch.diff"))
    with cf.ProcessPoolExecutor(max_workers=16) as ex:
        res = list(ex.map(one, dirs))
    lines = ["# Independently seeded changes and what the checks report on them", "",
             "Regenerate with `python3 tools/make_index.py` (applies each patch to a scratch copy of /repo, runs all 20 checks, removes the copy).",
             "Every change was written by a fresh sub-agent that saw only the property text and a scratch worktree; each was confirmed",
             "(patch applies, baseline suite unchanged, demo passes without / fails with it -- for twins: passes with it) before being kept.", "",
             "## Defects (must be reported by the check of the property they break)", "",
             "| change | breaks | files | reported by its own check | also reported by |", "|---|---|---|---|---|"]
    twins = ["", "## Behaviour-preserving refactorings (every check must stay silent)", "", "| change | preserves | files | result |", "|---|---|---|---|"]
    missed = []
    for r in res:
        d = pathlib.Path(r["dir"])
        meta = json.loads((d / "meta.json").read_text()) if (d / "meta.json").exists() else {}
        want = meta.get("property", "?")
        files = ", ".join(sorted({l.split("|")[0].strip().split("/")[-1] for l in meta.get("confirmed", {}).get("files_changed", "").splitlines() if "|" in l}))
        fired = {k: [x for x in v if not x.startswith(("ANALYSIS-ERROR", "CRASH"))] for k, v in r.get("fired", {}).items()}
        errs = sorted(k for k, v in r.get("fired", {}).items() if any(x.startswith(("ANALYSIS-ERROR", "CRASH")) for x in v))
        fired = {k: v for k, v in fired.items() if v}
        if d.name.startswith("twin-"):
            ok = not fired and not errs
            limit = meta.get("known_limit")
            what = str({k: v[:1] for k, v in fired.items()}) + (' errors ' + str(errs) if errs else '')
            if ok:
                res_ = "silent" + (" (documented limit no longer applies)" if limit else "")
            elif limit:
                res_ = f"DOCUMENTED LIMIT (false alarm: {what[:160]}) -- {limit}"
            else:
                res_ = "FALSE ALARM: " + what
            twins.append(f"| {d.name} | {want} | {files} | {res_} |")
            if not ok and not limit:
                missed.append(d.name)
        else:
            kmiss = meta.get("known_miss")
            own = "; ".join(x.split(" ", 1)[0] + " " + x.split(" ", 1)[1][:70] for x in fired.get(want, [])[:2]) or (f"**DOCUMENTED MISS** -- {kmiss}" if kmiss else "**MISSED**")
            others = ", ".join(sorted(k for k in fired if k != want))
            lines.append(f"| {d.name} | {want} | {files} | {own} | {others} |")
            if want not in fired and not kmiss:
                missed.append(d.name)
    (VERIF / "seeded" / "INDEX.md").write_text("\n".join(lines + twins) + "\n")
    print(f"{len(res)} changes indexed; problems: {missed}")
    return 0


if __name__ == "__main__":
    sys.exit(main())
