#!/bin/sh
# tools/ingest_r2.sh C04 C09 ... : confirm the round-2 changes /tmp/seedout/<P>/r2d<k> (defects) and r2t<k> (twins), then run all checks against them
cd /verif
for P in "$@"; do
  for k in 1 2 3; do
    if [ -f /tmp/seedout/$P/r2d$k/patch.diff ] && [ ! -d seeded/$P-r2-$k ]; then
      python3 tools/confirm_seed.py $P /tmp/seedout/$P/r2d$k /tmp/wt/$P $P-r2-$k
    fi
    if [ -f /tmp/seedout/$P/r2t$k/patch.diff ] && [ ! -d seeded/twin-$P-r2-$k ]; then
      python3 tools/confirm_twin.py $P /tmp/seedout/$P/r2t$k /tmp/wt/$P twin-$P-r2-$k
    fi
  done
done
dirs=""
for P in "$@"; do for k in 1 2 3; do
  [ -d seeded/$P-r2-$k ] && dirs="$dirs seeded/$P-r2-$k"
  [ -d seeded/twin-$P-r2-$k ] && dirs="$dirs seeded/twin-$P-r2-$k"
done; done
[ -n "$dirs" ] && python3 tools/run_seeded.py $dirs
