#!/bin/sh
cd /verif
for P in "$@"; do
  for k in 1 2 3 4; do
    [ -f /tmp/seedout/$P/t$k/patch.diff ] || continue
    [ -d seeded/twin-$P-$k ] && continue
    python3 tools/confirm_twin.py $P /tmp/seedout/$P/t$k /tmp/wt/$P twin-$P-$k
  done
done
dirs=""
for P in "$@"; do for k in 1 2 3 4; do [ -d seeded/twin-$P-$k ] && dirs="$dirs seeded/twin-$P-$k"; done; done
[ -n "$dirs" ] && python3 tools/run_seeded.py $dirs
