#!/bin/sh
# tools/ingest.sh C04 C09 ... : confirm every /tmp/seedout/<P>/<k> and run all checks against the kept ones
cd /verif
for P in "$@"; do
  for k in 1 2 3; do
    [ -f /tmp/seedout/$P/$k/patch.diff ] || continue
    [ -d seeded/$P-$k ] && continue
    python3 tools/confirm_seed.py $P /tmp/seedout/$P/$k /tmp/wt/$P $P-$k
  done
done
dirs=""
for P in "$@"; do for k in 1 2 3; do [ -d seeded/$P-$k ] && dirs="$dirs seeded/$P-$k"; done; done
[ -n "$dirs" ] && python3 tools/run_seeded.py $dirs
