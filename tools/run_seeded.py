#!/usr/bin/env python3
"""Developer aid: run every check against a seeded change applied to a scratch copy of /repo.

    python3 tools/run_seeded.py <dir-with-patch.diff> [<dir> ...]     (or --all for /verif/seeded/*)

For each patch: copies the analysed parts of /repo to a scratch dir (outside /repo and /verif), applies the patch
with `git apply`, runs all 20 property checkers in-process (quick tier, no evidence written) and prints which
rule instances fail.  Nothing is executed from the patched tree.  The scratch copy is removed afterwards.
"""
from __future__ import annotations

import concurrent.futures as cf
import contextlib
import io
import json
import pathlib
import shutil
import subprocess
import sys

VERIF = pathlib.Path(__file__).resolve().parent.parent
sys.path.insert(0, str(VERIF))

from hv.__main__ import run_property  # noqa: E402
from hv.core import AnalysisError  # noqa: E402
from hv.selftest import make_scratch  # noqa: E402

PROPS = [f"C{i:02d}" for i in range(1, 21)]


def one(d: str) -> dict:
    d = pathlib.Path(d).resolve()
    patch = d / "patch.diff"
    scratch = make_scratch(pathlib.Path("/repo"))
    try:
        subprocess.run(["git", "init", "-q"], cwd=scratch, check=True)
        r = subprocess.run(["git", "apply", "--whitespace=nowarn", str(patch)], cwd=scratch, capture_output=True, text=True)
        if r.returncode != 0:
            return {"dir": str(d), "error": "patch does not apply: " + r.stderr[:300]}
        out = {}
        for p in PROPS:
            try:
                with contextlib.redirect_stdout(io.StringIO()):
                    code, ctx = run_property(p, str(scratch), "quick", 0, write_evidence=False, quiet=True)
                from hv.core import load_known
                known = {(k["rule"], k["construct"]) for k in load_known() if k.get("status") == "open"}
                out[p] = [f"{f.rule} {f.construct}" for f in ctx.findings if (f.rule, f.construct) not in known]
            except AnalysisError as e:
                out[p] = [f"ANALYSIS-ERROR {str(e)[:160]}"]
            except Exception as e:  # noqa: BLE001
                out[p] = [f"CRASH {type(e).__name__}: {str(e)[:160]}"]
        return {"dir": str(d), "fired": {k: v for k, v in out.items() if v}}
    finally:
        shutil.rmtree(scratch, ignore_errors=True)


def main() -> int:
    args = sys.argv[1:]
    if args == ["--all"]:
        args = sorted(str(p.parent) for p in (VERIF / "seeded").glob("*/patch.diff"))
    with cf.ProcessPoolExecutor(max_workers=min(16, max(1, len(args)))) as ex:
        res = list(ex.map(one, args))
    if "--matrix" in sys.argv or True:
        own_miss, cross, limits = [], [], []
    for r in res:
        meta = pathlib.Path(r["dir"]) / "meta.json"
        want = json.loads(meta.read_text()).get("property") if meta.exists() else "?"
        if "error" in r:
            print(f"{r['dir']}: {r['error']}")
            continue
        fired = {k: [x for x in v if not x.startswith(("ANALYSIS-ERROR", "CRASH"))] for k, v in r["fired"].items()}
        errs = {k: v for k, v in r["fired"].items() if any(x.startswith(("ANALYSIS-ERROR", "CRASH")) for x in v)}
        fired = {k: v for k, v in fired.items() if v}
        own = want in fired
        name = pathlib.Path(r["dir"]).name
        if name.startswith("twin-"):
            bad = {k: v[:2] for k, v in fired.items()}
            limit = json.loads(meta.read_text()).get("known_limit") if meta.exists() else None
            word = "SILENT" if not bad and not errs else ("LIMIT" if limit else "FALSE-ALARM")
            print(f"{word} {name} (preserves {want}): {bad if bad else ''}" + (f" ERRORS={ {k: v[:1] for k, v in errs.items()} }" if errs else "")
                  + (" [documented limit no longer applies]" if limit and word == "SILENT" else ""))
            if (bad or errs) and not limit:
                own_miss.append(name)
            if (bad or errs) and limit:
                limits.append(name)
            continue
        others = sorted(k for k in fired if k != want)
        kmiss = json.loads(meta.read_text()).get("known_miss") if meta.exists() else None
        print(f"{'CAUGHT' if own else ('KNOWN-MISS' if kmiss else 'MISSED-BY-OWN')} {name} (breaks {want}): own={fired.get(want, [])[:2]} others={others}" + (f" ERRORS={sorted(errs)}" if errs else "")
              + (" [documented miss no longer applies]" if own and kmiss else ""))
        if not own and not kmiss:
            own_miss.append(name)
        if not own and kmiss:
            limits.append(name)
    print(f"\n{len(res)} seeded changes; missed by the check of their own property: {own_miss}")
    if limits:
        print(f"documented limits (behaviour-preserving restructurings the checks still alarm on, see DESIGN.md 9.0e): {len(limits)}: {limits}")
    return 0


if __name__ == "__main__":
    sys.exit(main())
