#!/usr/bin/env python3
"""tools/mark_limits.py set <reason> <seed-id>...   |   tools/mark_limits.py clear <seed-id>...
records / removes `known_limit` in seeded/<id>/meta.json: a behaviour-preserving restructuring the checks still alarm on, documented in
DESIGN.md 9.0e; the self-validation reports it as a limit instead of failing"""
import json
import pathlib
import sys
root = pathlib.Path(__file__).resolve().parent.parent / "seeded"
mode = sys.argv[1]
ids = sys.argv[3:] if mode == "set" else sys.argv[2:]
for i in ids:
    p = root / i / "meta.json"
    m = json.loads(p.read_text())
    key = "known_miss" if not i.startswith("twin-") else "known_limit"        # (a defect the checks do not report / a twin they alarm on)
    if mode == "set":
        m[key] = sys.argv[2]
    else:
        m.pop(key, None)
    p.write_text(json.dumps(m, indent=1) + "\n")
print(mode, len(ids))
