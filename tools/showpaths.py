#!/usr/bin/env python3
"""dev aid: print the path summaries of a function.  usage: showpaths.py <qualname> [root]"""
import pathlib
import sys
sys.path.insert(0, str(pathlib.Path(__file__).resolve().parent.parent))
from hv.core import Ctx
root = pathlib.Path(sys.argv[2] if len(sys.argv) > 2 else "/repo")
ctx = Ctx("C00", root)
for i, p in enumerate(ctx.paths(sys.argv[1])):
    print(f"--- path {i}: {p.describe()}")
    for e in p.effect_texts():
        print("     effect:", e)
