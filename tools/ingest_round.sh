#!/bin/sh
# tools/ingest_round.sh r3 C04 C09 ... : confirm the changes /tmp/seedout/<P>/<round>d<k> (defects) and <round>t<k> (twins), then run all checks against them
cd /verif
R=$1; shift
for P in "$@"; do
  for k in 1 2 3; do
    if [ -f /tmp/seedout/$P/${R}d$k/patch.diff ] && [ ! -d seeded/$P-${R}-$k ]; then
      python3 tools/confirm_seed.py $P /tmp/seedout/$P/${R}d$k /tmp/wt/$P $P-${R}-$k
    fi
    if [ -f /tmp/seedout/$P/${R}t$k/patch.diff ] && [ ! -d seeded/twin-$P-${R}-$k ]; then
      python3 tools/confirm_twin.py $P /tmp/seedout/$P/${R}t$k /tmp/wt/$P twin-$P-${R}-$k
    fi
  done
done
dirs=""
for P in "$@"; do for k in 1 2 3; do
  [ -d seeded/$P-${R}-$k ] && dirs="$dirs seeded/$P-${R}-$k"
  [ -d seeded/twin-$P-${R}-$k ] && dirs="$dirs seeded/twin-$P-${R}-$k"
done; done
[ -n "$dirs" ] && python3 tools/run_seeded.py $dirs
