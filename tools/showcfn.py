#!/usr/bin/env python3
"""dev aid: print the canonical body of a function.  usage: showcfn.py <qualname> [root] [--subst=0] [--accessors] [--supers]"""
import ast
import pathlib
import sys
sys.path.insert(0, str(pathlib.Path(__file__).resolve().parent.parent))
from hv.core import Ctx
args = [a for a in sys.argv[1:] if not a.startswith("--")]
kw = {}
for a in sys.argv[1:]:
    if a.startswith("--"):
        k, _, v = a[2:].partition("=")
        kw[k] = v not in ("0", "False")
root = pathlib.Path(args[1] if len(args) > 1 else "/repo")
ctx = Ctx("C00", root)
print(ast.unparse(ctx.cfn(args[0], **kw)))
