#!/usr/bin/env python3
"""Developer aid: confirm an independently written behaviour-preserving refactoring ("twin") and file it under /verif/seeded/.

    python3 tools/confirm_twin.py <property id> <source dir> <scratch worktree> <name>

Kept only if: the patch applies, the baseline summary is unchanged, and the demo passes both without and with it.
"""
from __future__ import annotations

import json
import pathlib
import re
import shutil
import sys

sys.path.insert(0, str(pathlib.Path(__file__).resolve().parent))
from confirm_seed import EXPECT, VERIF, sh  # noqa: E402


def main() -> int:
    prop, src, wt, name = sys.argv[1], pathlib.Path(sys.argv[2]), pathlib.Path(sys.argv[3]), sys.argv[4]
    patch, demo = src / "patch.diff", src / "demo.py"
    if not patch.exists() or not demo.exists():
        print(f"{name}: REJECT missing files")
        return 1
    sh("git checkout -- . && git clean -fdq", wt)
    pyenv = {"PYTHONPATH": str(wt / "hugr-py" / "src")}
    c0, o0 = sh(f"/venv/bin/python {demo}", wt, pyenv, 300)
    ca, oa = sh(f"git apply --whitespace=nowarn {patch}", wt)
    if c0 != 0 or ca != 0:
        sh("git checkout -- . && git clean -fdq", wt)
        print(f"{name}: REJECT demo on clean tree exit {c0}, apply exit {ca}: {(o0 + oa)[-200:]}")
        return 1
    try:
        ct, ot = sh("/venv/bin/python -m pytest -q -p no:cacheprovider --timeout=900 --continue-on-collection-errors", wt)
        line = ([l for l in ot.splitlines() if re.search(r"\d+ passed", l)] or [""])[-1]
        c1, o1 = sh(f"/venv/bin/python {demo}", wt, pyenv, 300)
        files = sh("git diff --stat", wt)[1]
    finally:
        sh("git checkout -- . && git clean -fdq", wt)
    if EXPECT not in line or c1 != 0:
        print(f"{name}: REJECT baseline '{line.strip()}', demo with patch exit {c1}: {o1[-200:]}")
        return 1
    dst = VERIF / "seeded" / name
    dst.mkdir(parents=True, exist_ok=True)
    shutil.copy2(patch, dst / "patch.diff")
    shutil.copy2(demo, dst / "demo.py")
    notes = (src / "notes.md").read_text() if (src / "notes.md").exists() else ""
    (dst / "notes.md").write_text(notes)
    (dst / "meta.json").write_text(json.dumps({
        "property": prop, "kind": "behaviour-preserving refactoring (twin): every check must stay silent on it",
        "origin": "fresh sub-agent given only the property text and a scratch worktree (nothing from /verif)",
        "confirmed": {"worktree": str(wt), "demo_clean_exit": c0, "demo_patched_exit": c1, "baseline_summary_with_patch": line.strip(),
                      "files_changed": files.strip()}}, indent=1))
    print(f"{name}: KEPT twin ({line.strip()})")
    return 0


if __name__ == "__main__":
    sys.exit(main())
