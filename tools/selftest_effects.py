#!/usr/bin/env python3
"""dev aid: the mutation summaries of hv/effects.py on its tiny synthetic package (expected answers are in hv/effects.py)"""
import pathlib
import sys

sys.path.insert(0, str(pathlib.Path(__file__).resolve().parent.parent))
from hv.effects import selftest          # noqa: E402

bad = selftest()
print("\n".join(bad) if bad else "effects self-test: all summaries as expected")
sys.exit(1 if bad else 0)
