#!/usr/bin/env python3
"""Developer aid: confirm an independently written seeded change and file it under /verif/seeded/.

    python3 tools/confirm_seed.py <property id> <source dir with patch.diff demo.py notes.md> <scratch worktree> <seed name>

In the scratch worktree (outside /repo and /verif): demo passes on the clean tree; the patch applies; the baseline
test summary is unchanged with it; the demo fails with it; the worktree is restored.  Only then the change is copied to
/verif/seeded/<name>/ with a meta.json recording what was run.
"""
from __future__ import annotations

import json
import pathlib
import re
import shutil
import subprocess
import sys

VERIF = pathlib.Path(__file__).resolve().parent.parent
EXPECT = "29 failed, 180 passed, 1 skipped, 10 errors"


def sh(cmd, cwd, env=None, timeout=900):
    import os
    e = dict(os.environ)
    e.update(env or {})
    r = subprocess.run(cmd, cwd=cwd, shell=True, capture_output=True, text=True, env=e, timeout=timeout)
    return r.returncode, (r.stdout + r.stderr)


def main() -> int:
    prop, src, wt, name = sys.argv[1], pathlib.Path(sys.argv[2]), pathlib.Path(sys.argv[3]), sys.argv[4]
    patch, demo = src / "patch.diff", src / "demo.py"
    if not patch.exists() or not demo.exists():
        print(f"{name}: REJECT missing patch.diff/demo.py")
        return 1
    sh("git checkout -- . && git clean -fdq", wt)
    pyenv = {"PYTHONPATH": str(wt / "hugr-py" / "src")}
    c0, o0 = sh(f"/venv/bin/python {demo}", wt, pyenv, 300)
    if c0 != 0:
        print(f"{name}: REJECT demo fails on the clean tree: {o0[-300:]}")
        return 1
    ca, oa = sh(f"git apply --whitespace=nowarn {patch}", wt)
    if ca != 0:
        print(f"{name}: REJECT patch does not apply: {oa[-300:]}")
        return 1
    try:
        ct, ot = sh("/venv/bin/python -m pytest -q -p no:cacheprovider --timeout=900 --continue-on-collection-errors", wt)
        summary = [l for l in ot.splitlines() if re.search(r"\d+ passed", l)]
        line = summary[-1] if summary else ""
        same = EXPECT in line
        c1, o1 = sh(f"/venv/bin/python {demo}", wt, pyenv, 300)
        files = sh("git diff --stat", wt)[1]
    finally:
        sh("git checkout -- . && git clean -fdq", wt)
    if not same:
        print(f"{name}: REJECT baseline changes with the patch: {line}")
        return 1
    if c1 == 0:
        print(f"{name}: REJECT demo still passes with the patch")
        return 1
    dst = VERIF / "seeded" / name
    dst.mkdir(parents=True, exist_ok=True)
    shutil.copy2(patch, dst / "patch.diff")
    shutil.copy2(demo, dst / "demo.py")
    notes = (src / "notes.md").read_text() if (src / "notes.md").exists() else ""
    (dst / "notes.md").write_text(notes)
    meta = {
        "property": prop,
        "origin": "fresh sub-agent given only the property text and a scratch worktree (nothing from /verif)",
        "needs_to_manifest": notes.strip().split("\n\n")[0][:600] if notes else "",
        "confirmed": {
            "worktree": str(wt),
            "demo_clean_exit": c0, "demo_patched_exit": c1,
            "baseline_cmd": "/venv/bin/python -m pytest -q -p no:cacheprovider --timeout=900 --continue-on-collection-errors",
            "baseline_summary_with_patch": line.strip(),
            "demo_patched_output_tail": o1.strip()[-300:],
            "files_changed": files.strip(),
        },
    }
    (dst / "meta.json").write_text(json.dumps(meta, indent=1))
    print(f"{name}: KEPT ({line.strip()}; demo {c0} -> {c1})")
    return 0


if __name__ == "__main__":
    sys.exit(main())
