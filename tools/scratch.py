#!/usr/bin/env python3
"""Developer aid: python3 tools/scratch.py <seed-name> -> prints the path of a scratch copy of /repo with
seeded/<seed-name>/patch.diff applied (under /tmp/hv-dev/<seed-name>); `--rm` removes all of them."""
import pathlib, shutil, subprocess, sys
VERIF = pathlib.Path(__file__).resolve().parent.parent
sys.path.insert(0, str(VERIF))
from hv.selftest import COPY
base = pathlib.Path("/tmp/hv-dev")
if sys.argv[1] == "--rm":
    shutil.rmtree(base, ignore_errors=True); sys.exit(0)
for name in sys.argv[1:]:
    d = base / name
    shutil.rmtree(d, ignore_errors=True)
    for rel in COPY:
        src = pathlib.Path("/repo") / rel
        if src.is_dir():
            shutil.copytree(src, d / rel, ignore=shutil.ignore_patterns("__pycache__", "*.pyc"))
        elif src.exists():
            (d / rel).parent.mkdir(parents=True, exist_ok=True); shutil.copy2(src, d / rel)
    subprocess.run(["git", "init", "-q"], cwd=d, check=True)
    r = subprocess.run(["git", "apply", "--whitespace=nowarn", str(VERIF / "seeded" / name / "patch.diff")], cwd=d, capture_output=True, text=True)
    print(d, "OK" if r.returncode == 0 else "PATCH FAILED " + r.stderr[:200])
