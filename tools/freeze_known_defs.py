"""Freeze the names of every function / method of the package as the rule tables know them (hv/known_defs.json).
Run once when the tables are (re)confirmed against the tree; never at check time."""
import ast, json, sys
from pathlib import Path
root = Path(sys.argv[1] if len(sys.argv) > 1 else "/repo")
names = set()
for base in ("hugr-py/src/hugr", "scripts"):
    for f in sorted((root / base).rglob("*.py")):
        t = ast.parse(f.read_text())
        def walk(node, cls):
            for n in ast.iter_child_nodes(node):
                if isinstance(n, ast.ClassDef):
                    names.add(f"class:{n.name}")
                    # class-level names (constants, tables): "cconst:<Class>.<name>"
                    for b in n.body:
                        tg = b.targets if isinstance(b, ast.Assign) else ([b.target] if isinstance(b, ast.AnnAssign) else [])
                        for x in tg:
                            if isinstance(x, ast.Name):
                                names.add(f"cconst:{n.name}.{x.id}")
                    walk(n, n.name)
                elif isinstance(n, (ast.FunctionDef, ast.AsyncFunctionDef)):
                    names.add(n.name)
                    if cls:
                        names.add(f"{cls}.{n.name}")
                    else:
                        names.add(f"fn:{n.name}")       # a module-level or nested function (not a method)
                    walk(n, None)
                else:
                    walk(n, cls)
        walk(t, None)
        # module-level names (constants, aliases): "const:<name>"
        for n in t.body:
            tg = n.targets if isinstance(n, ast.Assign) else ([n.target] if isinstance(n, ast.AnnAssign) else [])
            for x in tg:
                if isinstance(x, ast.Name):
                    names.add(f"const:{x.id}")
Path(__file__).resolve().parent.parent.joinpath("hv/known_defs.json").write_text(json.dumps(sorted(names), indent=0))
print(len(names))
