#!/bin/bash
# dev aid: all 20 quick checks on /repo, one line each
cd "$(dirname "$0")/.."
for i in $(seq -w 1 20); do ( ./check C$i >/tmp/q_$i.out 2>&1; echo "C$i exit=$? $(grep -c '^VIOLATION' /tmp/q_$i.out) viol $(grep -m1 'ANALYSIS-ERROR' /tmp/q_$i.out | cut -c1-200)" ) & done; wait
