"""Reproductions of the findings F01-F25 listed in DESIGN.md section 6.

Triage aid only: run by hand with
    PYTHONPATH=/repo/hugr-py/src /venv/bin/python /verif/findings/triage_repro.py
It is NOT used by any check (the checks never import or execute hugr).
Each block prints what the unchanged tree does; the expected behaviour per the
property is given in the comment.
"""
import json

from hugr import ext, ops, tys, val
from hugr.build.cond_loop import Conditional
from hugr.build.dfg import Dfg
from hugr.build.function import Module
from hugr.build.tracked_dfg import TrackedDfg
from hugr.hugr import Hugr
from hugr.hugr.node_port import Node
from hugr.qsystem.result import QsysResult, QsysShot, _cast_primitive_bit
from hugr.std.int import INT_T, INT_TYPES_EXTENSION, DivMod


def show(tag, *a):
    print(f"{tag}:", *a)


# F01 (C01,C03): order edge of a node whose last output is unused lands on a value port
d = Dfg(INT_T, INT_T)
a, b = d.inputs()
n = d.add_op(DivMod, a, b)
d.set_outputs(n[0])
d.add_state_order(n, d.output_node)
show("F01 edges (order edge from node 3 should leave at offset 2)", json.loads(d.hugr.to_json())["edges"])

# F02 (C01): value wire from an outer DFG into a nested function body is accepted
outer = Dfg(tys.Bool)
f = outer.define_function("f", [], parent=outer.parent_node)
try:
    nn = f.add_op(ops.Noop(), outer.inputs()[0])
    show("F02 accepted value edge into FuncDefn body; order links", list(outer.hugr.outgoing_order_links(outer.input_node)))
except Exception as e:  # noqa: BLE001
    show("F02 raised", type(e).__name__)

# F03 (C02,C05): polymorphic FuncDefn loses its type parameters
m = Module()
fn = m.define_function("f", [tys.Variable(0, tys.TypeBound.Any)], type_params=[tys.TypeTypeParam(tys.TypeBound.Any)])
fn.set_outputs(*fn.inputs())
h2 = Hugr.load_json(m.hugr.to_json())
show("F03 params after round trip (should be 1 param)", h2[fn.parent_node].op.params)

# F04, F05
blk = ops.DataflowBlock([], tys.UnitSum(1), [], ["e"])
show("F04 block delta after decode (should be ['e'])", blk._to_serial(Node(0)).deserialize().extension_delta)
c = ops.Custom("foo", tys.FunctionType.empty(), "desc", "ext")
show("F05 description after decode (should be 'desc')", repr(c._to_serial(Node(0)).deserialize().description))

# F06: metadata never serialised
d = Dfg(tys.Bool)
n = d.add_op(ops.Noop(), d.inputs()[0], metadata={"a": 1})
d.set_outputs(n)
show("F06 metadata in document (should carry {'a': 1})", json.loads(d.hugr.to_json())["metadata"])

# F07: stale indices after deletion
h = Hugr()
x = h.add_const(val.TRUE)
y = h.add_const(val.FALSE)
z = h.add_node(ops.LoadConst(tys.Bool), num_outs=1)
h.add_link(y.out(0), z.inp(0))
h.delete_node(x)
doc = json.loads(h.to_json())
show("F07 3 nodes, edges (should be [[1,0],[2,0]])", len(doc["nodes"]), doc["edges"])

# F08/F09: order links on load
d = Dfg(tys.Bool)
d.set_outputs(d.inputs()[0])
d.add_state_order(d.input_node, d.output_node)
j = d.hugr.to_json()
h = Hugr.load_json(j)
show("F09 order links before/after load", list(d.hugr.outgoing_order_links(d.input_node)), list(h.outgoing_order_links(Node(1))))
doc = json.loads(j)
doc["edges"] = [e for e in doc["edges"] if e[0][1] == 0] + [[[1, None], [2, None]]]
h = Hugr.load_json(json.dumps(doc))
show("F08 links after loading a null-offset order edge (should include it)", list(h.links()))

# F10: index reuse puts a child before its parent
bq = Hugr(ops.DFG([], []))
x = bq.add_node(ops.Noop(tys.Bool))
y = bq.add_node(ops.DFG([], []))
bq.delete_node(x)
zz = bq.add_node(ops.Noop(tys.Bool), parent=y)
show("F10 parents in document order (child 1 listed before its parent 2)", [nd["parent"] for nd in json.loads(bq.to_json())["nodes"]])
try:
    Hugr().insert_hugr(bq)
    show("F10 insert ok")
except Exception as e:  # noqa: BLE001
    show("F10 insert_hugr raised", type(e).__name__)

# F11/F12: deletion in a fan-out, unconnected port
h = Hugr()
c0 = h.add_const(val.TRUE)
ls = [h.add_node(ops.LoadConst(tys.Bool)) for _ in range(3)]
for l in ls:
    h.add_link(c0.out(0), l.inp(0))
h.delete_node(ls[1])
show("F11 linked_ports vs links (should both show 2)", list(h.linked_ports(c0.out(0))), list(h.links()))
h = Hugr()
c0 = h.add_const(val.TRUE)
l0 = h.add_node(ops.LoadConst(tys.Bool), num_outs=1)
l1 = h.add_node(ops.LoadConst(tys.Bool), num_outs=1)
h.add_link(c0.out(0), l0.inp(0))  # in-port connected, out-port 0 left unconnected
h.add_link(c0.out(0), l1.inp(0))  # some other link must exist for _node_links to iterate
try:
    h.delete_node(l0)
    show("F12 ok")
except KeyError as e:
    show("F12 delete_node of a node with an unconnected port raised KeyError")

# F13
sig = tys.PolyFuncType(
    [tys.ListParam(tys.TypeTypeParam(tys.TypeBound.Any))],
    tys.FunctionType([tys.RowVariable(0, tys.TypeBound.Any)], [tys.RowVariable(0, tys.TypeBound.Any)]),
)
call = ops.Call(sig, tys.FunctionType([tys.Bool, tys.Bool], [tys.Bool, tys.Bool]), [tys.SequenceArg([tys.Bool.type_arg(), tys.Bool.type_arg()])])
show("F13 num_out / function port (should be 2 / 2)", call.num_out, call._function_port_offset())

# F14, F16
from hugr.std.collections.list import EXTENSION as LIST_EXT  # noqa: E402
from hugr.std.collections.list import List  # noqa: E402

reg = ext.ExtensionRegistry()
reg.add_extension(INT_TYPES_EXTENSION)
reg.add_extension(LIST_EXT)
lo = List(INT_T)._to_opaque()
op2 = tys.Opaque(id=lo.id, bound=lo.bound, extension=lo.extension, args=[tys.TypeTypeArg(INT_T._to_opaque())])
r = op2.resolve(reg)
show("F14 resolved arg classes (should be ExtType)", [type(a.ty).__name__ for a in r.args])
show("F16 model symbol opaque vs resolved", INT_T._to_opaque().to_model().symbol, INT_T.to_model().symbol)

# F15
from hugr.std.logic import Not  # noqa: E402

show("F15 description serialised for a resolved op vs definition", repr(Not.ext_op.to_custom_op().description), repr(Not.op_def().description))

# F17-F20 model export
m = Module()
callee = m.define_function("callee", [tys.Bool], [tys.Bool])
callee.set_outputs(*callee.inputs())
main = m.define_main([tys.Bool])
cl = main.call(callee, main.inputs()[0])
nop = main.add_op(ops.Noop(), cl[0])
main.add_state_order(cl, nop)
main.set_outputs(nop)
mod = m.hugr.to_model()
defs = [ch.operation.symbol.name for ch in mod.root.children]
main_region = mod.root.children[1].regions[0]
call_node = main_region.children[0]
show("F17 defined symbols / applied symbol", defs, call_node.operation.operation.args[2].symbol)
show("F18 region meta (should hold one order hint)", main_region.meta)
show("F19 call inputs (should be 1 value port)", call_node.inputs)

# F20: CFG region source taken from the entry block's *output* port
from hugr.build.cfg import Cfg  # noqa: E402

m2 = Module()
fm = m2.define_main([tys.Bool])
cfg = fm.add_cfg(fm.inputs()[0])
with cfg.add_entry() as entry:
    entry.set_single_succ_outputs(*entry.inputs())
cfg.branch_exit(entry[0])
fm.set_outputs(cfg)
cfg_node = m2.hugr.to_model().root.children[0].regions[0].children[0]
reg_ = cfg_node.regions[0]
show("F20 cfg region sources/targets and entry block inputs/outputs (source should be the entry's input link)", reg_.sources, reg_.targets, reg_.children[0].inputs, reg_.children[0].outputs)

# F21, F22
cond = Conditional(tys.Bool, [])
try:
    cond.add_case(-1)
    show("F21 add_case(-1) accepted")
except Exception as e:  # noqa: BLE001
    show("F21 raised", e)
t = TrackedDfg(tys.Bool, track_inputs=True)
n = t.add(ops.Noop()(0), metadata={"x": 1})
show("F22 metadata on tracked add (should be {'x': 1})", t.hugr[n].metadata)

# F23-F25
show("F23", repr(_cast_primitive_bit(True)))
show("F24 (should be {'a': '10'})", QsysShot([("a[0]", 1), ("a", [0, 0]), ("a[0]", 1)]).to_register_bits())
try:
    QsysResult([QsysShot([("a", 1)]), QsysShot([("a", 1), ("b", 0)])]).register_bitstrings(strict_names=True)
    show("F25 differing register sets accepted under strict_names")
except ValueError:
    show("F25 rejected")
