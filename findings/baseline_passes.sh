#!/bin/sh
# usage: baseline_passes.sh <repo dir>  -> prints sorted list of passed test ids (triage aid for fix commits)
cd "$1" && /venv/bin/python -m pytest -q -p no:cacheprovider --timeout=900 --continue-on-collection-errors -rA 2>/dev/null | grep '^PASSED' | sed 's/^PASSED //' | sort
