"""Triage aid (NOT a check): random histories of the graph store against a plain
multigraph model, used only to validate the proposed fix for F11/F12.
    PYTHONPATH=<repo>/hugr-py/src /venv/bin/python store_model_check.py [seeds]
"""
import random, sys
from collections import Counter
from hugr import ops, tys, val
from hugr.hugr import Hugr
from hugr.hugr.node_port import Node

def run(seed):
    rnd = random.Random(seed)
    h = Hugr()
    live = []          # node handles
    links = Counter()  # (src_idx, src_off, dst_idx, dst_off) -> multiplicity
    for step in range(60):
        op = rnd.choice(["add", "add", "link", "link", "link", "order", "dellink", "delnode"])
        if op == "add" or len(live) < 2:
            live.append(h.add_node(ops.Noop(tys.Bool), num_outs=rnd.randint(0, 2)))
        elif op == "link":
            a, b = rnd.choice(live), rnd.choice(live)
            so, do = rnd.randint(0, 2), rnd.randint(0, 2)
            h.add_link(a.out(so), b.inp(do)); links[(a.idx, so, b.idx, do)] += 1
        elif op == "order":
            a, b = rnd.choice(live), rnd.choice(live)
            h.add_order_link(a, b)
            if links[(a.idx, -1, b.idx, -1)] == 0: links[(a.idx, -1, b.idx, -1)] = 1
        elif op == "dellink" and links:
            k = rnd.choice([k for k, v in links.items() if v > 0] or [None])
            if k is None: continue
            h.delete_link(Node(k[0]).out(k[1]), Node(k[2]).inp(k[3])); links[k] -= 1
        elif op == "delnode":
            n = live.pop(rnd.randrange(len(live)))
            h.delete_node(n)
            for k in list(links):
                if k[0] == n.idx or k[2] == n.idx: del links[k]
        # compare
        model = +links
        got = Counter((s.node.idx, s.offset, d.node.idx, d.offset) for s, d in h.links())
        assert got == model, (seed, step, op, got - model, model - got)
        for n in live:
            for off in range(-1, 3):
                outs = Counter((d.node.idx, d.offset) for d in h.linked_ports(n.out(off)))
                exp = Counter({(k[2], k[3]): v for k, v in model.items() if k[0] == n.idx and k[1] == off})
                assert outs == exp, (seed, step, op, "out", n, off, outs, exp)
                ins = Counter((s.node.idx, s.offset) for s in h.linked_ports(n.inp(off)))
                exp = Counter({(k[0], k[1]): v for k, v in model.items() if k[2] == n.idx and k[3] == off})
                assert ins == exp, (seed, step, op, "in", n, off, ins, exp)
        assert h.num_nodes() == len(live) + 1

bad = 0
for seed in range(int(sys.argv[1]) if len(sys.argv) > 1 else 300):
    try:
        run(seed)
    except (AssertionError, KeyError) as e:
        bad += 1
        if bad <= 3: print("FAIL", type(e).__name__, str(e)[:300])
print("histories failing:", bad)
