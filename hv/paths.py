"""Path summaries of a (canonical) function body.

A summary is one acyclic path through the structured statements: the branch tests taken (with short-circuit
operators split into their operands), the effects performed in order, and how the path ends (return value / raised
exception / fall-through / continue / break).  All reads of locals are replaced by the expression that defined them
*on that path*, so a summary does not depend on local names, temporaries, guard-clause vs if/else layout, `match`
vs isinstance, conditional expressions vs statements, or `a or b` vs two consecutive tests.

Loops are not unrolled: a loop is one opaque effect (its header and body with the incoming bindings substituted) and
the names it assigns become unknown afterwards.
"""
from __future__ import annotations

import ast
import copy
from dataclasses import dataclass, field

from . import norm
from .model import u
from .tmpl import T, tmatch


class PathBound(Exception):
    pass


@dataclass
class Path:
    tests: list = field(default_factory=list)        # (expr ast, taken: bool)
    effects: list = field(default_factory=list)      # ast nodes (stmt or expr) with locals substituted
    kind: str = "fall"                               # return | raise | fall | continue | break
    value: ast.AST | None = None                     # returned expression / raised exception
    env: dict = field(default_factory=dict)
    node: ast.AST | None = None                      # the terminating statement (for line numbers)
    decided: dict = field(default_factory=dict)      # tests over locals already taken: (test text, ids of the bindings read) -> outcome

    # ---- queries
    def tests_text(self) -> list[tuple[str, bool]]:
        return [(u(t), k) for t, k in self.tests]

    def has_test(self, tmpl: str, taken: bool | None = None, env: dict | None = None):
        t = T(tmpl)
        for e, k in self.tests:
            if taken is None or k == taken:
                m = tmatch(e, t, env)
                if m is not None:
                    return m
        return None

    def value_text(self) -> str:
        return u(self.value) if self.value is not None else ""

    def effect_texts(self) -> list[str]:
        return [u(e) for e in self.effects]

    def find_effect(self, tmpl: str, env: dict | None = None):
        t = T(tmpl)
        out = []
        for i, e in enumerate(self.effects):
            for n in ast.walk(e):
                if type(n) is type(t) or isinstance(t, ast.Name) or (isinstance(n, ast.Expr) and isinstance(t, ast.expr)):
                    m = tmatch(n, t, env)
                    if m is not None:
                        out.append((i, n, m))
                        break
        return out

    def describe(self) -> str:
        c = " and ".join(("" if k else "not ") + f"({u(t)})" for t, k in self.tests) or "always"
        return f"[{c}] -> {self.kind} {self.value_text()}"


# constructor-field projection K(a, b).f -> a for the plain dataclasses of the analysed program: {class name: [init field names]}
# (set by Canon, which knows the program; a name defined twice with different fields is left out)
CTOR_FIELDS: dict[str, list] = {}      # name -> [(init field names, other attribute names of the class)]


class _Simp(ast.NodeTransformer):
    """[f(v) for v in [a, b]] -> [f(a), f(b)]  (arises when a temporary holding a list display is substituted)"""
    def visit_Attribute(self, node):
        self.generic_visit(node)
        v = node.value
        if isinstance(v, ast.Call) and isinstance(v.func, ast.Name) and v.func.id == "old_" and len(v.args) == 1:
            v = v.args[0]
        if isinstance(node.ctx, ast.Load) and isinstance(v, ast.Call) and isinstance(v.func, (ast.Name, ast.Attribute)):
            cands = CTOR_FIELDS.get(v.func.id if isinstance(v.func, ast.Name) else v.func.attr) or []
            # classes of that name: the one that has the field, provided no other one has an attribute of that name at all
            hit = [fs for fs, other in cands if node.attr in fs]
            names = hit[0] if len(hit) == 1 and not any(node.attr in other for fs, other in cands if node.attr not in fs) else None
            if names and node.attr in names and not any(isinstance(a, ast.Starred) for a in v.args) and not any(k.arg is None for k in v.keywords) \
                    and len(v.args) <= len(names):
                given = dict(zip(names, v.args))
                given.update({k.arg: k.value for k in v.keywords})
                others = [x for f_, x in given.items() if f_ != node.attr]
                if node.attr in given and all(norm.is_pure(x, _PURE) for x in others):
                    got = given[node.attr]
                    if v is not node.value:      # the constructor was evaluated before a mutation: so was its argument
                        got = ast.Call(func=ast.Name(id="old_", ctx=ast.Load()), args=[got], keywords=[]) if not isinstance(got, ast.Constant) else got
                    return ast.copy_location(got, node)
        return node

    def _comp(self, node):
        self.generic_visit(node)
        if len(node.generators) == 1 and not node.generators[0].ifs and isinstance(node.generators[0].iter, (ast.List, ast.Tuple)) \
                and not any(isinstance(x, ast.Starred) for x in node.generators[0].iter.elts) \
                and isinstance(node, (ast.ListComp, ast.GeneratorExp)) and len(node.generators[0].iter.elts) <= 4:
            tg = node.generators[0].target
            if isinstance(tg, ast.Name):
                return ast.copy_location(ast.List(elts=[norm._Subst({tg.id: x}).visit(copy.deepcopy(node.elt)) for x in node.generators[0].iter.elts], ctx=ast.Load()), node)
            # (f(a, b) for a, b in ((x1, y1), (x2, y2)))
            if isinstance(tg, ast.Tuple) and all(isinstance(t, ast.Name) for t in tg.elts) and all(
                    isinstance(x, ast.Tuple) and len(x.elts) == len(tg.elts) for x in node.generators[0].iter.elts):
                return ast.copy_location(ast.List(elts=[norm._Subst({t.id: y for t, y in zip(tg.elts, x.elts)}).visit(copy.deepcopy(node.elt))
                                                        for x in node.generators[0].iter.elts], ctx=ast.Load()), node)
        return node
    visit_ListComp = _comp

    def _empty_iter(self, node):
        """a comprehension over an empty display is empty"""
        self.generic_visit(node)
        it = node.generators[0].iter
        if (isinstance(it, (ast.List, ast.Tuple, ast.Set)) and not it.elts) or (isinstance(it, ast.Dict) and not it.keys):
            if isinstance(node, ast.DictComp):
                return ast.copy_location(ast.Dict(keys=[], values=[]), node)
            if isinstance(node, ast.SetComp):
                return ast.copy_location(ast.Call(func=ast.Name(id="set", ctx=ast.Load()), args=[], keywords=[]), node)
        return node
    visit_DictComp = visit_SetComp = _empty_iter

    def visit_Call(self, node):
        self.generic_visit(node)
        # f(**{"a": x}) is f(a=x)   (a substituted local holding the keyword arguments)
        if any(k.arg is None and isinstance(k.value, ast.Dict) for k in node.keywords):
            from .nf import _expand_dict_keywords
            node = _expand_dict_keywords(node)
        # len of a display without unpacking
        if isinstance(node.func, ast.Name) and node.func.id == "len" and len(node.args) == 1 and not node.keywords:
            a = node.args[0]
            if isinstance(a, (ast.List, ast.Tuple, ast.Set)) and not any(isinstance(x, ast.Starred) for x in a.elts) and (not isinstance(a, ast.Set) or len(a.elts) <= 1):
                return ast.copy_location(ast.Constant(len(a.elts)), node)
            if isinstance(a, ast.Dict) and not a.keys:
                return ast.copy_location(ast.Constant(0), node)
        return node

    def visit_Subscript(self, node):
        self.generic_visit(node)
        # [a, b][0] -> a   (also for the i-th item of a written-out generator, as produced by unpacking it)
        v = node.value
        if isinstance(v, ast.GeneratorExp):
            v = self._comp(copy.deepcopy(v))
        if isinstance(v, (ast.List, ast.Tuple)) and isinstance(node.slice, ast.Constant) and type(node.slice.value) is int \
                and 0 <= node.slice.value < len(v.elts) and not any(isinstance(x, ast.Starred) for x in v.elts) and isinstance(node.ctx, ast.Load):
            return v.elts[node.slice.value]
        return node


def _simplify(e):
    if e is None:
        return None
    e = _Simp().visit(e)
    # substitution of locals can expose idioms (a generator pipeline, any(v == x ..)) that the expression normaliser removes
    if any(isinstance(n, (ast.GeneratorExp, ast.ListComp, ast.SetComp, ast.DictComp, ast.JoinedStr)) for n in ast.walk(e)):
        from .canon import _BoundVars, _ExprNorm
        e = _BoundVars().visit(_ExprNorm().visit(copy.deepcopy(e)))
    return e


class _Fwd(ast.NodeTransformer):
    """store-to-load forwarding: after `self.signature = signature` a read of self.signature is the value stored (keys '@<path>',
    recorded only for stored references / constants and dropped at the next call that could rebind the attribute)"""
    def __init__(self, env):
        self.m = {k[1:]: v for k, v in env.items() if k.startswith("@")}

    def visit_Attribute(self, node):
        if isinstance(node.ctx, ast.Load) and self.m:
            t = u(node)
            if t in self.m:
                # the stored value is already expressed over entry values: protect it from the substitution of locals
                return ast.Call(func=ast.Name(id="fwd_", ctx=ast.Load()), args=[copy.deepcopy(self.m[t])], keywords=[])
        return self.generic_visit(node)


    def visit_Call(self, node):
        if isinstance(node.func, ast.Name) and node.func.id in ("old_", "fwd_"):
            return node             # a value of an earlier moment
        return self.generic_visit(node)


class _S(norm._Subst):
    def visit_Call(self, node):
        if isinstance(node.func, ast.Name) and node.func.id == "fwd_" and len(node.args) == 1:
            return node.args[0]
        return self.generic_visit(node)


def _subst(e, env):
    """the statement's own attribute reads are forwarded first (they see the latest store), then its locals are replaced by
    their values (which were forwarded when they were bound)"""
    if e is None:
        return None
    e = copy.deepcopy(e)
    if any(k.startswith("@") for k in env):
        e = _Fwd(env).visit(e)
    return _S({k: v for k, v in env.items() if not k.startswith("@")}).visit(e)


def _drop_forwards(env, stmt) -> None:
    """a call that is not known to be read-only may rebind any attribute; a store to <x>.a ends what is known about every *.a"""
    keys = [k for k in env if k.startswith("@")]
    if not keys:
        return
    if not isinstance(stmt, (ast.Assign, ast.AnnAssign, ast.AugAssign, ast.Expr, ast.Delete, ast.Assert, ast.Return)) or not norm.is_pure(stmt, _PURE):
        for k in keys:
            del env[k]
        return
    stored = {n.attr for n in ast.walk(stmt) if isinstance(n, ast.Attribute) and isinstance(n.ctx, (ast.Store, ast.Del))}
    for k in keys:
        if k.rsplit(".", 1)[-1] in stored:
            del env[k]


_fresh = [0]


def _kill(env, names):
    """the names become unknown (assigned in a loop / try / with target): bind each to a fresh symbol.  A bare Name x
    inside a binding always denotes the value x had on entry (a parameter), so other bindings stay valid."""
    for x in sorted(names):
        _fresh[0] += 1
        env[x] = ast.Name(id=f"{x}_u{_fresh[0]}", ctx=ast.Load())


def _split_walrus(e, env):
    """bind walrus targets (in evaluation order) and replace them by their value"""
    class W(ast.NodeTransformer):
        def visit_NamedExpr(self, node):
            v = self.visit(node.value)
            v = _subst(v, env)
            env[node.target.id] = v
            return copy.deepcopy(v)

        def visit_Name(self, node):
            if isinstance(node.ctx, ast.Load) and node.id in env:
                return copy.deepcopy(env[node.id])
            return node

        def visit_Call(self, node):
            if isinstance(node.func, ast.Name) and node.func.id == "fwd_" and len(node.args) == 1:
                return node.args[0]
            return self.generic_visit(node)

        def visit_Lambda(self, node):
            return node

        def _comp(self, node):
            return _subst(node, env)
        visit_ListComp = visit_SetComp = visit_DictComp = visit_GeneratorExp = _comp
    e = copy.deepcopy(e)
    if any(k.startswith("@") for k in env):
        e = _Fwd(env).visit(e)
    return W().visit(e)


class Summariser:
    def __init__(self, bound: int = 512, in_loop: bool = False):
        self.bound = bound
        self.out: list[Path] = []
        self.in_loop = in_loop
        self.mutated: set[str] = set()

    def run(self, stmts) -> list[Path]:
        self.mutated = _mutated_names(stmts)
        self._block(list(stmts), Path(), lambda p: self._end(p, "fall", None, None))
        return self.out

    def _end(self, p: Path, kind, value, node):
        dec = _Decide(p.tests)
        q = Path(list(p.tests), [_simplify(dec.visit(copy.deepcopy(e))) if dec.active and _has_ifexp(e) else _simplify(e) for e in p.effects], kind,
                 (_simplify(dec.visit(copy.deepcopy(value))) if dec.active and _has_ifexp(value) else _simplify(value)) if value is not None else None, dict(p.env), node)
        self.out.append(q)
        if len(self.out) > self.bound:
            raise PathBound()

    def _fork(self, p: Path) -> Path:
        return Path(list(p.tests), list(p.effects), p.kind, p.value, dict(p.env), p.node, dict(p.decided))

    # a test with short-circuit operators: cont_true / cont_false are continuations taking the path
    def _test(self, e, p: Path, cont_true, cont_false, raw: bool = False):
        # raw: e is already expressed over entry values (a substituted local that turned out to be a compound test)
        if isinstance(e, ast.BoolOp):
            vals = e.values

            def chain(i, q):
                if i == len(vals) - 1:
                    self._test(vals[i], q, cont_true, cont_false, raw)
                elif isinstance(e.op, ast.Or):
                    self._test(vals[i], q, cont_true, lambda r: chain(i + 1, r), raw)
                else:
                    self._test(vals[i], q, lambda r: chain(i + 1, r), cont_false, raw)
            chain(0, p)
            return
        if isinstance(e, ast.UnaryOp) and isinstance(e.op, ast.Not):
            self._test(e.operand, p, cont_false, cont_true, raw)
            return
        # bool(E) as a test is the test E
        while isinstance(e, ast.Call) and isinstance(e.func, ast.Name) and e.func.id == "bool" and len(e.args) == 1 and not e.keywords:
            e = e.args[0]
        # a test that only reads locals (each bound once to ONE evaluation, whatever its text) has one outcome per binding on a path
        key = None
        # (isinstance(x, K) of a local x: the class of the ONE object x was bound to does not change either)
        inst = isinstance(e, ast.Call) and isinstance(e.func, ast.Name) and e.func.id == "isinstance" and len(e.args) == 2 and not e.keywords \
            and isinstance(e.args[0], ast.Name) and not any(isinstance(n, (ast.Call, ast.Subscript, ast.NamedExpr, ast.Lambda)) for n in ast.walk(e.args[1]))
        if not raw and inst and e.args[0].id in p.env:
            key = (u(e), (id(p.env[e.args[0].id]),))
            if key in p.decided:
                (cont_true if p.decided[key] else cont_false)(p)
                return
        elif not raw and not any(isinstance(n, (ast.Call, ast.Attribute, ast.Subscript, ast.NamedExpr, ast.Lambda)) for n in ast.walk(e)):
            names = sorted({n.id for n in ast.walk(e) if isinstance(n, ast.Name)})
            if names and all(n in p.env for n in names):
                key = (u(e), tuple(id(p.env[n]) for n in names))
                if key in p.decided:
                    (cont_true if p.decided[key] else cont_false)(p)
                    return
        if key is not None:
            ct0, cf0 = cont_true, cont_false

            def cont_true(q, _k=key, _c=ct0):
                q.decided[_k] = True
                _c(q)

            def cont_false(q, _k=key, _c=cf0):
                q.decided[_k] = False
                _c(q)
        e2 = e if raw else _split_walrus(e, p.env)
        while isinstance(e2, ast.Call) and isinstance(e2.func, ast.Name) and e2.func.id == "bool" and len(e2.args) == 1 and not e2.keywords:
            e2 = e2.args[0]
        if not raw and (isinstance(e2, ast.BoolOp) or (isinstance(e2, ast.UnaryOp) and isinstance(e2.op, ast.Not))):
            self._test(e2, p, cont_true, cont_false, True)
            return
        if any(isinstance(n, (ast.DictComp, ast.SetComp)) or (isinstance(n, ast.Call) and isinstance(n.func, ast.Name) and n.func.id == "len") for n in ast.walk(e2)):
            e2 = _Simp().visit(copy.deepcopy(e2))       # (substituted displays: a comprehension over an empty one, the length of one)
        ip = e2 if isinstance(e2, ast.Call) and u(e2.func) == "isinstance" and len(e2.args) == 2 and not e2.keywords else None
        if ip is not None and (isinstance(ip.args[1], ast.Tuple) or (isinstance(ip.args[1], ast.BinOp) and isinstance(ip.args[1].op, ast.BitOr))):
            # isinstance(x, A | B) is isinstance(x, A) or isinstance(x, B): one class per test, like the arms of a match
            def flat(c):
                if isinstance(c, ast.BinOp) and isinstance(c.op, ast.BitOr):
                    return flat(c.left) + flat(c.right)
                if isinstance(c, ast.Tuple):
                    return [y for x in c.elts for y in flat(x)]
                return [c]
            classes = flat(ip.args[1])
            if len(classes) >= 2 and not any(isinstance(c, ast.Starred) for c in classes):
                alts = [ast.copy_location(ast.Call(func=ip.func, args=[copy.deepcopy(ip.args[0]), c], keywords=[]), ip) for c in classes]
                self._test(ast.copy_location(ast.BoolOp(op=ast.Or(), values=alts), ip), p, cont_true, cont_false, True)
                return
        # a conditional expression inside the test (pure condition, not under a lambda / comprehension): one path per alternative
        ife = next((n for n in _walk_eager(e2) if isinstance(n, ast.IfExp) and norm.is_pure(n.test, _PURE)), None)
        if ife is not None:
            # (deepcopy breaks identity: the node is located by position in the copy)
            idx_ = [i for i, n in enumerate(_walk_eager(e2)) if n is ife][0]

            def pick(arm_name):
                e3 = copy.deepcopy(e2)
                tgt = list(_walk_eager(e3))[idx_]

                class R(ast.NodeTransformer):
                    def visit_IfExp(self, node):
                        return getattr(node, arm_name) if node is tgt else self.generic_visit(node)
                return R().visit(e3)
            self._test(ife.test, p, lambda q: self._test(pick("body"), q, cont_true, cont_false, True),
                       lambda q: self._test(pick("orelse"), q, cont_true, cont_false, True), True)
            return
        neg = _canon_neg(e2)
        a, b = self._fork(p), self._fork(p)
        t = neg if neg is not None else e2
        ta, tb = (False, True) if neg is not None else (True, False)
        # feasibility: a pure test already decided on this path is not decided the other way again
        fa, fb = _feasible(p.tests, t, ta), _feasible(p.tests, t, tb)
        if fa:
            if fa != "known":
                a.tests.append((t, ta))
            cont_true(a)
        if fb:
            if fb != "known":
                b.tests.append((t, tb))
            cont_false(b)

    def _block(self, stmts, p: Path, cont):
        if not stmts:
            cont(p)
            return
        s, rest = stmts[0], stmts[1:]
        nxt = lambda q: self._block(rest, q, cont)      # noqa: E731
        if isinstance(s, ast.If):
            self._test(s.test, p, lambda q: self._block(s.body, q, nxt), lambda q: self._block(s.orelse, q, nxt))
            return
        if isinstance(s, ast.Return):
            v = _split_walrus(s.value, p.env) if s.value is not None else None
            self._end(p, "return", v, s)
            return
        if isinstance(s, ast.Raise):
            self._end(p, "raise", _subst(s.exc, p.env), s)
            return
        if isinstance(s, ast.Continue) or isinstance(s, ast.Break):
            self._end(p, "continue" if isinstance(s, ast.Continue) else "break", None, s)
            return
        if isinstance(s, ast.Pass):
            nxt(p)
            return
        if isinstance(s, (ast.Assign, ast.AnnAssign)):
            if s.value is None:
                nxt(p)
                return
            q = self._fork(p)
            v = _split_walrus(s.value, q.env)
            tgts = s.targets if isinstance(s, ast.Assign) else [s.target]
            acc_init = len(tgts) == 1 and isinstance(tgts[0], ast.Name) and tgts[0].id in self.mutated and not _is_path(v) and not isinstance(v, ast.List) and not norm.is_scalar(v)
            if acc_init:
                # the accumulator keeps its name: show where it starts
                q.effects.append(ast.copy_location(ast.Assign(targets=[ast.Name(id=tgts[0].id, ctx=ast.Store())], value=copy.deepcopy(v)), s))
                _freeze(q.env, s)
            elif not norm.is_pure(s.value, _PURE) and all(isinstance(t, (ast.Name, ast.Tuple, ast.List)) for t in tgts):
                q.effects.append(ast.copy_location(ast.Expr(copy.deepcopy(v)), s))
                _freeze(q.env, s)
            for t in tgts:
                self._bind(t, v, q, s)
            nxt(q)
            return
        if isinstance(s, ast.AugAssign):
            q = self._fork(p)
            v = _split_walrus(s.value, q.env)
            if isinstance(s.target, ast.Name) and s.target.id in q.env and _is_path(q.env[s.target.id]) and not isinstance(q.env[s.target.id], ast.Name):
                # x = obj.path ; x += v : (for a list) an in-place change of the object the path reaches
                ref = copy.deepcopy(q.env[s.target.id])
                for n_ in ast.walk(ref):
                    if isinstance(n_, (ast.Subscript, ast.Attribute)) and n_ is ref:
                        n_.ctx = ast.Store()
                eff = ast.copy_location(ast.AugAssign(target=ref, op=s.op, value=v), s)
                q.effects.append(eff)
                _freeze(q.env, s, inplace=u(ref))
                nxt(q)
                return
            if isinstance(s.target, ast.Name) and s.target.id in self.mutated and s.target.id not in q.env:
                # an accumulator that keeps its name: an in-place effect only
                q.effects.append(ast.copy_location(ast.AugAssign(target=ast.Name(id=s.target.id, ctx=ast.Store()), op=s.op, value=v), s))
                _freeze(q.env, s)
                nxt(q)
                return
            if isinstance(s.target, ast.Name):
                old = q.env.get(s.target.id, ast.Name(id=s.target.id, ctx=ast.Load()))
                q.env[s.target.id] = ast.BinOp(left=copy.deepcopy(old), op=s.op, right=v)
                # in-place mutation of a shared object is also an effect
                q.effects.append(ast.copy_location(ast.AugAssign(target=ast.Name(id=s.target.id, ctx=ast.Store()), op=s.op, value=v), s))
            else:
                q.effects.append(ast.copy_location(ast.AugAssign(target=_subst(s.target, q.env), op=s.op, value=v), s))
            nxt(q)
            return
        if isinstance(s, ast.Expr):
            q = self._fork(p)
            # a list being built through a local name: x = [..]; x.append(e) / x.extend(es)
            c = s.value
            if isinstance(c, ast.Call) and isinstance(c.func, ast.Attribute) and isinstance(c.func.value, ast.Name) and c.func.attr in ("append", "extend") \
                    and isinstance(q.env.get(c.func.value.id), ast.List) and len(c.args) == 1 and not c.keywords:
                a = _split_walrus(c.args[0], q.env)
                cur = q.env[c.func.value.id]
                new_elt = a if c.func.attr == "append" else ast.Starred(value=a, ctx=ast.Load())
                q.env[c.func.value.id] = ast.List(elts=list(cur.elts) + [new_elt], ctx=ast.Load())
                nxt(q)
                return
            v = _split_walrus(s.value, q.env)
            if not (isinstance(v, ast.Constant)):
                q.effects.append(ast.copy_location(ast.Expr(v), s))
                _freeze(q.env, s)
            nxt(q)
            return
        if isinstance(s, ast.Assert):
            q = self._fork(p)
            q.effects.append(ast.copy_location(ast.Assert(test=_subst(s.test, q.env), msg=None), s))
            nxt(q)
            return
        if isinstance(s, ast.Delete):
            q = self._fork(p)
            q.effects.append(ast.copy_location(ast.Delete(targets=[_subst(t, q.env) for t in s.targets]), s))
            _freeze(q.env, s)
            nxt(q)
            return
        if isinstance(s, ast.For) and isinstance(s.iter, ast.Name) and s.iter.id in p.env and not s.orelse \
                and p.decided.get((s.iter.id, (id(p.env[s.iter.id]),))) is False:
            # the local was tested falsy on this path: iterating it runs no iteration
            nxt(self._fork(p))
            return
        if isinstance(s, (ast.For, ast.While)):
            q = self._fork(p)
            s2 = copy.deepcopy(s)
            killed = norm._assigned_names(s.body + s.orelse)
            if isinstance(s, ast.For):
                s2.iter = _subst(s.iter, q.env)
                killed |= {n.id for n in ast.walk(s.target) if isinstance(n, ast.Name)}
            inner_env = dict(q.env)
            _kill(inner_env, {k for k in killed if not (isinstance(s, ast.For) and k in {n.id for n in ast.walk(s.target) if isinstance(n, ast.Name)})})
            for k in ({n.id for n in ast.walk(s.target) if isinstance(n, ast.Name)} if isinstance(s, ast.For) else set()):
                inner_env.pop(k, None)          # the loop variables are themselves inside the body
            shown_env = {k: v for k, v in inner_env.items() if k not in killed}     # inside the opaque effect loop-carried names keep their names
            if isinstance(s, ast.While):
                s2.test = _subst(s.test, shown_env)
            s2.body = [_subst(x, shown_env) for x in s.body]
            s2.orelse = [_subst(x, shown_env) for x in s.orelse]
            q.effects.append(s2)
            _kill(q.env, killed)
            # a return / raise inside the loop is a possible end of the path: summarise the body once (one iteration,
            # loop-carried names unknown) and keep the ends that leave the function
            hdr = s2.iter if isinstance(s, ast.For) else s2.test
            marker = ast.Call(func=ast.Name(id="in_loop_", ctx=ast.Load()), args=[hdr] + ([copy.deepcopy(s.target)] if isinstance(s, ast.For) else []), keywords=[])
            if any(isinstance(n, (ast.Return, ast.Raise)) for x in s.body for n in ast.walk(x)):
                sub = Summariser(self.bound, in_loop=True)
                sub.mutated = self.mutated
                start = Path(env=dict(inner_env))
                try:
                    sub._block(list(s.body), start, lambda r: sub._end(r, "fall", None, None))
                except PathBound:
                    raise
                for sp in sub.out:
                    if sp.kind in ("return", "raise"):
                        r2 = self._fork(q)
                        r2.effects = list(p.effects)
                        r2.tests = list(q.tests) + [(marker, True)] + list(sp.tests)
                        r2.effects += list(sp.effects)
                        self._end(r2, sp.kind, sp.value, sp.node)
            nxt(q)
            return
        if isinstance(s, ast.With):
            q = self._fork(p)
            for it in s.items:
                q.effects.append(ast.copy_location(ast.Expr(_subst(it.context_expr, q.env)), s))
                if it.optional_vars is not None:
                    _kill(q.env, {n.id for n in ast.walk(it.optional_vars) if isinstance(n, ast.Name)})
            self._block(s.body, q, nxt)
            return
        if isinstance(s, ast.Try):
            # normal flow through the body (+ else, finally); each handler is an extra path from the state at entry
            fin = list(s.finalbody)
            self._block(list(s.body) + list(s.orelse) + fin, self._fork(p), nxt)
            # what the guarded body does (summarised once, from the state at entry): shown inside the handler paths
            guarded = None
            try:
                sub = Summariser(self.bound, in_loop=self.in_loop)
                sub.mutated = self.mutated
                sub._block(list(s.body), self._fork(p), lambda r: sub._end(r, "fall", None, None))
                best = max(sub.out, key=lambda r: len(r.effects)) if sub.out else None
                if best is not None:
                    guarded = [e if isinstance(e, ast.stmt) else ast.Expr(e) for e in best.effects[len(p.effects):]]
                    if best.kind == "return" and best.value is not None:
                        guarded.append(ast.Expr(best.value))
            except PathBound:
                guarded = None
            for h in s.handlers:
                q = self._fork(p)
                q.tests.append((ast.Call(func=ast.Name(id="except_", ctx=ast.Load()), args=[_subst(h.type, q.env)] if h.type is not None else [], keywords=[]), True))
                # effects of the guarded body may have happened partially: record them as one opaque effect
                body_ = guarded if guarded else [_subst(x, q.env) for x in s.body]
                q.effects.append(ast.copy_location(ast.Try(body=body_ or [ast.Pass()], handlers=[], orelse=[], finalbody=[ast.Pass()]), s))
                _kill(q.env, norm._assigned_names(s.body))
                if h.name:
                    _kill(q.env, {h.name})
                self._block(list(h.body) + fin, q, nxt)
            return
        if isinstance(s, ast.Match):
            # (only un-lowered matches arrive here) treat every case as a branch with an opaque test
            for c in s.cases:
                q = self._fork(p)
                q.tests.append((ast.Call(func=ast.Name(id="case_", ctx=ast.Load()), args=[_subst(s.subject, q.env), ast.Constant(u(c.pattern))], keywords=[]), True))
                _kill(q.env, {n.name for n in ast.walk(c.pattern) if isinstance(n, (ast.MatchAs, ast.MatchStar)) and n.name})
                self._block(c.body, q, nxt)
            return
        if isinstance(s, (ast.FunctionDef, ast.ClassDef, ast.Import, ast.ImportFrom, ast.Global, ast.Nonlocal)):
            nxt(p)
            return
        q = self._fork(p)
        q.effects.append(_subst(s, q.env))
        nxt(q)

    def _bind(self, t, v, q: Path, s):
        if isinstance(t, ast.Name):
            # v was computed with the previous bindings substituted; a bare name left in it denotes a value on entry
            if t.id in self.mutated and not _is_path(v) and not isinstance(v, ast.List) and not norm.is_scalar(v):
                # an accumulator: a freshly built object that is filled through its name keeps the name
                q.env.pop(t.id, None)
                return
            q.env[t.id] = v
            return
        if isinstance(t, (ast.Tuple, ast.List)):
            if isinstance(v, (ast.Tuple, ast.List)) and len(v.elts) == len(t.elts) and not any(isinstance(x, ast.Starred) for x in list(t.elts) + list(v.elts)):
                for a, b in zip(t.elts, v.elts):
                    self._bind(a, b, q, s)
                return
            star = [i for i, x in enumerate(t.elts) if isinstance(x, ast.Starred)]
            for i, a in enumerate(t.elts):
                if isinstance(a, ast.Starred):
                    lo = i
                    hi = i - len(t.elts) + 1
                    sl = ast.Slice(lower=ast.Constant(lo) if lo else None, upper=ast.Constant(hi) if hi else None)
                    self._bind(a.value, ast.Subscript(value=copy.deepcopy(v), slice=sl, ctx=ast.Load()), q, s)
                else:
                    idx = i if (not star or i < star[0]) else i - len(t.elts)
                    self._bind(a, ast.Subscript(value=copy.deepcopy(v), slice=ast.Constant(idx), ctx=ast.Load()), q, s)
            return
        # attribute / subscript store: an effect
        tt = _subst(t, q.env)
        q.effects.append(ast.copy_location(ast.Assign(targets=[tt], value=copy.deepcopy(v)), s))
        _freeze(q.env, s)
        if isinstance(tt, ast.Attribute) and norm._attr_chain(tt) is not None and \
                ((norm.is_reference(v) and not any(isinstance(n, ast.Subscript) for n in ast.walk(v))) or
                 (isinstance(v, ast.Constant) and not isinstance(v.value, (bytes,)))):
            q.env["@" + u(tt)] = copy.deepcopy(v)


class _Pure:
    def __contains__(self, name):
        return bool(name) and name[0].isupper()


_PURE = _Pure()


def _canon_neg(e):
    """if e is the negation of a canonical comparison return that comparison (the caller swaps the branches)"""
    if isinstance(e, ast.Compare) and len(e.ops) == 1:
        op = e.ops[0]
        table = {ast.NotEq: ast.Eq, ast.GtE: ast.Lt, ast.Gt: ast.LtE, ast.IsNot: None, ast.NotIn: ast.In}
        if isinstance(op, ast.Is) and isinstance(e.comparators[0], ast.Constant) and e.comparators[0].value is None:
            return ast.copy_location(ast.Compare(left=e.left, ops=[ast.IsNot()], comparators=e.comparators), e)
        for k, v in table.items():
            if isinstance(op, k) and v is not None:
                return ast.copy_location(ast.Compare(left=e.left, ops=[v()], comparators=e.comparators), e)
    return None


def _is_path(e) -> bool:
    """an access path to an existing object: name / attribute / subscript chain (whatever the index expression)"""
    while True:
        if isinstance(e, (ast.Attribute, ast.Subscript)):
            e = e.value
        elif isinstance(e, ast.Call) and isinstance(e.func, ast.Attribute) and e.func.attr == "get" and len(e.args) in (1, 2):
            e = e.func.value            # d.get(k): an element already in d
        else:
            break
    return isinstance(e, ast.Name)


def _root_name(e):
    while isinstance(e, (ast.Subscript, ast.Attribute)):
        e = e.value
    return e.id if isinstance(e, ast.Name) else None


def _mutated_names(stmts) -> set[str]:
    """local names through which an object is mutated: x[k] = v, x.attr = v, x += v, x[..].append(..) (not read-only)"""
    out = set()
    for s_ in stmts:
        for n in ast.walk(s_):
            if isinstance(n, (ast.Subscript, ast.Attribute)) and isinstance(n.ctx, (ast.Store, ast.Del)):
                r = _root_name(n.value)
                if r:
                    out.add(r)
            if isinstance(n, ast.AugAssign):
                r = _root_name(n.target)
                if r:
                    out.add(r)
            if isinstance(n, ast.Call) and isinstance(n.func, ast.Attribute) \
                    and n.func.attr in ("append", "extend", "add", "update", "pop", "remove", "insert", "clear",
                                        "setdefault", "discard", "sort", "reverse", "popitem", "appendleft"):
                r = _root_name(n.func.value)
                if r:
                    out.add(r)
    out.discard("self")
    return out


def _freeze(env: dict, stmt: ast.AST, inplace: str | None = None) -> None:
    _drop_forwards(env, stmt)
    _freeze1(env, stmt, inplace)


def _freeze1(env: dict, stmt: ast.AST, inplace: str | None = None) -> None:
    """after an effect that mutates a container / attribute, bindings computed from it denote the value *before* the
    effect: wrap them in old_(..) so that they are not confused with the same expression evaluated afterwards.
    `stmt` is the ORIGINAL statement (calls that only appear through substituted temporaries are not new effects);
    the mutated bases are mapped through the current bindings."""
    attrs, bases = set(), set()

    def base(e):
        return u(_subst(e, env))
    for n in ast.walk(stmt):
        if isinstance(n, ast.Attribute) and isinstance(n.ctx, (ast.Store, ast.Del)):
            attrs.add((base(n.value), n.attr))
        if isinstance(n, ast.Subscript) and isinstance(n.ctx, (ast.Store, ast.Del)):
            bases.add(base(n.value))
        if isinstance(n, ast.AugAssign):
            bases.add(base(n.target))
        if isinstance(n, ast.Call) and isinstance(n.func, ast.Attribute) and n.func.attr not in norm.PURE_METHODS and not n.func.attr[:1].isupper():
            bases.add(base(n.func.value))
    bases -= {"self", "cls"}
    if not attrs and not bases:
        return
    for k, v in list(env.items()):
        if k.startswith("@"):
            continue
        if isinstance(v, ast.Call) and u(v.func) == "old_":
            continue
        if inplace is not None and u(v) == inplace:
            continue            # an alias of the object that was changed in place still denotes that object
        if norm.is_reference(v) and not any(isinstance(n, ast.Subscript) for n in ast.walk(v)) and not any(isinstance(n, ast.Attribute) and (u(n.value), n.attr) in attrs for n in ast.walk(v)):
            continue            # an alias keeps denoting the same object
        hit = False
        for n in ast.walk(v):
            if isinstance(n, ast.Attribute) and (u(n.value), n.attr) in attrs:
                hit = True
            if isinstance(n, (ast.Attribute, ast.Name, ast.Subscript)) and u(n) in bases:
                hit = True
            # x[k] goes through x.__getitem__, which reads x's own tables: x._t[..] = .. / x._t.append(..) changes what it answers
            if isinstance(n, ast.Subscript) and isinstance(n.value, ast.Name) and (any(b.startswith(n.value.id + ".") for b in bases)
                                                                                  or any(a_[0] == n.value.id for a_ in attrs)):
                hit = True
            if hit:
                break
        if hit:
            env[k] = ast.Call(func=ast.Name(id="old_", ctx=ast.Load()), args=[v], keywords=[])


def _const_truth(t):
    """truth value of a test on constants (`None is not None`, `1 == 1`), else None"""
    if isinstance(t, ast.Compare) and len(t.ops) == 1 and isinstance(t.left, ast.Constant) and isinstance(t.comparators[0], ast.Constant):
        a, b, op = t.left.value, t.comparators[0].value, t.ops[0]
        if isinstance(op, ast.Is):
            return a is b
        if isinstance(op, ast.IsNot):
            return a is not b
        if isinstance(op, ast.Eq):
            return a == b
        if isinstance(op, ast.NotEq):
            return a != b
        if type(a) is int and type(b) is int:
            if isinstance(op, ast.Lt):
                return a < b
            if isinstance(op, ast.LtE):
                return a <= b
            if isinstance(op, ast.Gt):
                return a > b
            if isinstance(op, ast.GtE):
                return a >= b
    if isinstance(t, ast.Constant) and not isinstance(t.value, str):
        return bool(t.value)
    # a length / number / display is never None
    if isinstance(t, ast.Compare) and len(t.ops) == 1 and isinstance(t.ops[0], (ast.Is, ast.IsNot)) and isinstance(t.comparators[0], ast.Constant) \
            and t.comparators[0].value is None and norm._never_none(t.left, {}):
        return isinstance(t.ops[0], ast.IsNot)
    return None


def _isinstance_parts(t):
    if isinstance(t, ast.Call) and u(t.func) == "isinstance" and len(t.args) == 2:
        def flat(e):
            if isinstance(e, ast.BinOp) and isinstance(e.op, ast.BitOr):
                return flat(e.left) | flat(e.right)
            if isinstance(e, ast.Tuple):
                return set().union(*[flat(x) for x in e.elts]) if e.elts else set()
            return {u(e)}
        return u(t.args[0]), flat(t.args[1])
    return None


def _feasible(tests, t, taken):
    """False: contradicts an earlier pure test on the path; 'known': already established; True otherwise"""
    ct = _const_truth(t)
    if ct is not None:
        return "known" if ct == taken else False
    if not norm.is_pure(t, _PURE):
        return True
    txt = u(t)
    me = _isinstance_parts(t)
    for e, k in tests:
        if u(e) == txt:
            return "known" if k == taken else False
        other = _isinstance_parts(e)
        if me and other and me[0] == other[0]:
            # isinstance(x, S) false  and  isinstance(x, S') true with S' within S  -> contradiction
            if taken and not k and me[1] <= other[1]:
                return False
            if k and not taken and other[1] <= me[1]:
                return False
            if taken and k and other[1] <= me[1]:
                return "known"
            if not taken and not k and me[1] <= other[1]:
                return "known"
    return True


def _walk_eager(e):
    """the sub-expressions evaluated when e is (not the bodies of lambdas / comprehension elements), in a fixed order"""
    yield e
    if isinstance(e, (ast.Lambda, ast.ListComp, ast.SetComp, ast.DictComp, ast.GeneratorExp)):
        return
    for ch in ast.iter_child_nodes(e):
        if isinstance(ch, ast.expr):
            yield from _walk_eager(ch)
        elif isinstance(ch, ast.keyword):
            yield from _walk_eager(ch.value)


def _has_ifexp(e) -> bool:
    return any(isinstance(n, ast.IfExp) for n in ast.walk(e))


class _Decide(ast.NodeTransformer):
    """conditional expressions whose (pure) test the path has already decided keep the alternative taken"""
    def __init__(self, tests):
        self.tests = tests
        self.active = bool(tests)

    def visit_IfExp(self, node):
        self.generic_visit(node)
        t, taken = node.test, True
        while isinstance(t, ast.UnaryOp) and isinstance(t.op, ast.Not):
            t, taken = t.operand, not taken
        if norm.is_pure(t, _PURE):
            ft, ff = _feasible(self.tests, t, taken), _feasible(self.tests, t, not taken)
            if ft == "known" or ff is False:
                return node.body
            if ff == "known" or ft is False:
                return node.orelse
        return node

    def visit_Lambda(self, node):
        return node

    def visit_FunctionDef(self, node):
        return node


def summaries(stmts, bound: int = 512) -> list[Path]:
    return Summariser(bound).run(stmts)
