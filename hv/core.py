"""Reporting contract shared by all property checkers.

A property checker is a function ``run(ctx)`` that registers *rule instances*:
``ctx.ok(rule, construct, ...)`` for an instance that holds and ``ctx.fail(rule,
construct, ...)`` for one that does not.  ``ctx.broken(msg)`` aborts the analysis
(exit 2): vanished anchor, construct outside the enumerated idioms, floor not met.

Findings are keyed by (property, rule, construct) -- never by line numbers -- and looked
up in /verif/known_findings.jsonl, which is never written at run time.
"""
from __future__ import annotations

import ast
import contextlib
import dataclasses
import json
import os
import pathlib
import time
from typing import Any

VERIF = pathlib.Path(__file__).resolve().parent.parent
KNOWN_FINDINGS = VERIF / "known_findings.jsonl"
EVIDENCE_DIR = VERIF / "evidence"


class AnalysisError(Exception):
    """The checker cannot judge (exit 2), as opposed to a violation (exit 1)."""


@dataclasses.dataclass
class Finding:
    rule: str
    construct: str          # qualified name / instance, stable under reformatting
    file: str
    line: int
    msg: str
    stmt: str = ""          # normalised statement text
    expected: str = ""
    found: str = ""

    def key(self) -> tuple[str, str]:
        return (self.rule, self.construct)

    def as_dict(self) -> dict[str, Any]:
        return dataclasses.asdict(self)


def norm_stmt(node: ast.AST | None) -> str:
    if node is None:
        return ""
    try:
        return " ".join(ast.unparse(node).split())[:400]
    except Exception:  # pragma: no cover
        return ""


class Ctx:
    def __init__(self, prop: str, root: pathlib.Path, tier: str = "quick", seed: int = 0):
        self.prop = prop
        self.root = pathlib.Path(root)
        self.pkg = self.root / "hugr-py" / "src" / "hugr"
        self.tier = tier
        self.seed = seed
        self.instances: list[dict[str, Any]] = []   # all rule instances
        self.findings: list[Finding] = []
        self.floors: dict[str, int] = {}
        self.counts: dict[str, int] = {}
        self.notes: list[str] = []
        self.stats: dict[str, Any] = {}
        self._alias: dict[str, str] = {}
        self.rules: dict[str, str] = {}             # rule id -> one-line description
        self.assumptions: list[str] = []
        self._program = None

    # ---- program model (lazy) -------------------------------------------------
    @property
    def program(self):
        if self._program is None:
            from .model import Program
            self._program = Program(self.pkg)
        return self._program

    @property
    def canon(self):
        if getattr(self, "_canon", None) is None:
            from .canon import Canon
            self._canon = getattr(self.program, "_canon", None) or Canon(self.program)
            self.program._canon = self._canon
        return self._canon

    def locate(self, qual: str):
        """'pkg.module.Class.method' | 'pkg.module.function' -> (FunctionDef, Module, Class | None); exit 2 when absent"""
        parts = qual.split(".")
        for i in range(len(parts) - 1, 0, -1):
            mn = ".".join(parts[:i])
            if mn in self.program.modules:
                m = self.program.modules[mn]
                tail = parts[i:]
                if len(tail) == 1 and tail[0] in m.functions:
                    return m.functions[tail[0]], m, None
                if len(tail) == 1 and tail[0] in m.imports:
                    # moved to another module of the program and imported back under its name: the definition there
                    try:
                        r = m.resolve(ast.Name(id=tail[0], ctx=ast.Load()))
                    except Exception:
                        r = None
                    if isinstance(r, ast.FunctionDef):
                        rm = next((x for x in self.program.modules.values() if r in x.functions.values()), None)
                        if rm is not None:
                            return r, rm, None
                if len(tail) == 2 and tail[0] in m.classes and tail[1] in m.classes[tail[0]].methods:
                    c = m.classes[tail[0]]
                    return c.methods[tail[1]], m, c
                if len(tail) == 2 and tail[0] in m.classes:
                    # inherited: the base's method, specialised for this class (self.<hook>() dispatches to its overrides)
                    c = m.classes[tail[0]]
                    k, fn = c.find_method(tail[1])
                    if fn is not None:
                        return fn, k.module, c
                break
        raise AnalysisError(f"anchor vanished: {qual}")

    def cfn(self, qual: str, **kw):
        """the function with its body in canonical form (hv/canon.py)"""
        fn, m, c = self.locate(qual)
        return self.canon.fn(fn, m, c, **kw)

    def paths(self, qual: str, bound: int = 512, **kw):
        """path summaries (hv/paths.py) of the canonical body"""
        from .paths import PathBound, summaries
        fn = self.cfn(qual, subst=False, **kw)
        try:
            return summaries(fn.body, bound)
        except PathBound:
            raise AnalysisError(f"{qual}: more than {bound} paths")

    # ---- registration -----------------------------------------------------------
    def rule(self, rid: str, text: str, floor: int = 1) -> None:
        self.rules[rid] = text
        self.floors[rid] = floor
        self.counts.setdefault(rid, 0)

    @contextlib.contextmanager
    def as_rule(self, **alias: str):
        """run a rule written for another property under this property's rule ids:
        `with ctx.as_rule(C06_R4="C01.R10"): c06.r4_call(ctx, nf)`"""
        old = dict(self._alias)
        self._alias.update({k.replace("_", "."): v for k, v in alias.items()})
        try:
            yield
        finally:
            self._alias = old

    def _count(self, rule: str) -> None:
        if rule not in self.rules:
            raise AnalysisError(f"internal: rule {rule} used before being declared")
        self.counts[rule] = self.counts.get(rule, 0) + 1

    def ok(self, rule: str, construct: str, detail: str = "") -> None:
        rule = self._alias.get(rule, rule)
        self._count(rule)
        self.instances.append({"rule": rule, "construct": construct, "holds": True, "detail": detail[:300]})

    def fail(self, rule: str, construct: str, file: str | pathlib.Path, line: int, msg: str,
             node: ast.AST | None = None, expected: str = "", found: str = "") -> None:
        rule = self._alias.get(rule, rule)
        self._count(rule)
        file = str(file)
        try:
            file = str(pathlib.Path(file).relative_to(self.root))
        except ValueError:
            pass
        f = Finding(rule, construct, file, line, msg, norm_stmt(node), expected[:600], found[:600])
        self.findings.append(f)
        self.instances.append({"rule": rule, "construct": construct, "holds": False, "detail": msg[:300]})

    def check(self, cond: bool, rule: str, construct: str, file, line: int, msg: str,
              node: ast.AST | None = None, expected: str = "", found: str = "", detail: str = "") -> bool:
        if cond:
            self.ok(rule, construct, detail)
        else:
            self.fail(rule, construct, file, line, msg, node, expected, found)
        return cond

    def broken(self, msg: str):
        raise AnalysisError(msg)

    def note(self, msg: str) -> None:
        self.notes.append(msg)

    def rel(self, path) -> str:
        try:
            return str(pathlib.Path(path).relative_to(self.root))
        except ValueError:
            return str(path)


def load_known() -> list[dict[str, Any]]:
    out = []
    if KNOWN_FINDINGS.exists():
        for ln in KNOWN_FINDINGS.read_text().splitlines():
            ln = ln.strip()
            if ln.startswith("{"):      # "fixed: ..." records and comments are plain text and suppress nothing
                out.append(json.loads(ln))
    return out


def finish(ctx: Ctx, t0: float, extra_cov: dict[str, Any] | None = None, write_evidence: bool = True) -> int:
    """Apply floors, match known findings, print report lines, write evidence. Returns exit code."""
    # floors are a vacuity guard: a rule that silently lost its sites must not pass.  When the run
    # already reports failing instances the lost sites are explained by them, so the findings win.
    for rid, floor in ctx.floors.items():
        if ctx.counts.get(rid, 0) < floor:
            if ctx.findings:
                ctx.note(f"rule {rid}: {ctx.counts.get(rid, 0)} instance(s) < floor {floor} (run has findings)")
                continue
            raise AnalysisError(
                f"rule {rid} matched {ctx.counts.get(rid, 0)} instance(s), below its confirmed floor {floor}: "
                "an anchor moved or the rule lost its sites")
    known = [k for k in load_known() if k.get("property") == ctx.prop and k.get("status") == "open"]
    known_keys = {(k["rule"], k["construct"]): k for k in known}
    new: list[Finding] = []
    seen_known: list[Finding] = []
    for f in ctx.findings:
        if f.key() in known_keys:
            seen_known.append(f)
        else:
            new.append(f)
    for f in seen_known:
        print(f"KNOWN-FINDING: property={ctx.prop} {f.rule} {f.construct} ({f.file}:{f.line}) {f.msg}")
    EVIDENCE_DIR.mkdir(exist_ok=True)
    # stale replay files of this property are removed on every run
    for old in EVIDENCE_DIR.glob(f"{ctx.prop}.violation.*.json"):
        old.unlink()
    for i, f in enumerate(new):
        replay = EVIDENCE_DIR / f"{ctx.prop}.violation.{i}.json"
        if write_evidence:
            replay.write_text(json.dumps({"property": ctx.prop, **f.as_dict(), "root": str(ctx.root)}, indent=1))
        print(f"  {f.rule} {f.file}:{f.line} {f.construct}: {f.msg}")
        if f.expected or f.found:
            print(f"      expected: {f.expected}\n      found:    {f.found}")
        print(f"VIOLATION property={ctx.prop} replay={replay}")
    total = len(ctx.instances)
    held = sum(1 for i in ctx.instances if i["holds"])
    print(f"{ctx.prop}: {total} rule instances over {len(ctx.rules)} rules; {held} hold, "
          f"{len(new)} violation(s), {len(seen_known)} known finding(s)")
    if write_evidence:
        samples = []
        per_rule_seen: dict[str, int] = {}
        for inst in ctx.instances:
            if per_rule_seen.get(inst["rule"], 0) < 2:
                per_rule_seen[inst["rule"]] = per_rule_seen.get(inst["rule"], 0) + 1
                samples.append(inst)
        cov: dict[str, Any] = {
            "explanation": (
                "Static analysis of /repo's current source (Python ast, no execution of hugr): "
                "each rule below is a structural necessary condition of the property; an instance is one "
                "construct (class, method, call site, path, table row) the rule was applied to. "
                "Rules: " + "; ".join(f"{r}: {t}" for r, t in sorted(ctx.rules.items()))),
            "obligations": total,
            "discharged": held,
            "evaluations": max(total, 1),
            "distinct_nontrivial": len({(i["rule"], i["construct"]) for i in ctx.instances}),
            "rule": "one evaluation = one rule instance (rule id, construct); all are non-trivial (a rule with "
                    "fewer instances than its hand-confirmed floor aborts the run)",
            "instances_per_rule": dict(sorted(ctx.counts.items())),
            "floors": dict(sorted(ctx.floors.items())),
            "samples": samples[:60],
            "exhaustive": True,
            "known_findings_matched": [f.as_dict() for f in seen_known],
            "violations": [f.as_dict() for f in new],
            "notes": ctx.notes[:50],
            "analysed": ctx.stats,
            "checker_cmd": f"./check {ctx.prop} --tier {ctx.tier}",
            "trusted_base": ["CPython ast", "reference tables scanned from the Rust / JSON artefacts in /repo"],
        }
        if extra_cov:
            cov.update(extra_cov)
        ev = {
            "property_id": ctx.prop,
            "tier": ctx.tier,
            "seed": ctx.seed,
            "level": "other",
            "coverage": cov,
            "assumptions": ctx.assumptions or [
                "structural necessary conditions only: the behaviour itself is not executed",
                "CPython's ast module parses the sources as the interpreter would"],
            "wall_s": round(time.time() - t0, 3),
            "violations": len(new),
        }
        (EVIDENCE_DIR / f"{ctx.prop}.json").write_text(json.dumps(ev, indent=1, default=str))
    return 1 if new else 0
