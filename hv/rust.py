"""Engine D (Rust side): tokenising scanners for the validity tables of hugr-core/src/ops used as oracles.

Nothing is compiled or executed; a scanner that cannot find its anchor raises AnalysisError (exit 2).
"""
from __future__ import annotations

import pathlib
import re

from .core import AnalysisError

OPS_DIR = "hugr-core/src/ops"


class RustOps:
    def __init__(self, root: pathlib.Path):
        d = root / OPS_DIR
        if not d.is_dir():
            raise AnalysisError(f"anchor vanished: {OPS_DIR}")
        self.src = {p.name: p.read_text() for p in sorted(d.glob("*.rs"))}
        if "tag.rs" not in self.src or "validate.rs" not in self.src:
            raise AnalysisError(f"anchor vanished: {OPS_DIR}/tag.rs or validate.rs")
        self.supersets = self._supersets()
        self.tags = self._tags()
        self.dataflow_parents = self._dataflow_parents()
        self.flags = self._flags()

    def _supersets(self) -> dict[str, list[str]]:
        s = self.src["tag.rs"]
        m = re.search(r"fn immediate_supersets\b.*?match self \{(.*?)\n        \}", s, re.S)
        if not m:
            raise AnalysisError("tag.rs: immediate_supersets not found")
        out = {}
        for tag, body in re.findall(r"OpTag::(\w+) => &\[(.*?)\],", m.group(1), re.S):
            out[tag] = re.findall(r"OpTag::(\w+)", body)
        if len(out) < 20:
            raise AnalysisError(f"tag.rs: only {len(out)} tags scanned")
        return out

    def is_superset(self, big: str, small: str) -> bool:
        """OpTag::is_superset: small == big or big is reachable through immediate supersets of small"""
        if big == small or big == "Any":
            return True
        seen = set()
        todo = [small]
        while todo:
            t = todo.pop()
            if t in seen:
                continue
            seen.add(t)
            for s in self.supersets.get(t, []):
                if s == big:
                    return True
                todo.append(s)
        return False

    def _tags(self) -> dict[str, str]:
        out = {}
        for name, s in self.src.items():
            for struct, tag in re.findall(r"impl (?:StaticTag|DataflowOpTrait) for (\w+) \{\s*const TAG: OpTag = OpTag::(\w+);", s):
                out[struct] = tag
        if len(out) < 18:
            raise AnalysisError(f"{OPS_DIR}: only {len(out)} op tags scanned")
        return out

    def _dataflow_parents(self) -> set[str]:
        out = set()
        for s in self.src.values():
            out |= set(re.findall(r"impl DataflowParent for (\w+) \{", s))
        if len(out) < 4:
            raise AnalysisError("DataflowParent impls not found")
        return out

    def _flags(self) -> dict[str, dict[str, str]]:
        s = self.src["validate.rs"]
        default = {"allowed_children": "None", "allowed_first_child": "Any", "allowed_second_child": "Any"}
        out: dict[str, dict[str, str]] = {}
        for struct, body in re.findall(r"impl ValidateOp for super::(\w+) \{\s*fn validity_flags\(&self\) -> OpValidityFlags \{\s*OpValidityFlags \{(.*?)\}\s*\}", s, re.S):
            f = dict(default)
            for k, v in re.findall(r"(allowed_\w+): OpTag::(\w+)", body):
                f[k] = v
            out[struct] = f
        m = re.search(r"impl<T: DataflowParent> ValidateOp for T \{.*?OpValidityFlags \{(.*?)\}", s, re.S)
        if not m:
            raise AnalysisError("validate.rs: blanket DataflowParent impl not found")
        f = dict(default)
        for k, v in re.findall(r"(allowed_\w+): OpTag::(\w+)", m.group(1)):
            f[k] = v
        for p in self.dataflow_parents:
            out[p] = f
        for struct in re.findall(r"impl_validate_op!\((\w+)\);", s):
            out.setdefault(struct, dict(default))
        if "CFG" not in out or "Module" not in out or "Conditional" not in out:
            raise AnalysisError("validate.rs: validity flags of Module/Conditional/CFG not found")
        return out


# Python op class -> Rust op struct
PY2RUST = {
    "Input": "Input", "Output": "Output", "DFG": "DFG", "CFG": "CFG", "DataflowBlock": "DataflowBlock", "ExitBlock": "ExitBlock", "Conditional": "Conditional",
    "Case": "Case", "TailLoop": "TailLoop", "FuncDefn": "FuncDefn", "FuncDecl": "FuncDecl", "Module": "Module", "Const": "Const", "Call": "Call",
    "CallIndirect": "CallIndirect", "LoadConst": "LoadConstant", "LoadFunc": "LoadFunction", "Tag": "Tag", "AliasDecl": "AliasDecl", "AliasDefn": "AliasDefn",
    "Custom": "OpaqueOp", "ExtOp": "ExtensionOp", "AsExtOp": "ExtensionOp", "MakeTuple": "ExtensionOp", "UnpackTuple": "ExtensionOp", "Noop": "ExtensionOp",
    "Some": "Tag", "Left": "Tag", "Right": "Tag", "Continue": "Tag", "Break": "Tag", "RegisteredOp": "ExtensionOp",
}
