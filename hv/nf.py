"""Engine C: syntax-directed normal forms ("shapes") of expressions and small methods.

Pure rewriting over the AST with the program model for name / class / field resolution: no
values, no path conditions, no solver, nothing imported or executed.

Terms (nested tuples):
  ("sym", name)                      symbolic root (self, a parameter)
  ("attr", t, name)                  attribute of a symbolic term
  ("ctor", qualname, ((p, t), ...))  constructor call with parameters bound by name (sorted)
  ("list", (item, ...))              list display; items may be ("splat", t)
  ("map", body, src)                 [body for v in src]; the bound variable is ("var", depth)
  ("comp", body, ((src, ifs), ...))  other comprehensions (filters / several generators)
  ("enc", t) / ("dec", t)            t._to_serial[_root]() / t.deserialize() on protocol-typed terms
  ("const", v), ("len", t), ("add", (t, ...)), ("index", t, i), ("slice", t, lo, hi, step)
  ("call", fname, (args...), ((kw, t)...)), ("op", name, (args...)), ("ite", c, a, b)
  ("default", qualname, field)       un-passed constructor parameter without evaluable default
Anything the engine does not understand becomes ("opaque", text) or raises Opaque (for statements).
"""
from __future__ import annotations

import ast
from typing import Any

from .model import Class, Module, Program, real_body, u


def _expand_dict_keywords(e: ast.Call) -> ast.Call:
    """f(**{"a": x, "b": y}) is f(a=x, b=y)  (string keys that are identifiers, written out in the display)"""
    kws = []
    for k in e.keywords:
        if k.arg is None and isinstance(k.value, ast.Dict) and all(isinstance(x, ast.Constant) and isinstance(x.value, str) and x.value.isidentifier() for x in k.value.keys):
            kws += [ast.keyword(arg=x.value, value=v) for x, v in zip(k.value.keys, k.value.values)]
        else:
            kws.append(k)
    names = [k.arg for k in kws if k.arg is not None]
    if len(names) != len(set(names)):
        return e
    new = ast.Call(func=e.func, args=e.args, keywords=kws)
    return ast.copy_location(new, e)


class Opaque(Exception):
    pass


MAXDEPTH = 12

ENC_METHODS = {"_to_serial", "_to_serial_root"}
DEC_METHODS = {"deserialize"}


def sym(n):
    return ("sym", n)


def attr(t, n):
    return ("attr", t, n)


def const(v):
    return ("const", v)


def mk_list(items):
    out = []
    for it in items:
        if it[0] == "splat" and it[1][0] == "list":
            out.extend(it[1][1])
        else:
            out.append(it)
    if len(out) == 1 and out[0][0] == "splat":
        return out[0][1]
    return ("list", tuple(out))


def mk_ctor(qual, kw: dict):
    return ("ctor", qual, tuple(sorted(kw.items())))


def ctor_args(t) -> dict:
    return dict(t[2])


def show(t, depth=0) -> str:
    if not isinstance(t, tuple) or not t:
        return repr(t)
    k = t[0]
    if k == "sym":
        return t[1]
    if k == "attr":
        return f"{show(t[1])}.{t[2]}"
    if k == "ctor":
        return t[1].split(".")[-1] + "(" + ", ".join(f"{p}={show(v)}" for p, v in t[2]) + ")"
    if k == "list":
        return "[" + ", ".join(show(x) for x in t[1]) + "]"
    if k == "splat":
        return "*" + show(t[1])
    if k == "map":
        return f"[{show(t[1][2])} for {show(t[1][1])} in {show(t[2])}]"
    if k == "lam":
        return f"lambda {show(t[1])}: {show(t[2])}"
    if k in ("global", "class"):
        return t[1].split(".", 1)[-1] if t[1].startswith("hugr.") else t[1]
    if k == "fstr":
        return "f'" + "".join(("{" + show(x) + "}") if x[0] != "const" else str(x[1]) for x in t[1]) + "'"
    if k == "comp":
        return f"[{show(t[1])} " + " ".join(f"for v in {show(s)}" + "".join(f" if {show(i)}" for i in ifs) for s, ifs in t[2]) + "]"
    if k in ("enc", "dec"):
        return f"{k}({show(t[1])})"
    if k == "const":
        return repr(t[1])
    if k == "var":
        return f"v{t[1]}"
    if k == "len":
        return f"len({show(t[1])})"
    if k == "add":
        return " + ".join(show(x) for x in t[1])
    if k == "index":
        return f"{show(t[1])}[{show(t[2])}]"
    if k == "slice":
        return f"{show(t[1])}[{show(t[2])}:{show(t[3])}]"
    if k == "call":
        return f"{t[1]}(" + ", ".join([show(a) for a in t[2]] + [f"{n}={show(v)}" for n, v in t[3]]) + ")"
    if k == "op":
        return f"{t[1]}(" + ", ".join(show(a) for a in t[2]) + ")"
    if k == "ite":
        return f"({show(t[2])} if {show(t[1])} else {show(t[3])})"
    if k == "default":
        return f"<default {t[1].split('.')[-1]}.{t[2]}>"
    if k == "opaque":
        return f"?{t[1]}"
    if k == "alts":
        return " | ".join(f"[{g}] {show(x)}" for g, x in t[1])
    if k == "tuple":
        return "(" + ", ".join(show(x) for x in t[1]) + ")"
    if k == "dict":
        return "{" + ", ".join(f"{show(a)}: {show(b)}" for a, b in t[1]) + "}"
    return str(t)


def subst(t, var, repl):
    if not isinstance(t, tuple):
        return t
    if t == var:
        return repl
    return tuple(subst(x, var, repl) if isinstance(x, tuple) else x for x in t)


def contains(t, sub) -> bool:
    if t == sub:
        return True
    if isinstance(t, tuple):
        return any(contains(x, sub) for x in t if isinstance(x, tuple))
    return False


class Env:
    def __init__(self, module: Module, cls: Class | None, vars: dict[str, Any] | None = None,
                 types: dict[str, Any] | None = None, depth: int = 0, vdepth: int = 0):
        self.module = module
        self.cls = cls
        self.vars = dict(vars or {})
        self.types = dict(types or {})     # term -> static type (Class | ("list", T) | None)
        self.depth = depth
        self.vdepth = vdepth

    def child(self, **kw):
        e = Env(self.module, self.cls, self.vars, self.types, self.depth, self.vdepth)
        for k, v in kw.items():
            setattr(e, k, v)
        return e


class NF:
    def __init__(self, prog: Program, inline_symbolic: bool = True, sugar_eta: bool = True):
        self.prog = prog
        self.inline_symbolic = inline_symbolic
        self._effectful: set[str] | None = None
        self.sugar_eta = sugar_eta
        self.term_types: dict[Any, Any] = {}
        self._ovr: dict = {}
        self._self_exact = True     # `self` of the class under analysis is taken to be exactly that class
        self.unresolved_calls = 0
        self.resolved_calls = 0
        self._closures: dict = {}

    # ------------------------------------------------------------------ static types
    def ann_type(self, mod: Module, ann: ast.expr | None, depth: int = 0):
        """annotation -> Class | ('list', T) | None"""
        if ann is None or depth > 6:
            return None
        if isinstance(ann, ast.Constant) and isinstance(ann.value, str):
            try:
                ann = ast.parse(ann.value, mode="eval").body
            except SyntaxError:
                return None
        if isinstance(ann, ast.BinOp) and isinstance(ann.op, ast.BitOr):
            parts = []
            for p in (ann.left, ann.right):
                if not (isinstance(p, ast.Constant) and p.value is None):
                    parts.append(self.ann_type(mod, p, depth + 1))
            parts = [p for p in parts if p is not None]
            return parts[0] if len(parts) == 1 else None
        if isinstance(ann, ast.Subscript):
            h = u(ann.value).split(".")[-1]
            if h in ("list", "List", "Sequence", "Iterable"):
                return ("list", self.ann_type(mod, ann.slice, depth + 1))
            if h in ("Optional",):
                return self.ann_type(mod, ann.slice, depth + 1)
            return None
        if isinstance(ann, (ast.Name, ast.Attribute)):
            r = mod.resolve(ann)
            if isinstance(r, Class):
                return r
            # alias: Name assigned at module level (TypeRow = list[Type])
            if isinstance(ann, ast.Name) and ann.id in mod.assigns:
                return self.ann_type(mod, mod.assigns[ann.id], depth + 1)
            if isinstance(ann, ast.Attribute):
                base = mod.resolve(ann.value)
                if isinstance(base, Module) and ann.attr in base.assigns:
                    return self.ann_type(base, base.assigns[ann.attr], depth + 1)
            if isinstance(ann, ast.Name) and ann.id in mod.imports:
                q = mod.imports[ann.id]
                mq, _, member = q.rpartition(".")
                if mq in self.prog.modules and member in self.prog.modules[mq].assigns:
                    m2 = self.prog.modules[mq]
                    return self.ann_type(m2, m2.assigns[member], depth + 1)
        return None

    def type_of(self, t, env: Env):
        if t in env.types:
            return env.types[t]
        k = t[0]
        if k == "ctor":
            try:
                return self.prog.cls(t[1])
            except Exception:
                return None
        if k == "attr":
            bt = self.type_of(t[1], env)
            if isinstance(bt, Class):
                f = bt.find_field(t[2])
                if f is not None:
                    return self.ann_type(f.owner.module, f.node.annotation)
                c, m = bt.find_method(t[2])
                if m is not None and bt.is_property(t[2]):
                    return self.ann_type(c.module, m.returns)
            return None
        if k == "index":
            bt = self.type_of(t[1], env)
            if isinstance(bt, tuple) and bt[0] == "list":
                return bt[1]
        if k == "map":
            return None
        return None

    def overridden_below(self, c: Class, mname: str) -> bool:
        """dynamic dispatch: a subclass overriding `mname` makes inlining on a symbolic receiver unsound"""
        key = (c.qualname, mname)
        if key not in self._ovr:
            self._ovr[key] = any(mname in k.methods for k in self.prog.subclasses(c))
        return self._ovr[key]

    def effectful(self) -> set[str]:
        """names of methods that (transitively, by name) store into attributes / subscripts or call container mutators: a value
        normal form never sees through them -- whether they happen to be written as one `return helper(..)` line or not"""
        if self._effectful is None:
            from .lints import MUTATORS
            defs: dict[str, list] = {}
            for m in self.prog.modules.values():
                for n in ast.walk(m.tree):
                    if isinstance(n, (ast.FunctionDef, ast.AsyncFunctionDef)):
                        defs.setdefault(n.name, []).append(n)
            eff = set()
            calls: dict[str, set[str]] = {}
            for name, fns in defs.items():
                if name in ("__init__", "__post_init__", "__new__"):
                    continue
                cs = set()
                for fn in fns:
                    selfn = fn.args.args[0].arg if fn.args.args else None
                    for n in ast.walk(fn):
                        if isinstance(n, (ast.Attribute, ast.Subscript)) and isinstance(n.ctx, (ast.Store, ast.Del)):
                            # a store through the receiver or a parameter (a local being built does not count)
                            root = n
                            while isinstance(root, (ast.Attribute, ast.Subscript)):
                                root = root.value
                            params = {a.arg for a in fn.args.posonlyargs + fn.args.args + fn.args.kwonlyargs}
                            if isinstance(root, ast.Name) and root.id in params:
                                eff.add(name)
                        if isinstance(n, ast.Call) and isinstance(n.func, ast.Attribute):
                            root = n.func.value
                            while isinstance(root, (ast.Attribute, ast.Subscript)):
                                root = root.value
                            if isinstance(root, ast.Name) and root.id == selfn:
                                if n.func.attr in MUTATORS and isinstance(n.func.value, ast.Attribute):
                                    eff.add(name)
                                cs.add(n.func.attr)
                calls[name] = cs
            changed = True
            while changed:
                changed = False
                for name, cs in calls.items():
                    if name not in eff and cs & eff:
                        eff.add(name)
                        changed = True
            self._effectful = eff
        return self._effectful

    @staticmethod
    def is_concrete(c: Class) -> bool:
        bn = c.base_names()
        if "Protocol" in {u(b).split(".")[-1].split("[")[0] for b in c.node.bases}:
            return False
        if "RootModel" in bn:
            return False
        if c.name.startswith("Base") and "ABC" in bn:
            return False
        return True

    # ------------------------------------------------------------------ expressions
    def ev(self, e: ast.expr, env: Env):
        if env.depth > MAXDEPTH:
            return ("opaque", "depth")
        if isinstance(e, ast.Name):
            if e.id in env.vars:
                return env.vars[e.id]
            if e.id in ("True", "False", "None"):
                return const({"True": True, "False": False, "None": None}[e.id])
            r = env.module.resolve(e)
            if isinstance(r, Class):
                return ("class", r.qualname)
            if e.id in env.module.imports:
                return ("global", env.module.imports[e.id])
            # module-level constant assignment (e.g. _INT_PARAM) stays symbolic by name
            return ("global", f"{env.module.name}.{e.id}")
        if isinstance(e, ast.Constant):
            return const(e.value)
        if isinstance(e, ast.NamedExpr):
            v = self.ev(e.value, env)
            env.vars[e.target.id] = v
            return v
        if isinstance(e, ast.Attribute):
            # module attribute: tys.Bool, TypeBound.Copyable, std.PRELUDE
            r = env.module.resolve(e)
            if isinstance(r, Class):
                return ("class", r.qualname)
            base_r = env.module.resolve(e.value) if isinstance(e.value, (ast.Name, ast.Attribute)) else None
            if isinstance(base_r, Module) and not (isinstance(e.value, ast.Name) and e.value.id in env.vars):
                return ("global", f"{base_r.name}.{e.attr}")
            if isinstance(base_r, Class) and not (isinstance(e.value, ast.Name) and e.value.id in env.vars):
                return ("global", f"{base_r.qualname}.{e.attr}")
            return self.project(self.ev(e.value, env), e.attr, env)
        if isinstance(e, (ast.List, ast.Tuple)):
            items = []
            for x in e.elts:
                if isinstance(x, ast.Starred):
                    items.append(("splat", self.ev(x.value, env)))
                else:
                    items.append(self.ev(x, env))
            if isinstance(e, ast.Tuple):
                return ("tuple", tuple(items))
            return mk_list(items)
        if isinstance(e, ast.Dict):
            return ("dict", tuple((self.ev(k, env) if k is not None else ("splat",), self.ev(v, env)) for k, v in zip(e.keys, e.values)))
        if isinstance(e, (ast.ListComp, ast.GeneratorExp, ast.SetComp)):
            return self.comp(e, env)
        if isinstance(e, ast.DictComp):
            return ("opaque", "dictcomp:" + u(e)[:80])
        if isinstance(e, ast.Call):
            return self.call(e, env)
        if isinstance(e, ast.IfExp):
            c = self._optional_truth(self.ev(e.test, env), env)
            a, b = self.ev(e.body, env), self.ev(e.orelse, env)
            if c[0] == "op" and c[1] == "Not" and len(c[2]) == 1 and c[2][0][0] != "const":
                c, a, b = c[2][0], b, a
            if c[0] == "const":
                return a if c[1] else b
            if a == b:
                return a
            return ("ite", c, a, b)
        if isinstance(e, ast.BinOp):
            a, b = self.ev(e.left, env), self.ev(e.right, env)
            if isinstance(e.op, ast.Add):
                if self._numeric(a) or self._numeric(b):
                    return self.mk_add([a, b])
                la = a[1] if a[0] == "list" else (("splat", a),)
                lb = b[1] if b[0] == "list" else (("splat", b),)
                return mk_list(list(la) + list(lb))
            if isinstance(e.op, ast.Mult) and a[0] == "list" :
                return ("op", "repeat", (a, b))
            return ("op", type(e.op).__name__, (a, b))
        if isinstance(e, ast.Compare):
            return ("op", "cmp:" + ",".join(type(o).__name__ for o in e.ops),
                    tuple([self.ev(e.left, env)] + [self.ev(c, env) for c in e.comparators]))
        if isinstance(e, ast.BoolOp):
            vals = [self.ev(v, env) for v in e.values]
            if isinstance(e.op, ast.Or):
                # `x or default`: decided when the truthiness of x is syntactically known
                out = []
                for v in vals:
                    tr = _truthiness(v)
                    if tr is True:
                        out.append(v)
                        break
                    if tr is False and v is not vals[-1]:
                        continue
                    out.append(v)
                if len(out) == 1:
                    return out[0]
                vals = out
            return ("op", type(e.op).__name__, tuple(vals))
        if isinstance(e, ast.UnaryOp):
            v = self.ev(e.operand, env)
            if isinstance(e.op, ast.USub) and v[0] == "const" and isinstance(v[1], (int, float)):
                return const(-v[1])
            return ("op", type(e.op).__name__, (v,))
        if isinstance(e, ast.Subscript):
            base = self.ev(e.value, env)
            if isinstance(e.slice, ast.Slice):
                lo = self.ev(e.slice.lower, env) if e.slice.lower else const(None)
                hi = self.ev(e.slice.upper, env) if e.slice.upper else const(None)
                if base[0] == "list" and lo[0] == "const" and hi == const(None) and isinstance(lo[1], int) and lo[1] >= 0 \
                        and not any(x[0] == "splat" for x in base[1][: lo[1]]) and len(base[1]) >= lo[1]:
                    return mk_list(list(base[1][lo[1]:]))
                return ("slice", base, lo, hi)
            idx = self.ev(e.slice, env)
            if base[0] == "op" and base[1] == "repeat" and base[2][0][0] == "list" and len(base[2][0][1]) == 1 and base[2][0][1][0][0] != "splat":
                return base[2][0][1][0]
            if base[0] in ("list", "tuple") and idx[0] == "const" and isinstance(idx[1], int) and 0 <= idx[1] < len(base[1]) \
                    and not any(x[0] == "splat" for x in base[1][: idx[1] + 1]):
                return base[1][idx[1]]
            return ("index", base, idx)
        if isinstance(e, ast.JoinedStr):
            parts = []
            for v in e.values:
                if isinstance(v, ast.Constant):
                    parts.append(const(v.value))
                elif isinstance(v, ast.FormattedValue):
                    parts.append(self.ev(v.value, env))
            return ("fstr", tuple(parts))
        if isinstance(e, ast.Starred):
            return ("splat", self.ev(e.value, env))
        if isinstance(e, ast.Lambda):
            return ("opaque", "lambda")
        return ("opaque", u(e)[:80])

    @staticmethod
    def _numeric(t) -> bool:
        return t[0] in ("len", "add") or (t[0] == "const" and isinstance(t[1], (int, float)) and not isinstance(t[1], bool))

    def mk_add(self, ts):
        flat = []
        c = 0
        for t in ts:
            if t[0] == "add":
                for x in t[1]:
                    if x[0] == "const":
                        c += x[1]
                    else:
                        flat.append(x)
            elif t[0] == "const" and isinstance(t[1], (int, float)):
                c += t[1]
            else:
                flat.append(t)
        flat.sort(key=repr)
        if c:
            flat.append(const(c))
        if not flat:
            return const(0)
        if len(flat) == 1:
            return flat[0]
        return ("add", tuple(flat))

    def mk_len(self, t):
        if t[0] == "list":
            parts = []
            n = 0
            for x in t[1]:
                if x[0] == "splat":
                    parts.append(self.mk_len(x[1]))
                else:
                    n += 1
            return self.mk_add(parts + [const(n)])
        if t[0] == "map":
            return self.mk_len(t[2])
        return ("len", t)

    # ------------------------------------------------------------------ comprehensions
    def comp(self, e, env: Env):
        gens = e.generators
        if len(gens) == 1 and not gens[0].ifs and (isinstance(gens[0].target, ast.Name) or (
                isinstance(gens[0].target, (ast.Tuple, ast.List)) and all(isinstance(x, ast.Name) for x in gens[0].target.elts))):
            src = self.ev(gens[0].iter, env)
            var = ("var", env.vdepth)
            st = self.type_of(src, env)
            env2 = env.child(vdepth=env.vdepth + 1)
            self._bind_target(gens[0].target, var, env2)
            if isinstance(st, tuple) and st[0] == "list":
                env2.types[var] = st[1]
            body = self.ev(e.elt, env2)
            return self.mk_map(body, var, src, env)
        # general form
        env2 = env.child()
        out = []
        for g in gens:
            src = self.ev(g.iter, env2)
            var = ("var", env2.vdepth)
            env2 = env2.child(vdepth=env2.vdepth + 1)
            self._bind_target(g.target, var, env2)
            ifs = []
            for i in g.ifs:
                t_ = self.ev(i, env2)
                ifs += list(t_[2]) if t_[0] == "op" and t_[1] == "And" else [t_]        # `if a and b` filters like `if a if b`
            ifs = tuple(ifs)
            out.append((src, ifs))
        body = self.ev(e.elt, env2)
        # fusion: [B(v) for v in [A(w) for w in S] if C(v)]  ->  [B(A(w)) for w in S if C(A(w))]
        if len(out) == 1 and out[0][0][0] == "map":
            src, ifs = out[0]
            var = ("var", env.vdepth)
            inner_var, inner_body, inner_src = src[1][1], src[1][2], src[2]
            repl = subst(inner_body, inner_var, var)
            body = self.simplify(subst(body, var, repl), env)
            ifs = tuple(self.simplify(subst(i, var, repl), env) for i in ifs)
            out = [(inner_src, ifs)]
        return ("comp", body, tuple(out))

    def _bind_target(self, tg, var, env):
        if isinstance(tg, ast.Name):
            env.vars[tg.id] = var
        elif isinstance(tg, (ast.Tuple, ast.List)):
            for i, x in enumerate(tg.elts):
                self._bind_target(x, ("index", var, const(i)), env)

    def mk_map(self, body, var, src, env: Env):
        """[body for var in src] with fusion and identity elimination"""
        if body == var:
            return src
        if src[0] == "map":
            # src = [b2(w) for w in s2]  -> [body[var := b2] for w in s2]; inner var renamed to ours
            inner_var, inner_body, inner_src = src[1][1], src[1][2], src[2]
            nb = subst(body, var, subst(inner_body, inner_var, var))
            nb = self.simplify(nb, env)
            return self.mk_map(nb, var, inner_src, env)
        if src[0] == "list":
            items = []
            for x in src[1]:
                if x[0] == "splat":
                    items.append(("splat", self.mk_map(body, var, x[1], env)))
                else:
                    items.append(self.simplify(subst(body, var, x), env))
            return mk_list(items)
        # eta for elements: [C(p=v.p, ...) for v in xs] -> xs   when xs : list[C]
        if body[0] == "ctor":
            st = self.type_of(src, env)
            try:
                bc = self.prog.cls(body[1])
            except Exception:
                bc = None
            if bc is not None and isinstance(st, tuple) and st[0] == "list" and st[1] is bc and bc.find_method("__init__")[1] is None:
                args = ctor_args(body)
                params = bc.init_params()
                if params and all(args.get(p) == ("attr", var, p) for p in params) and set(args) == set(params):
                    return src
        return ("map", self._canon(body, var), src)

    def _canon(self, body, var):
        # bound variable is always named by its nesting depth; store as-is
        self._last_var = var
        return ("lam", var, body)

    @staticmethod
    def _bound_var(m):
        return m[1][1]

    # map terms are ("map", ("lam", var, body), src): adapt accessors
    def simplify(self, t, env: Env):
        """re-apply local rewrites after substitution"""
        if not isinstance(t, tuple) or not t:
            return t
        k = t[0]
        if k == "enc":
            return self.mk_enc(self.simplify(t[1], env), env)
        if k == "dec":
            return self.mk_dec(self.simplify(t[1], env), env)
        if k == "attr":
            return self.project(self.simplify(t[1], env), t[2], env)
        if k == "map":
            lam = t[1]
            return self.mk_map(self.simplify(lam[2], env), lam[1], self.simplify(t[2], env), env)
        if k == "list":
            return mk_list([self.simplify(x, env) if x[0] != "splat" else ("splat", self.simplify(x[1], env)) for x in t[1]])
        if k == "ctor":
            return self.eta(mk_ctor(t[1], {p: self.simplify(v, env) for p, v in t[2]}), env)
        if k == "index":
            b, i = self.simplify(t[1], env), self.simplify(t[2], env)
            if b[0] in ("list", "tuple") and i[0] == "const" and isinstance(i[1], int) and 0 <= i[1] < len(b[1]) and not any(x[0] == "splat" for x in b[1][: i[1] + 1]):
                return b[1][i[1]]
            return ("index", b, i)
        return tuple(self.simplify(x, env) if isinstance(x, tuple) else x for x in t)

    # ------------------------------------------------------------------ enc / dec
    def mk_enc(self, t, env: Env):
        if t[0] == "dec":
            return t[1]
        return self._codec(t, "_to_serial", "enc", env)

    def mk_dec(self, t, env: Env):
        if t[0] == "enc":
            return t[1]
        return self._codec(t, "deserialize", "dec", env)

    # codecs of whole documents are treated as atoms (their internals are decided by dedicated rules, and whether they
    # happen to be normalisable must not change the normal form of their callers)
    ATOMIC_CODECS = {"hugr.hugr.base.Hugr"}

    def _codec(self, t, mname, marker, env: Env):
        ty = self.type_of(t, env)
        if isinstance(ty, Class) and ty.qualname in self.ATOMIC_CODECS:
            return (marker, t)
        if isinstance(ty, Class) and (t[0] == "ctor" or (self.inline_symbolic and self.is_concrete(ty)
                                                         and not self.overridden_below(ty, mname))):
            c, m = ty.find_method(mname)
            if m is not None and not _is_protocol_stub(m):
                extra = {}
                params = [a.arg for a in m.args.args[1:]]
                for p in params:       # e.g. `parent`
                    extra[p] = sym(p)
                try:
                    return self.method(c, m, t, extra, env)
                except Opaque:
                    pass
                # a branching codec method: keep every returning path as an alternative
                if t[0] == "ctor":
                    try:
                        alts = [(g, term) for g, outcome, term, node, e2 in self.paths(c, mname, self_t=t, args=extra) if outcome == "return"]
                        if len(alts) > 1:
                            return ("alts", tuple((" and ".join(("" if tk else "not ") + (u(n) if isinstance(n, ast.AST) else "?")[:50] for _, tk, n in g), term) for g, term in alts))
                        if len(alts) == 1:
                            return alts[0][1]
                    except Opaque:
                        pass
        return (marker, t)

    # ------------------------------------------------------------------ attribute projection
    def project(self, base, name: str, env: Env):
        if base[0] == "ctor":
            args = ctor_args(base)
            cls = self.prog.cls(base[1])
            if name == "root" and set(args) == {"root"}:
                return args["root"]
            if cls.is_property(name):
                c, m = cls.find_method(name)
                try:
                    return self.method(c, m, base, {}, env)
                except Opaque:
                    return attr(base, name)
            if name in args:
                return args[name]
            f = cls.find_field(name)
            if f is not None:
                d = self.field_default(f, env)
                if d is not None:
                    return d
                return ("default", cls.qualname, name)
            return attr(base, name)
        if name == "root" and base[0] == "enc":
            return base          # x._to_serial_root().root is x._to_serial(): both are the `enc` marker
        if name == "root":
            ty = self.type_of(base, env)
            if isinstance(ty, Class) and "RootModel" in ty.base_names():
                return base      # RootModel wrappers are transparent
            if ty is None and base[0] in ("var", "attr", "index"):
                # untyped element of a list of RootModels (v.root for v in self.vs)
                return ("attr", base, "root")
        ty = self.type_of(base, env)
        if isinstance(ty, Class) and ty.is_property(name):
            c, m = ty.find_method(name)
            try:
                return self.method(c, m, base, {}, env)
            except Opaque:
                return attr(base, name)
        return attr(base, name)

    def field_default(self, f, env: Env):
        if f.default is not None:
            if isinstance(f.default, ast.Constant):
                return const(f.default.value)
            return None
        if f.default_factory is not None:
            s = u(f.default_factory)
            if s in ("list", "ExtensionSet", "tys.ExtensionSet", "stys.ExtensionSet"):
                return ("list", ())
            if s == "dict":
                return ("dict", ())
            # X.empty and friends
            try:
                call = ast.Call(func=f.default_factory, args=[], keywords=[])
                return self.call(call, Env(f.owner.module, f.owner, {}, {}, env.depth + 1, env.vdepth))
            except Opaque:
                return None
        return None

    # ------------------------------------------------------------------ calls
    def call(self, e: ast.Call, env: Env):
        if any(k.arg is None and isinstance(k.value, ast.Dict) for k in e.keywords):
            e = _expand_dict_keywords(e)
        if any(isinstance(a, ast.Starred) and isinstance(a.value, (ast.Call, ast.Tuple, ast.List, ast.Name)) for a in e.args):
            # f(*(a, b, c)) / f(*helper(..)) with the helper returning a tuple display: the elements are the arguments
            new_args, changed = [], False
            for a in e.args:
                if isinstance(a, ast.Starred) and isinstance(a.value, (ast.Call, ast.Tuple, ast.List, ast.Name)):
                    try:
                        t = self.ev(a.value, env)
                    except Opaque:
                        t = None
                    if t is not None and t[0] == "tuple" and not any(isinstance(x, tuple) and x and x[0] == "splat" for x in t[1]):
                        for x in t[1]:
                            self._splat_n = getattr(self, "_splat_n", 0) + 1
                            nm = f"splat__{self._splat_n}"
                            env.vars[nm] = x
                            new_args.append(ast.copy_location(ast.Name(id=nm, ctx=ast.Load()), a))
                        changed = True
                        continue
                new_args.append(a)
            if changed:
                e = ast.copy_location(ast.Call(func=e.func, args=new_args, keywords=e.keywords), e)
        f = e.func
        fs = u(f)
        # --- builtins / repo helpers
        if fs == "_check_complete" and len(e.args) == 2:
            return self.ev(e.args[1], env)
        if fs == "ser_it" and len(e.args) == 1:
            src = self.ev(e.args[0], env)
            return self._map_fn(src, "enc", env)
        if fs == "deser_it" and len(e.args) == 1:
            src = self.ev(e.args[0], env)
            return self._map_fn(src, "dec", env)
        if fs in ("list", "tuple", "iter") and len(e.args) == 1 and not e.keywords:
            v = self.ev(e.args[0], env)
            if v[0] == "tuple":
                return mk_list(list(v[1]))
            return v
        if fs == "list" and not e.args:
            return ("list", ())
        if fs == "map" and len(e.args) == 2:
            fn = u(e.args[0])
            src = self.ev(e.args[1], env)
            if fn == "ser_it":
                var = ("var", env.vdepth)
                return self.mk_map(self._map_fn(var, "enc", env.child(vdepth=env.vdepth + 1)), var, src, env)
            if fn == "deser_it":
                var = ("var", env.vdepth)
                return self.mk_map(self._map_fn(var, "dec", env.child(vdepth=env.vdepth + 1)), var, src, env)
            if isinstance(e.args[0], (ast.Name, ast.Attribute)) and not e.keywords:
                # map(f, xs) is (f(x) for x in xs)
                v = f"m{env.vdepth}_"
                g = ast.GeneratorExp(elt=ast.Call(func=e.args[0], args=[ast.Name(id=v, ctx=ast.Load())], keywords=[]),
                                     generators=[ast.comprehension(target=ast.Name(id=v, ctx=ast.Store()), iter=e.args[1], ifs=[], is_async=0)])
                ast.copy_location(g, e)
                ast.fix_missing_locations(g)
                try:
                    return self.ev(g, env)
                except Opaque:
                    pass
            return ("call", "map", (("opaque", fn), src), ())
        if fs == "len" and len(e.args) == 1:
            return self.mk_len(self.ev(e.args[0], env))
        if fs == "any" and len(e.args) == 1 and not e.keywords:
            # any(v == E for v in X)  is  E in X
            a = self.ev(e.args[0], env)
            if a[0] == "map" and a[1][0] == "lam" and a[1][2][0] == "op" and a[1][2][1] == "cmp:Eq":
                var, (l, r) = a[1][1], a[1][2][2]
                other = r if l == var else (l if r == var else None)
                if other is not None and not contains(other, var):
                    return ("op", "cmp:In", (other, a[2]))
            return ("call", "any", (a,), ())
        if fs == "cast" and len(e.args) == 2:
            return self.ev(e.args[1], env)
        if fs in ("int", "str", "bool", "set", "sorted", "max", "min", "sum", "isinstance", "enumerate", "zip", "range", "repr", "dict"):
            return ("call", fs, tuple(self.ev(a, env) for a in e.args), tuple((k.arg, self.ev(k.value, env)) for k in e.keywords))
        # --- method calls
        if isinstance(f, ast.Attribute):
            # super().__init__ is handled by init expansion, elsewhere opaque
            if isinstance(f.value, ast.Call) and u(f.value.func) == "super":
                if env.cls is not None:
                    for k in env.cls.mro[1:]:
                        if f.attr in k.methods:
                            try:
                                return self.method(k, k.methods[f.attr], env.vars.get("self", sym("self")), self._bind(k.methods[f.attr], e, env, skip_self=True), env)
                            except Opaque:
                                break
                return ("opaque", fs)
            target = env.module.resolve(f) if isinstance(f.value, (ast.Name, ast.Attribute)) and not self._is_local(f.value, env) else None
            if isinstance(target, Class):
                return self.construct(target, e, env)
            if isinstance(target, ast.FunctionDef):
                return self.func_call(target, self._module_of(f.value, env), e, env)
            # classmethod / staticmethod on a class:  tys.FunctionType.endo(...)
            if isinstance(f.value, (ast.Name, ast.Attribute)) and not self._is_local(f.value, env):
                base_cls = env.module.resolve(f.value)
                if isinstance(base_cls, Class):
                    c, m = base_cls.find_method(f.attr)
                    if m is not None:
                        decos = [u(d) for d in m.decorator_list]
                        if "classmethod" in decos:
                            args = self._bind(m, e, env, skip_self=True)
                            args[m.args.args[0].arg] = ("class", base_cls.qualname)
                            try:
                                return self.method(c, m, None, args, env)
                            except Opaque:
                                pass
                        elif "staticmethod" in decos:
                            try:
                                return self.method(c, m, None, self._bind(m, e, env, skip_self=False), env)
                            except Opaque:
                                pass
                    return ("call", fs, tuple(self.ev(a, env) for a in e.args), tuple((k.arg, self.ev(k.value, env)) for k in e.keywords))
            recv = self.ev(f.value, env)
            if f.attr in ENC_METHODS and not e.args and not e.keywords:
                return self.mk_enc(recv, env)
            if f.attr in DEC_METHODS and not e.args and not e.keywords:
                return self.mk_dec(recv, env)
            if recv[0] == "class":   # cls(...) inside a classmethod: cls.attr(...)
                k = self.prog.cls(recv[1])
                c, m = k.find_method(f.attr)
                if m is not None and "classmethod" in [u(d) for d in m.decorator_list]:
                    args = self._bind(m, e, env, skip_self=True)
                    args[m.args.args[0].arg] = recv
                    try:
                        return self.method(c, m, None, args, env)
                    except Opaque:
                        pass
            ty = self.type_of(recv, env)
            if isinstance(ty, Class):
                c, m = ty.find_method(f.attr)
                if m is not None and not _is_protocol_stub(m) and f.attr not in self.effectful() and (
                        recv[0] == "ctor" or ((recv == env.vars.get("self") or self.is_concrete(ty)) and not self.overridden_below(ty, f.attr))
                        or (recv == env.vars.get("self") and env.cls is not None and self._self_exact)):
                    try:
                        self.resolved_calls += 1
                        return self.method(c, m, recv, self._bind(m, e, env, skip_self=True), env)
                    except Opaque:
                        pass
            else:
                self.unresolved_calls += 1
            return ("call", "." + f.attr, tuple([recv] + [self.ev(a, env) for a in e.args]),
                    tuple((k.arg, self.ev(k.value, env)) for k in e.keywords))
        if isinstance(f, ast.Name):
            if f.id in env.vars:
                v = env.vars[f.id]
                if v[0] == "class":
                    return self.construct(self.prog.cls(v[1]), e, env)
                if v[0] == "closure" and v[1] in self._closures:
                    node, cenv = self._closures[v[1]]
                    try:
                        args = self._bind(node, e, env, skip_self=False)
                        env2 = cenv.child(depth=env.depth + 1, vdepth=env.vdepth)
                        env2.vars = {**cenv.vars, **args}
                        return self.body(node, env2)
                    except Opaque:
                        return ("call", node.name, tuple(self.ev(a, env) for a in e.args if not isinstance(a, ast.Starred)), ())
                return ("call", "<local>", tuple([v] + [self.ev(a, env) for a in e.args]), ())
            target = env.module.resolve(f)
            if isinstance(target, Class):
                return self.construct(target, e, env)
            if isinstance(target, ast.FunctionDef):
                return self.func_call(target, self._def_module(env.module, f.id), e, env)
        return ("call", fs, tuple(self.ev(a, env) for a in e.args), tuple((k.arg, self.ev(k.value, env)) for k in e.keywords))

    def _is_local(self, e, env: Env) -> bool:
        while isinstance(e, ast.Attribute):
            e = e.value
        return isinstance(e, ast.Name) and e.id in env.vars

    def _module_of(self, e, env: Env) -> Module:
        r = env.module.resolve(e)
        return r if isinstance(r, Module) else env.module

    def _def_module(self, mod: Module, name: str) -> Module:
        if name in mod.functions:
            return mod
        q = mod.imports.get(name)
        if q:
            mq = q.rpartition(".")[0]
            if mq in self.prog.modules:
                return self._def_module(self.prog.modules[mq], name) if name not in self.prog.modules[mq].functions else self.prog.modules[mq]
        return mod

    def _map_fn(self, src, which: str, env: Env):
        var = ("var", env.vdepth)
        env2 = env.child(vdepth=env.vdepth + 1)
        st = self.type_of(src, env)
        if isinstance(st, tuple) and st[0] == "list":
            env2.types[var] = st[1]
        body = self.mk_enc(var, env2) if which == "enc" else self.mk_dec(var, env2)
        return self.mk_map(body, var, src, env)

    def _bind(self, m: ast.FunctionDef, e: ast.Call, env: Env, skip_self: bool) -> dict:
        a = m.args
        pos = [x.arg for x in a.posonlyargs + a.args]
        if skip_self and pos:
            pos = pos[1:]
        out = {}
        i = 0
        for arg in e.args:
            if isinstance(arg, ast.Starred):
                if a.vararg is not None and i >= len(pos):
                    out.setdefault("*" + a.vararg.arg, []).append(("splat", self.ev(arg.value, env)))
                    continue
                raise Opaque("starred positional")
            if i < len(pos):
                out[pos[i]] = self.ev(arg, env)
                i += 1
            elif a.vararg is not None:
                out.setdefault("*" + a.vararg.arg, []).append(self.ev(arg, env))
            else:
                raise Opaque("too many positionals")
        for k in e.keywords:
            if k.arg is None:
                raise Opaque("**kwargs")
            out[k.arg] = self.ev(k.value, env)
        if a.vararg is not None:
            out[a.vararg.arg] = mk_list(out.pop("*" + a.vararg.arg, []))
        # defaults
        allp = a.posonlyargs + a.args
        defaults = dict(zip([x.arg for x in allp[len(allp) - len(a.defaults):]], a.defaults))
        for x, d in zip(a.kwonlyargs, a.kw_defaults):
            if d is not None:
                defaults[x.arg] = d
        for p, d in defaults.items():
            if p not in out:
                if isinstance(d, ast.Constant):
                    out[p] = const(d.value)
        return out

    def construct(self, cls: Class, e: ast.Call, env: Env):
        """constructor call -> ctor term (parameters bound by name)"""
        self.resolved_calls += 1
        c, init = cls.find_method("__init__")
        kw: dict[str, Any] = {}
        if init is not None:
            try:
                kw = self._bind(init, e, env, skip_self=True)
            except Opaque:
                return ("call", cls.qualname, tuple(self.ev(a, env) if not isinstance(a, ast.Starred) else ("splat", self.ev(a.value, env)) for a in e.args),
                        tuple(("**" if x.arg is None else x.arg, self.ev(x.value, env)) for x in e.keywords))
        else:
            pos = cls.init_positional()
            i = 0
            for a in e.args:
                if isinstance(a, ast.Starred) or i >= len(pos):
                    return ("call", cls.qualname, tuple(self.ev(x, env) if not isinstance(x, ast.Starred) else ("splat", self.ev(x.value, env)) for x in e.args), ())
                kw[pos[i]] = self.ev(a, env)
                i += 1
            for k in e.keywords:
                if k.arg is None:
                    d = self.ev(k.value, env)
                    if d[0] == "dict" and all(kk[0] == "const" and isinstance(kk[1], str) and kk[1] not in kw for kk, _ in d[1]):
                        # Model(**{"a": x, "b": y}) (the display possibly built by a helper): keyword arguments written out
                        for kk, vv in d[1]:
                            kw[kk[1]] = vv
                        continue
                    return ("call", cls.qualname, tuple(self.ev(a, env) for a in e.args if not isinstance(a, ast.Starred)),
                            tuple(("**" if x.arg is None else x.arg, self.ev(x.value, env)) for x in e.keywords))
                kw[k.arg] = self.ev(k.value, env)
        if set(kw) == {"root"} and "RootModel" in cls.base_names():
            return kw["root"]
        return self.eta(mk_ctor(cls.qualname, kw), env)

    def eta(self, t, env: Env):
        """Ctor(C, {p: x.p for every init-param p}) -> x   when x : C (or, for sum types, a subclass)"""
        cls = self.prog.cls(t[1])
        args = ctor_args(t)
        if not args:
            return t
        c, init = cls.find_method("__init__")
        if init is not None and not cls.is_dataclass:
            return t
        params = cls.init_params() if init is None else None
        if params is None:
            return t
        base = None
        for p in params:
            v = args.get(p)
            if v is None:
                f = cls.find_field(p)
                # un-passed parameter: eta only if the symbolic source cannot differ, which we cannot know
                return t
            if not (v[0] == "attr" and v[2] == p):
                return t
            if base is None:
                base = v[1]
            elif base != v[1]:
                return t
        if base is None:
            return t
        bt = self.type_of(base, env)
        if isinstance(bt, Class) and (bt is cls or (self.sugar_eta and cls in bt.mro)):
            return base
        return t

    def func_call(self, fn: ast.FunctionDef, mod: Module, e: ast.Call, env: Env):
        try:
            args = self._bind(fn, e, env, skip_self=False)
            env2 = Env(mod, None, args, env.types, env.depth + 1, env.vdepth)
            return self.body(fn, env2)
        except Opaque:
            if fn.name.startswith("_") and not fn.name.startswith("__") and env.depth > 0 and any(isinstance(n, ast.Try) for n in ast.walk(fn)):
                # a private helper that handles exceptions, called from a method being evaluated: the method is then as unreadable as
                # if it handled them itself (it stays a call of that method, which the rules may have a law for)
                raise
            return ("call", fn.name, tuple(self.ev(a, env) for a in e.args if not isinstance(a, ast.Starred)),
                    tuple((k.arg, self.ev(k.value, env)) for k in e.keywords if k.arg))

    # ------------------------------------------------------------------ methods
    def method(self, cls: Class, m: ast.FunctionDef, self_t, args: dict, env: Env):
        if env.depth > MAXDEPTH:
            raise Opaque("depth")
        vars = dict(args)
        if self_t is not None and m.args.args:
            vars[m.args.args[0].arg] = self_t
        types = dict(env.types)
        # parameter annotations give static types to symbolic arguments
        for a in m.args.args[1:] + m.args.kwonlyargs:
            if a.arg in vars and a.annotation is not None and vars[a.arg][0] in ("sym",):
                ty = self.ann_type(cls.module, a.annotation)
                if ty is not None:
                    types[vars[a.arg]] = ty
        env2 = Env(cls.module, cls, vars, types, env.depth + 1, env.vdepth)
        return self.body(m, env2)

    def _optional_truth(self, c, env):
        """`x is not None` on an optional x whose class (a class of the program without __bool__ / __len__) is always truthy is the
        truthiness test `x`;  `x is None` its negation"""
        if c[0] == "op" and c[1] in ("And", "Or", "Not", "not") and all(isinstance(x, tuple) for x in c[2]):
            return ("op", c[1], tuple(self._optional_truth(x, env) for x in c[2]))
        if c[0] == "op" and c[1] in ("cmp:IsNot", "cmp:Is") and len(c[2]) == 2 and c[2][1] == ("const", None):
            x = c[2][0]
            pos = None
            if x[0] in ("ctor", "list", "map", "comp", "enc"):
                pos = ("const", True)                       # a built value is never None
            elif x[0] == "ite" and x[3] == ("const", None) and x[2][0] in ("ctor", "list", "map", "comp", "enc"):
                pos = x[1]                                  # (A if c else None) is not None  <=>  c
            elif x[0] == "ite" and x[2] == ("const", None) and x[3][0] in ("ctor", "list", "map", "comp", "enc"):
                pos = ("op", "Not", (x[1],))
            if pos is not None:
                if c[1] == "cmp:IsNot":
                    return pos
                return ("const", not pos[1]) if pos[0] == "const" else ("op", "Not", (pos,))
        if c[0] == "op" and c[1] in ("cmp:IsNot", "cmp:Is") and len(c[2]) == 2 and c[2][1] == ("const", None) and c[2][0][0] in ("attr", "sym"):
            try:
                ty = self.type_of(c[2][0], env)
            except Exception:
                ty = None
            if isinstance(ty, Class) and not any(n_ in k.methods for k in ty.mro for n_ in ("__bool__", "__len__")) \
                    and not any(b_ in ("int", "str", "float", "bytes", "list", "dict", "tuple", "set", "Enum", "IntEnum", "Mapping", "MutableMapping", "Sequence")
                                for k in ty.mro for b_ in k.base_names()):
                return c[2][0] if c[1] == "cmp:IsNot" else ("op", "Not", (c[2][0],))
        return c

    def mk_ite(self, c, a, b):
        if c[0] == "const":
            return a if c[1] else b
        if a == b:
            return a
        # polarity: not c ? a : b  ==  c ? b : a
        if c[0] == "op" and c[1] in ("not", "Not") and len(c[2]) == 1:
            return self.mk_ite(c[2][0], b, a)
        # c ? X : False  ==  c and X   when c is a genuine boolean (isinstance / comparison)
        is_bool = (c[0] == "call" and c[1] == "isinstance") or (c[0] == "op" and str(c[1]).startswith("cmp:"))
        if is_bool and b == const(False):
            parts = list(a[2]) if a[0] == "op" and a[1] == "And" else [a]
            return ("op", "And", tuple([c] + parts))
        return ("ite", c, a, b)

    def body(self, m: ast.FunctionDef, env: Env):
        from . import norm
        import copy as _copy
        stmts = real_body(m)
        loopy = any(isinstance(n, (ast.For, ast.While)) or (isinstance(n, ast.Expr) and isinstance(n.value, ast.Call)) for n in ast.walk(m))
        if (_computed_spelling(m) or loopy or self._unknown_module_names(m, env)) and env.cls is not None and not getattr(env, "_canonical", False):
            # the canonical body (run for the receiver's class) writes both out; as written where that does not evaluate
            try:
                from .canon import Canon
                cn = getattr(self.prog, "_canon", None)
                if cn is None:
                    cn = self.prog._canon = Canon(self.prog)
                dk = next((k_ for k_ in env.cls.mro if isinstance(k_, Class) and m in k_.methods.values()), None)
                if dk is not None:
                    e2 = env.child()
                    r = self._body_of(m, cn.body(m, dk.module, env.cls, subst=False), e2)
                    env.vars.update(e2.vars)
                    env.types.update(e2.types)
                    return r
            except Exception:
                pass
        return self._body_of(m, stmts, env)

    def _unknown_module_names(self, m, env: Env) -> bool:
        """does the method read private module-level constants the rule tables do not know (named accessors, partial applications,
        tables added by a refactoring)?  The canonical body writes them in."""
        try:
            from .canon import known_defs
            known = known_defs()
            dk = next((k_ for k_ in env.cls.mro if isinstance(k_, Class) and m in k_.methods.values()), None)
            if dk is None:
                return False
            mod = dk.module
            return any(isinstance(n, ast.Name) and n.id.startswith("_") and not n.id.startswith("__") and n.id in mod.assigns
                       and f"const:{n.id}" not in known and isinstance(mod.assigns[n.id], ast.Call) for n in ast.walk(m))
        except Exception:
            return False

    def _body_of(self, m, stmts, env: Env):
        from . import norm
        import copy as _copy
        if any(isinstance(t_, ast.Subscript) or isinstance(s_, ast.Expr) for s_ in stmts for t_ in (getattr(s_, "targets", None) or [None])):
            stmts = norm.merge_display_building([_copy.deepcopy(s_) for s_ in stmts])
        if any(isinstance(n, ast.For) for s_ in stmts for n in ast.walk(s_)):
            stmts = norm.normalise_loops(stmts)
            stmts = _generator_to_genexp(stmts)
        r = self._run(m, list(stmts), env)
        if r is None or r == _RAISES:
            raise Opaque(f"{m.name}: no return")
        return r

    def _run(self, m, stmts, env: Env):
        """value returned by the statement list (None when it falls through); If statements become ite terms"""
        for i, s in enumerate(stmts):
            if isinstance(s, (ast.Import, ast.ImportFrom)):
                self._local_import(s, env)
                continue
            if isinstance(s, ast.Assert) or isinstance(s, ast.Pass):
                continue
            if isinstance(s, ast.Expr) and isinstance(s.value, ast.Constant):
                continue
            if isinstance(s, ast.Assign) and len(s.targets) == 1:
                v = self.ev(s.value, env)
                self._assign(s.targets[0], v, env)
                continue
            if isinstance(s, ast.AugAssign) and isinstance(s.target, ast.Name) and isinstance(s.op, ast.Add) and s.target.id in env.vars:
                # x += E  (a local being built): x = x + E
                env.vars[s.target.id] = self.ev(ast.BinOp(left=ast.Name(id=s.target.id, ctx=ast.Load()), op=ast.Add(), right=s.value), env)
                continue
            if isinstance(s, ast.AnnAssign) and isinstance(s.target, ast.Name):
                if s.value is not None:
                    env.vars[s.target.id] = self.ev(s.value, env)
                continue
            if isinstance(s, ast.Return):
                return self.ev(s.value, env) if s.value is not None else const(None)
            if isinstance(s, ast.FunctionDef):
                # a local closure: calls to it are evaluated in the defining environment
                self._closures[id(s)] = (s, env)
                env.vars[s.name] = ("closure", id(s))
                continue
            if isinstance(s, ast.If):
                c = self._optional_truth(self.ev(s.test, env), env)
                e1, e2 = env.child(), env.child()
                r1 = self._run(m, list(s.body), e1)
                r2 = self._run(m, list(s.orelse), e2)
                rest = stmts[i + 1:]
                # a raising branch makes the function partial: its value is that of the other branch
                if r1 == _RAISES or r2 == _RAISES:
                    if r1 == _RAISES and r2 == _RAISES:
                        return _RAISES
                    live_r, live_e = (r2, e2) if r1 == _RAISES else (r1, e1)
                    if live_r is not None:
                        return live_r
                    env.vars.clear()
                    env.vars.update(live_e.vars)
                    continue
                if r1 is not None and r2 is not None:
                    return self.mk_ite(c, r1, r2)
                if r1 is None and r2 is None:
                    for k in set(e1.vars) | set(e2.vars):
                        a, b = e1.vars.get(k), e2.vars.get(k)
                        if a is None or b is None:
                            if k in env.vars:
                                del env.vars[k]
                            continue
                        env.vars[k] = self.mk_ite(c, a, b) if a != b else a
                    continue
                if r1 is not None:
                    r = self._run(m, list(rest), e2)
                    if r is None:
                        raise Opaque(f"{m.name}: a branch returns and the other falls off the end")
                    if r == _RAISES:
                        return r1
                    return self.mk_ite(c, r1, r)
                r = self._run(m, list(rest), e1)
                if r is None:
                    raise Opaque(f"{m.name}: a branch returns and the other falls off the end")
                if r == _RAISES:
                    return r2
                return self.mk_ite(c, r, r2)
            if isinstance(s, ast.Raise):
                return _RAISES
            raise Opaque(f"{m.name}: statement {type(s).__name__}")
        return None

    def _assign(self, tg, v, env: Env):
        if isinstance(tg, ast.Name):
            env.vars[tg.id] = v
        elif isinstance(tg, (ast.Tuple, ast.List)):
            for i, x in enumerate(tg.elts):
                if isinstance(x, ast.Starred):
                    raise Opaque("starred unpack")
                if v[0] in ("tuple", "list") and i < len(v[1]) and not any(y[0] == "splat" for y in v[1]):
                    self._assign(x, v[1][i], env)
                else:
                    self._assign(x, ("index", v, const(i)), env)
        else:
            raise Opaque("assignment target " + u(tg))

    def _local_import(self, s, env: Env):
        # function-level imports extend the module's import table for resolution (idempotent)
        m = env.module
        if isinstance(s, ast.ImportFrom):
            base = s.module or ""
            for a in s.names:
                m.imports.setdefault(a.asname or a.name, f"{base}.{a.name}")
        else:
            for a in s.names:
                if a.asname:
                    m.imports.setdefault(a.asname, a.name)

    # ------------------------------------------------------------------ constructor expansion
    def _init_body(self, init, c):
        """the constructor's statements: the canonical body (helpers seen through, Base.__init__(self, ..) of a dataclass base
        written out) when it stays within what init_fields interprets, else the source body"""
        raw = normalise_loops(real_body(init))
        try:
            cn = getattr(self.prog, "_canon", None)
            if cn is None:
                from .canon import Canon
                cn = self.prog._canon = Canon(self.prog)
            cb = cn.body(init, c.module, c)
        except Exception:
            return raw
        simple = all(isinstance(st, (ast.Assign, ast.Pass, ast.Assert)) or (isinstance(st, ast.Expr) and isinstance(st.value, (ast.Constant, ast.Call))) for st in cb)
        raw_simple = all(isinstance(st, (ast.Assign, ast.Pass, ast.Assert)) or (isinstance(st, ast.Expr) and isinstance(st.value, (ast.Constant, ast.Call))) for st in raw)
        return cb if simple or not raw_simple else raw

    def init_fields(self, cls: Class, args: dict, env: Env | None = None, depth: int = 0) -> dict:
        """fields of the object built by cls(**args): interprets a straight-line explicit __init__
        (self.f = e, locals, super().__init__(...)) or the dataclass-generated one"""
        if depth > 6:
            raise Opaque("init depth")
        c, init = cls.find_method("__init__")
        if init is None:
            out = {}
            for f in cls.all_fields():
                if not f.init:
                    continue
                if f.name in args:
                    out[f.name] = args[f.name]
                else:
                    d = self.field_default(f, env or Env(cls.module, cls))
                    out[f.name] = d if d is not None else ("default", cls.qualname, f.name)
            return out
        me = ("sym", "<new>")
        e2 = Env(c.module, c, {**args, init.args.args[0].arg: me}, dict(env.types) if env else {}, (env.depth + 1) if env else 0, env.vdepth if env else 0)
        fields: dict = {}
        for st in self._init_body(init, c):
            if isinstance(st, ast.Assign) and len(st.targets) == 1:
                tg = st.targets[0]
                v = self.ev(st.value, e2)
                if isinstance(tg, ast.Attribute) and isinstance(tg.value, ast.Name) and tg.value.id == init.args.args[0].arg:
                    fields[tg.attr] = v
                else:
                    self._assign(tg, v, e2)
            elif isinstance(st, ast.Expr) and isinstance(st.value, ast.Call) and isinstance(st.value.func, ast.Attribute) \
                    and st.value.func.attr == "__init__" and isinstance(st.value.func.value, ast.Call) and u(st.value.func.value.func) == "super":
                idx = cls.mro.index(c)
                base = None
                for k in cls.mro[idx + 1:]:
                    if "__init__" in k.methods or k.is_dataclass:
                        base = k
                        break
                if base is None:
                    raise Opaque("super().__init__ target")
                bc, binit = base.find_method("__init__")
                if binit is not None and bc in cls.mro[idx + 1:]:
                    bargs = self._bind(binit, st.value, e2, skip_self=True)
                else:
                    bargs = {}
                    pos = base.init_positional()
                    for i, a in enumerate(st.value.args):
                        bargs[pos[i]] = self.ev(a, e2)
                    for k in st.value.keywords:
                        bargs[k.arg] = self.ev(k.value, e2)
                fields.update(self.init_fields(base, bargs, e2, depth + 1))
            elif isinstance(st, (ast.Pass, ast.Assert)) or (isinstance(st, ast.Expr) and isinstance(st.value, ast.Constant)):
                continue
            else:
                raise Opaque(f"{cls.name}.__init__: statement {type(st).__name__}")
        return fields

    def expand(self, t, env: Env | None = None):
        """replace constructor terms of classes with an explicit __init__ by their general (dataclass) base form"""
        if not isinstance(t, tuple) or not t:
            return t
        if t[0] == "ctor":
            cls = self.prog.cls(t[1])
            args = {p: self.expand(v, env) for p, v in t[2]}
            c, init = cls.find_method("__init__")
            if init is not None:
                try:
                    fields = self.init_fields(cls, args, env)
                except Opaque:
                    return mk_ctor(t[1], args)
                fields = {k: self.expand(v, env) for k, v in fields.items()}
                base = next((k for k in cls.mro if k.is_dataclass and k.find_method("__init__")[1] is None), None)
                if base is not None:
                    keep = {f.name for f in base.all_fields()}
                    return mk_ctor(base.qualname, {k: v for k, v in fields.items() if k in keep})
                return mk_ctor(t[1] + "#fields", fields)
            return mk_ctor(t[1], args)
        return tuple(self.expand(x, env) if isinstance(x, tuple) else x for x in t)

    # ------------------------------------------------------------------ branching bodies
    def _path_body(self, m, c):
        """statements whose paths are enumerated: the source body, unless it calls private helpers / reads private constants the rule
        tables do not know (added by a refactoring): then the canonical body, where those are seen through"""
        raw = normalise_loops(real_body(m))
        try:
            from .canon import Canon, known_defs
            known = known_defs()
            names = {n.attr for n in ast.walk(m) if isinstance(n, ast.Attribute)} | {n.id for n in ast.walk(m) if isinstance(n, ast.Name)}
            imported = set(c.module.imports) | {a_.asname or a_.name for n in ast.walk(m) if isinstance(n, ast.ImportFrom) for a_ in n.names}
            unknown = [x for x in names if x.startswith("_") and not x.startswith("__") and (
                (x in c.module.functions and f"fn:{x}" not in known) or (x in c.module.assigns and f"const:{x}" not in known)
                or (x in c.module.classes and f"class:{x}" not in known)
                or (x in imported and f"fn:{x}" not in known and f"const:{x}" not in known and f"class:{x}" not in known)
                or (any(x in k.methods for k in c.mro) and not any(f"{k.name}.{x}" in known for k in c.mro)))]
            # (and spellings the evaluator does not read: arguments passed as **table, attributes named by a computed string)
            loopy = any(isinstance(n, (ast.For, ast.While)) or (isinstance(n, ast.Expr) and isinstance(n.value, ast.Call)) for n in ast.walk(m))
            if not unknown and not _computed_spelling(m) and not loopy:
                return raw
            cn = getattr(self.prog, "_canon", None)
            if cn is None:
                cn = self.prog._canon = Canon(self.prog)
            return cn.body(m, c.module, c, subst=False)
        except Exception:
            return raw

    def paths(self, cls: Class, name: str, self_t=None, args: dict | None = None, bound: int = 64):
        """Enumerate the acyclic if/match paths of a method.  Yields (guards, outcome, term, node) where guards is a
        list of (test term, taken) / (pattern text, taken), outcome is 'return' | 'raise' | 'fallthrough'."""
        from .cfg import CFG, EXIT, RAISE
        c, m = cls.find_method(name)
        if m is None:
            raise Opaque(f"{cls.qualname}.{name} not found")
        self_t = self_t if self_t is not None else sym("self")
        a = dict(args or {})
        for p_ in [x.arg for x in m.args.args[1:] + m.args.kwonlyargs]:
            a.setdefault(p_, sym(p_))
        g = CFG(self._path_body(m, c))
        out = []
        for path in g.paths(bound=bound):
            vars = dict(a)
            if m.args.args:
                vars[m.args.args[0].arg] = self_t
            types = {self_t: cls} if self_t[0] == "sym" else {}
            for x in m.args.args[1:]:
                if x.annotation is not None and a[x.arg][0] == "sym":
                    ty = self.ann_type(c.module, x.annotation)
                    if ty is not None:
                        types[a[x.arg]] = ty
            env = Env(c.module, cls, vars, types, 0, 0)
            guards = []
            outcome, term, node = "fallthrough", None, m
            subject = None
            tainted = ""
            for nid, lab in path:
                st = g.stmt.get(nid)
                kind = g.kind.get(nid)
                if st is None:
                    continue
                if kind == "test":
                    guards.append((self.ev(st, env), lab == "T", st))
                elif kind == "subject":
                    subject = self.ev(st, env)
                elif kind == "case":
                    guards.append((("pattern", subject, u(st)), lab == "T", st))
                    if lab == "T":
                        self._bind_pattern(st, subject, env)
                elif kind == "stmt":
                    if isinstance(st, ast.Return):
                        outcome, term, node = "return", (self.ev(st.value, env) if st.value is not None else const(None)), st
                    elif isinstance(st, ast.Raise):
                        outcome, term, node = "raise", (self.ev(st.exc, env) if st.exc is not None else const(None)), st
                    elif isinstance(st, ast.Assign) and len(st.targets) == 1:
                        try:
                            self._assign(st.targets[0], self.ev(st.value, env), env)
                        except Opaque:
                            pass
                    elif isinstance(st, ast.AnnAssign) and isinstance(st.target, ast.Name) and st.value is not None:
                        env.vars[st.target.id] = self.ev(st.value, env)
                    elif isinstance(st, (ast.Import, ast.ImportFrom)):
                        self._local_import(st, env)
                    elif isinstance(st, ast.Expr) and isinstance(st.value, ast.Call):
                        # a statement run for its effect: a local list that grows is the list it grows into; anything else the
                        # evaluator does not read is not silently dropped
                        c_ = st.value
                        if isinstance(c_.func, ast.Attribute) and isinstance(c_.func.value, ast.Name) and c_.func.value.id in env.vars and c_.func.attr in ("extend", "append") \
                                and len(c_.args) == 1 and not c_.keywords and not isinstance(c_.args[0], ast.Starred):
                            add = c_.args[0] if c_.func.attr == "extend" else ast.List(elts=[c_.args[0]], ctx=ast.Load())
                            add = ast.List(elts=[ast.Starred(value=add, ctx=ast.Load())], ctx=ast.Load()) if c_.func.attr == "extend" else add
                            env.vars[c_.func.value.id] = self.ev(ast.List(elts=[ast.Starred(value=ast.Name(id=c_.func.value.id, ctx=ast.Load()), ctx=ast.Load()),
                                                                                 *add.elts], ctx=ast.Load()), env)
                        elif u(c_.func).split(".")[-1] in ("warn", "debug", "info", "warning", "print"):
                            pass
                        else:
                            tainted = f"{cls.qualname}.{name}: statement `{u(st)[:60]}` is run for its effect"
            if tainted and outcome == "return":
                term = ("opaque", tainted)        # (what the path answers depends on a statement the evaluator did not read)
            out.append((guards, outcome, term, node, env))
        return out

    def _bind_pattern(self, pat, subject, env: Env):
        if isinstance(pat, ast.MatchAs) and pat.name:
            env.vars[pat.name] = subject if pat.pattern is None else subject
        if isinstance(pat, ast.MatchClass):
            cls = env.module.resolve(pat.cls)
            names = []
            if isinstance(cls, Class):
                ma = cls.class_assigns.get("__match_args__")
                names = [f.name for f in cls.all_fields()] if ma is None else list(ast.literal_eval(ma))
            for i, sp in enumerate(pat.patterns):
                if isinstance(sp, ast.MatchAs) and sp.name and i < len(names):
                    env.vars[sp.name] = self.project(subject, names[i], env)
            for kn, sp in zip(pat.kwd_attrs, pat.kwd_patterns):
                if isinstance(sp, ast.MatchAs) and sp.name:
                    env.vars[sp.name] = self.project(subject, kn, env)

    # ------------------------------------------------------------------ public helpers
    def method_nf(self, cls: Class, name: str, self_t=None, args: dict | None = None):
        """normal form of cls.<name>(self, **args) with `self` symbolic of type cls"""
        c, m = cls.find_method(name)
        if m is None:
            raise Opaque(f"{cls.qualname}.{name} not found")
        self_t = self_t if self_t is not None else sym("self")
        env = Env(c.module, cls, {}, {self_t: cls} if self_t[0] == "sym" else {})
        a = dict(args or {})
        for p in [x.arg for x in m.args.args[1:]]:
            a.setdefault(p, sym(p))
        vars = dict(a)
        vars[m.args.args[0].arg] = self_t
        types = dict(env.types)
        for x in m.args.args[1:]:
            if x.annotation is not None and a[x.arg][0] == "sym":
                ty = self.ann_type(c.module, x.annotation)
                if ty is not None:
                    types[a[x.arg]] = ty
        env2 = Env(c.module, cls, vars, types, 0, 0)
        return self.body(m, env2), env2

    def method_alts(self, cls: Class, name: str, self_t=None, args: dict | None = None):
        """normal forms of ALL returning paths of a method: [(guard text, term, env)].  A straight-line method gives one entry.
        Raising paths are omitted (they refuse, they do not compute)."""
        try:
            t, env = self.method_nf(cls, name, self_t, args)
            return [("", t, env)]
        except Opaque:
            pass
        out = []
        for guards, outcome, term, node, env in self.paths(cls, name, self_t, args):
            if outcome == "return":
                g = " and ".join(("" if taken else "not ") + (u(n) if isinstance(n, ast.AST) else str(n))[:60] for _, taken, n in guards)
                out.append((g, term, env))
            elif outcome == "fallthrough":
                out.append((" and ".join(("" if taken else "not ") + u(n)[:60] for _, taken, n in guards), const(None), env))
        if not out:
            raise Opaque(f"{cls.qualname}.{name}: no returning path")
        return out

    def expr_nf(self, src: str, cls: Class, module: Module | None = None, self_t=None, extra: dict | None = None):
        """normal form of a Python expression written over `self` of class cls (used for spec tables)"""
        self_t = self_t if self_t is not None else sym("self")
        env = Env(module or cls.module, cls, {"self": self_t, **(extra or {})}, {self_t: cls})
        return self.ev(ast.parse(src, mode="eval").body, env), env


_RAISES = ("raises",)


def _computed_spelling(m) -> bool:
    """spellings the evaluator does not read: arguments passed as **table, attributes named by a computed string (the canonical
    body writes both out)"""
    return any(isinstance(n, ast.Call) and (u(n.func).split(".")[-1] in ("methodcaller", "attrgetter", "itemgetter", "partial", "starmap", "filter")
                                            or any(k.arg is None and not isinstance(k.value, ast.Dict) for k in n.keywords)
                                            or (isinstance(n.func, ast.Name) and n.func.id == "getattr" and len(n.args) >= 2
                                                and not isinstance(n.args[1], ast.Constant))) for n in ast.walk(m))


def _first_cond(t):
    if not isinstance(t, tuple) or not t:
        return None
    if t[0] == "ite":
        inner = _first_cond(t[1])
        return inner if inner is not None else t[1]
    for x in t[1:]:
        if isinstance(x, tuple):
            r = _first_cond(x)
            if r is not None:
                return r
    return None


def _assume(t, c, val: bool):
    if not isinstance(t, tuple) or not t:
        return t
    if t == c:
        return const(val) if False else t
    if t[0] == "ite":
        cond = _assume(t[1], c, val)
        if t[1] == c:
            return _assume(t[2] if val else t[3], c, val)
        a, b = _assume(t[2], c, val), _assume(t[3], c, val)
        if cond[0] == "const":
            return a if cond[1] else b
        return a if a == b else ("ite", cond, a, b)
    return tuple(_assume(x, c, val) if isinstance(x, tuple) else x for x in t)


def ite_normal(t, depth: int = 0):
    """decision-tree normal form: conditional terms are split on their atomic conditions in order of first occurrence, so
    `f(x if c else y)`, `f(x) if c else f(y)` and the guard-clause spelling of either coincide"""
    if depth == 0:
        t = _split_compound(t)
    c = _first_cond(t)
    if c is None or depth > 10:
        return t
    if c[0] == "const":
        return ite_normal(_assume_const(t, c), depth + 1)
    a = ite_normal(_assume(t, c, True), depth + 1)
    b = ite_normal(_assume(t, c, False), depth + 1)
    return a if a == b else ("ite", c, a, b)


def _split_compound(t):
    """conditions built with and / or / not are decided operand by operand, in evaluation order:
    (X if a or b else Y) = (X if a else (X if b else Y)),  (X if a and b else Y) = ((X if b else Y) if a else Y),  (X if not a else Y) = (Y if a else X)"""
    if not isinstance(t, tuple) or not t:
        return t
    t = tuple(_split_compound(x) if isinstance(x, tuple) else x for x in t)
    if t[0] == "ite" and isinstance(t[1], tuple) and t[1] and t[1][0] == "op" and t[1][1] in ("Or", "And", "Not", "not") and t[1][2]:
        c, a, b = t[1], t[2], t[3]
        ops_ = list(c[2])
        if c[1] in ("Not", "not") and len(ops_) == 1:
            return _split_compound(("ite", ops_[0], b, a))
        if c[1] == "Or":
            rest = ("ite", ("op", "Or", tuple(ops_[1:])), a, b) if len(ops_) > 2 else ("ite", ops_[1], a, b) if len(ops_) == 2 else b
            return _split_compound(("ite", ops_[0], a, rest))
        if c[1] == "And":
            rest = ("ite", ("op", "And", tuple(ops_[1:])), a, b) if len(ops_) > 2 else ("ite", ops_[1], a, b) if len(ops_) == 2 else a
            return _split_compound(("ite", ops_[0], rest, b))
    return t


def _assume_const(t, c):
    if not isinstance(t, tuple) or not t:
        return t
    if t[0] == "ite" and t[1] == c:
        return _assume_const(t[2] if c[1] else t[3], c)
    return tuple(_assume_const(x, c) if isinstance(x, tuple) else x for x in t)


def _generator_to_genexp(stmts):
    """`for x in it: yield E` / `if c: yield A else: yield B` as the whole body  ->  `return (E' for x in it)`"""
    if len(stmts) != 1 or not isinstance(stmts[0], ast.For) or stmts[0].orelse:
        return stmts
    lp = stmts[0]

    def val(block):
        if len(block) != 1:
            return None
        b = block[0]
        if isinstance(b, ast.Expr) and isinstance(b.value, ast.Yield) and b.value.value is not None:
            return b.value.value
        if isinstance(b, ast.If) and b.orelse:
            x, y = val(b.body), val(b.orelse)
            if x is not None and y is not None:
                return ast.IfExp(test=b.test, body=x, orelse=y)
        return None
    v = val(lp.body)
    if v is None:
        return stmts
    g = ast.GeneratorExp(elt=v, generators=[ast.comprehension(target=lp.target, iter=lp.iter, ifs=[], is_async=0)])
    r = ast.copy_location(ast.Return(value=g), lp)
    ast.fix_missing_locations(r)
    return [r]


def _truthiness(t):
    if t[0] == "const":
        return bool(t[1])
    if t[0] == "list":
        if any(x[0] != "splat" for x in t[1]):
            return True
        if not t[1]:
            return False
    if t[0] == "ctor":
        return True
    return None


def _is_protocol_stub(m: ast.FunctionDef) -> bool:
    b = real_body(m)
    return all(isinstance(s, ast.Pass) or (isinstance(s, ast.Expr) and isinstance(s.value, ast.Constant)) for s in b) or not b


def strip_lam(t):
    """("map", ("lam", var, body), src) pretty accessor"""
    return t[1][2], t[1][1], t[2]


def find_calls(t, suffix: str) -> list:
    """all ("call", name, ...) subterms whose name ends with suffix"""
    out = []
    if isinstance(t, tuple):
        if t and t[0] == "call" and isinstance(t[1], str) and t[1].endswith(suffix):
            out.append(t)
        for x in t:
            if isinstance(x, tuple):
                out += find_calls(x, suffix)
    return out


def fill_defaults(nf, t, env=None):
    """ctor terms get their un-passed dataclass parameters filled with evaluable defaults (for table comparison)"""
    if not isinstance(t, tuple) or not t:
        return t
    if t[0] == "ctor":
        cls = nf.prog.cls(t[1])
        args = {p: fill_defaults(nf, v, env) for p, v in t[2]}
        c, init = cls.find_method("__init__")
        if init is None:
            for f in cls.all_fields():
                if f.init and f.name not in args:
                    d = nf.field_default(f, env or Env(cls.module, cls))
                    if d is not None:
                        args[f.name] = d
        return mk_ctor(t[1], args)
    return tuple(fill_defaults(nf, x, env) if isinstance(x, tuple) else x for x in t)


# ---------------------------------------------------------------------------------------------
class _Subst(ast.NodeTransformer):
    def __init__(self, mapping):
        self.mapping = mapping

    def visit_Name(self, node):
        if isinstance(node.ctx, ast.Load) and node.id in self.mapping:
            return self.mapping[node.id]
        return node


def loops_to_comps(body: list[ast.stmt], total: dict | None = None) -> list[ast.stmt]:
    """Idiom normaliser: rewrite accumulate-loops into comprehensions.

        acc = []                      |
        for v in S:                   |      acc = [E' for v in S if C']
            x = E1                    |  =>
            if C: acc.append(E)       |
    (zero or more single-name assignments before the append; the `if` is optional)."""
    import copy
    out: list[ast.stmt] = []
    i = 0
    body = list(body)
    while i < len(body):
        s = body[i]
        acc = None
        if isinstance(s, ast.Assign) and len(s.targets) == 1 and isinstance(s.targets[0], ast.Name) and isinstance(s.value, ast.List) and not s.value.elts:
            acc = s.targets[0].id
        if isinstance(s, ast.AnnAssign) and isinstance(s.target, ast.Name) and isinstance(s.value, ast.List) and not s.value.elts:
            acc = s.target.id
        if acc and i + 1 < len(body) and isinstance(body[i + 1], ast.For) and not body[i + 1].orelse:
            loop = body[i + 1]
            mapping: dict[str, ast.expr] = {}
            stmts = list(loop.body)
            ok = True
            cond = None
            app = None
            for j, st in enumerate(stmts):
                if isinstance(st, ast.Assign) and len(st.targets) == 1 and isinstance(st.targets[0], ast.Name) and j < len(stmts) - 1:
                    mapping[st.targets[0].id] = _Subst(mapping).visit(copy.deepcopy(st.value))
                elif j == len(stmts) - 1:
                    inner = st
                    if isinstance(st, ast.If) and not st.orelse and len(st.body) == 1:
                        cond = _Subst(mapping).visit(copy.deepcopy(st.test))
                        inner = st.body[0]
                    if isinstance(inner, ast.Expr) and isinstance(inner.value, ast.Call) and isinstance(inner.value.func, ast.Attribute) \
                            and inner.value.func.attr == "append" and isinstance(inner.value.func.value, ast.Name) \
                            and inner.value.func.value.id == acc and len(inner.value.args) == 1:
                        app = _Subst(mapping).visit(copy.deepcopy(inner.value.args[0]))
                    else:
                        ok = False
                else:
                    ok = False
            if ok and app is not None:
                from .norm import _escapes
                if _escapes(loop, set(mapping) | {n.id for n in ast.walk(loop.target) if isinstance(n, ast.Name)}, total):
                    ok = False
            if ok and app is not None:
                comp = ast.ListComp(elt=app, generators=[ast.comprehension(target=loop.target, iter=loop.iter, ifs=[cond] if cond is not None else [], is_async=0)])
                new = ast.Assign(targets=[ast.Name(id=acc, ctx=ast.Store())], value=comp)
                ast.copy_location(new, loop)
                ast.fix_missing_locations(new)
                out.append(new)
                i += 2
                continue
        out.append(s)
        i += 1
    return out


def normalise_loops(stmts: list[ast.stmt]) -> list[ast.stmt]:
    """apply loops_to_comps to a statement list and, recursively, to every nested block (on a copy)"""
    import copy
    stmts = [copy.deepcopy(s) for s in stmts]
    from .norm import _loads
    total = _loads(stmts)

    def rec(block):
        block = loops_to_comps(block, total)
        for s in block:
            for fld in ("body", "orelse", "finalbody"):
                b = getattr(s, fld, None)
                if isinstance(b, list) and b and isinstance(b[0], ast.stmt):
                    setattr(s, fld, rec(b))
            if isinstance(s, ast.Match):
                for c in s.cases:
                    c.body = rec(c.body)
            if isinstance(s, ast.Try):
                for h in s.handlers:
                    h.body = rec(h.body)
        return block
    return rec(stmts)
