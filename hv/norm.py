"""Behaviour-preserving canonicalisation of function bodies, shared by the checkers.

Every step maps a function body to one with the same behaviour, so that a rule stated over the canonical form is
insensitive to the corresponding refactoring:

  inline_helpers   `self._h(a, b)` / `_h(a, b)`  ->  body of the private helper, parameters bound (extract-method)
  loops_to_comps   accumulate loops               ->  list / dict / set comprehensions (loop vs comprehension)
  forward_subst    pure single-name temporaries   ->  their defining expression (introduce/rename local)
  positional       keyword arguments of a call    ->  the callee's parameter order (keyword vs positional)

All work on deep copies; positions (lineno) of the original nodes are kept for reports.
"""
from __future__ import annotations

import ast
import copy

from .model import real_body, u

PURE_FUNCS = {"set", "frozenset", "len", "dict", "list", "tuple", "sorted", "int", "str", "bool", "isinstance", "range", "enumerate", "zip",
              "min", "max", "sum", "any", "all", "reversed", "iter", "issubclass", "hasattr", "type", "abs", "float", "callable", "divmod", "round",
              "ord", "chr", "bytes", "repr", "id", "replace"}      # (dataclasses.replace builds a new object)
PURE_METHODS = {"values", "items", "keys", "get", "copy", "groups", "group", "startswith", "endswith", "join", "index", "count", "inp", "out"}


class _Subst(ast.NodeTransformer):
    def __init__(self, mapping):
        self.mapping = mapping

    def visit_Name(self, node):
        if isinstance(node.ctx, ast.Load) and node.id in self.mapping:
            return copy.deepcopy(self.mapping[node.id])
        return node

    # comprehension / lambda variables shadow
    def _shadow(self, node, names):
        saved = {n: self.mapping.pop(n) for n in names if n in self.mapping}
        self.generic_visit(node)
        self.mapping.update(saved)
        return node

    def visit_Lambda(self, node):
        return self._shadow(node, [a.arg for a in node.args.args])

    def _comp(self, node):
        names = [n.id for g in node.generators for n in ast.walk(g.target) if isinstance(n, ast.Name)]
        # the first iterable is evaluated in the enclosing scope
        first = node.generators[0]
        first.iter = self.visit(first.iter)
        saved = {n: self.mapping.pop(n) for n in names if n in self.mapping}
        for i, g in enumerate(node.generators):
            if i:
                g.iter = self.visit(g.iter)
            g.ifs = [self.visit(x) for x in g.ifs]
        for f in ("elt", "key", "value"):
            if hasattr(node, f):
                setattr(node, f, self.visit(getattr(node, f)))
        self.mapping.update(saved)
        return node

    visit_ListComp = visit_SetComp = visit_DictComp = visit_GeneratorExp = _comp


def subst(node, mapping):
    return _Subst(dict(mapping)).visit(copy.deepcopy(node))


def is_pure(e: ast.AST, pure_calls=()) -> bool:
    """syntactically effect-free (conservative): no calls except whitelisted builtins / read-only methods"""
    for n in ast.walk(e):
        if isinstance(n, ast.Call):
            f = n.func
            if isinstance(f, ast.Name) and (f.id in PURE_FUNCS or f.id in pure_calls):
                continue
            if isinstance(f, ast.Attribute) and (f.attr in PURE_METHODS or f.attr in pure_calls):
                continue
            return False
        if isinstance(n, (ast.NamedExpr, ast.Await, ast.Yield, ast.YieldFrom)):
            return False
    return True


def _assigned_names(stmts) -> set[str]:
    out = set()
    for s in stmts:
        for n in ast.walk(s):
            if isinstance(n, ast.Name) and isinstance(n.ctx, (ast.Store, ast.Del)):
                out.add(n.id)
            if isinstance(n, ast.arg):
                pass
    return out


def _writes_through(stmts, names: set[str]) -> bool:
    """does any statement mutate an object reachable from one of the names (store through subscript/attribute,
    augmented assignment, or a method call on it that is not read-only)"""
    for s in stmts:
        for n in ast.walk(s):
            if isinstance(n, (ast.Subscript, ast.Attribute)) and isinstance(n.ctx, (ast.Store, ast.Del)):
                if any(isinstance(x, ast.Name) and x.id in names for x in ast.walk(n.value)):
                    return True
            if isinstance(n, ast.AugAssign) and isinstance(n.target, ast.Name) and n.target.id in names:
                return True
            if isinstance(n, ast.Call) and isinstance(n.func, ast.Attribute) and n.func.attr not in PURE_METHODS:
                if any(isinstance(x, ast.Name) and x.id in names for x in ast.walk(n.func.value)):
                    return True
    return False


def is_reference(e) -> bool:
    """a path to an existing object: name, attribute chain, constant-indexed subscript"""
    if isinstance(e, ast.Name):
        return True
    if isinstance(e, ast.Attribute):
        return is_reference(e.value)
    if isinstance(e, ast.Subscript):
        return is_reference(e.value) and (isinstance(e.slice, ast.Constant) or is_reference(e.slice))
    return False


SCALAR_FUNCS = {"len", "int", "str", "bool", "isinstance", "min", "max", "sum", "any", "all", "float", "abs"}


# methods of the frozen handle classes that build another frozen handle (Node.inp / Node.out / Node.port, Wire.out_port on a port)
VALUE_HANDLE_METHODS = {"inp", "out", "port"}


def is_scalar(e) -> bool:
    """value semantics: evaluating it twice gives interchangeable results (numbers, booleans, strings built from references)"""
    if isinstance(e, ast.Constant):
        return True
    if isinstance(e, ast.Call):
        # a port handle made from a node handle (frozen value objects: two of them with the same content are interchangeable)
        if isinstance(e.func, ast.Attribute) and e.func.attr in VALUE_HANDLE_METHODS and not e.keywords and is_reference(e.func.value) \
                and all(is_scalar(a) or is_reference(a) for a in e.args):
            return True
        return isinstance(e.func, ast.Name) and e.func.id in SCALAR_FUNCS and not e.keywords and all(is_scalar(a) or is_reference(a) or _pure_arg(a) for a in e.args)
    if isinstance(e, ast.BinOp):
        return (is_scalar(e.left) or is_reference(e.left)) and (is_scalar(e.right) or is_reference(e.right)) and is_scalar_op(e)
    if isinstance(e, ast.UnaryOp):
        return is_scalar(e.operand) or is_reference(e.operand)
    if isinstance(e, ast.Compare):
        return all(is_scalar(x) or is_reference(x) for x in [e.left] + e.comparators)
    if isinstance(e, ast.BoolOp):
        return all(is_scalar(x) or is_reference(x) for x in e.values)
    return False


def is_scalar_op(e) -> bool:
    # `a + b` on lists builds a fresh list: only arithmetic whose operands are scalar counts
    return all(is_scalar(x) for x in (e.left, e.right))


def _pure_arg(a) -> bool:
    return is_pure(a) and not any(isinstance(n, ast.Call) and not (isinstance(n.func, ast.Name) and n.func.id in SCALAR_FUNCS) and not (isinstance(n.func, ast.Attribute) and n.func.attr in PURE_METHODS) for n in ast.walk(a))


# attribute names that no statement of the analysed program stores outside a constructor (set by Canon from the program):
# a method call on `a.b` can change what `a.b.c` contains, but not which object `a.b.c` is, when `c` is such a name
FINAL_ATTRS: set[str] = set()
_ALIASES: list[dict] = [{}]


def _attr_chain(e) -> list[str] | None:
    """['self', '_links', 'fwd'] for self._links.fwd; None if e is not a pure name/attribute chain"""
    out = []
    while isinstance(e, ast.Attribute):
        out.append(e.attr)
        e = e.value
    if not isinstance(e, ast.Name):
        return None
    out.append(e.id)
    return out[::-1]


def _survives_content_mutation(v, bases: set[str]) -> bool:
    ch = _attr_chain(v)
    if ch is None or len(ch) < 2:
        return False
    for i in range(1, len(ch)):
        if ".".join(ch[:i]) in bases and not all(a in FINAL_ATTRS for a in ch[i:]):
            return False
    return True


def _store_kill(env: dict, s: ast.AST) -> None:
    """drop bindings whose defining expression may evaluate differently after statement s: it reads an attribute
    that s stores, or indexes a container that s stores into / calls a non-read-only method on.  Locals that are aliases of
    an attribute chain (function-wide single assignment, _ALIASES) are expanded first on both sides."""
    aliases = _ALIASES[-1]
    if aliases and not isinstance(s, (ast.FunctionDef, ast.ClassDef)):
        s = _Subst(aliases).visit(copy.deepcopy(s))
    attrs, bases, attr_sites = set(), set(), set()
    for n in ast.walk(s):
        if isinstance(n, ast.Attribute) and isinstance(n.ctx, (ast.Store, ast.Del)):
            attrs.add(n.attr)
            attr_sites.add((ast.unparse(n.value), n.attr))
        if isinstance(n, ast.Subscript) and isinstance(n.ctx, (ast.Store, ast.Del)):
            bases.add(ast.unparse(n.value))
        if isinstance(n, ast.AugAssign):
            if isinstance(n.target, ast.Attribute):
                attrs.add(n.target.attr)
                attr_sites.add((ast.unparse(n.target.value), n.target.attr))
            bases.add(ast.unparse(n.target))
        if isinstance(n, ast.Call) and isinstance(n.func, ast.Attribute) and n.func.attr not in PURE_METHODS and not n.func.attr[:1].isupper():
            bases.add(ast.unparse(n.func.value))
    if not attrs and not bases:
        return
    for k in list(env):
        v = env[k]
        if aliases:
            v = _Subst(aliases).visit(copy.deepcopy(v))
        if not attr_sites and _survives_content_mutation(v, bases):
            continue
        for n in ast.walk(v):
            if isinstance(n, ast.Attribute) and (ast.unparse(n.value), n.attr) in attr_sites:
                del env[k]
                break
            if isinstance(n, ast.Subscript) and ast.unparse(n.value) in bases:
                del env[k]
                break
            if isinstance(n, ast.Call) and isinstance(n.func, ast.Attribute) and ast.unparse(n.func.value) in bases:
                del env[k]
                break
            if isinstance(n, (ast.Attribute, ast.Name)) and isinstance(getattr(n, "ctx", None), ast.Load) and ast.unparse(n) in bases and v is not n:
                # a value computed from a container that is mutated (len(xs), xs[-1], sorted(xs) ..)
                del env[k]
                break


def forward_subst(stmts: list[ast.stmt], pure_calls=(), keep: set[str] = frozenset()) -> list[ast.stmt]:
    """Replace reads of pure single-name temporaries by their definitions, in program order.

    A binding `x = E` is propagated while (i) E is syntactically pure, (ii) x is not rebound later in a nested block
    that does not dominate the use (handled by dropping x when a nested block assigns it), (iii) no free name of E is
    rebound and (iv) x itself is not mutated through (x.append, x[i] = ..).  The defining statement is kept (it is
    harmless), so nothing is lost when the substitution is partial."""
    stmts = [copy.deepcopy(s) for s in stmts]
    nreads: dict[str, int] = {}
    nstores: dict[str, int] = {}
    for s_ in stmts:
        for n in ast.walk(s_):
            if isinstance(n, ast.Name) and isinstance(n.ctx, ast.Load):
                nreads[n.id] = nreads.get(n.id, 0) + 1
            elif isinstance(n, ast.Name):
                nstores[n.id] = nstores.get(n.id, 0) + 1
    # locals bound once to an attribute chain over never-rebound roots: aliases, function-wide
    aliases = {}
    for s_ in stmts:
        for n in ast.walk(s_):
            if isinstance(n, ast.Assign) and len(n.targets) == 1 and isinstance(n.targets[0], ast.Name) and nstores.get(n.targets[0].id) == 1:
                ch = _attr_chain(n.value)
                if ch is not None and len(ch) >= 2 and nstores.get(ch[0], 0) == 0:
                    aliases[n.targets[0].id] = n.value
    _ALIASES.append(aliases)
    try:
        return _forward_subst(stmts, pure_calls, keep, nreads)
    finally:
        _ALIASES.pop()


def _leaves_function(block) -> bool:
    """every way through the block ends in return / raise"""
    if not block:
        return False
    s_ = block[-1]
    if isinstance(s_, (ast.Return, ast.Raise)):
        return True
    if isinstance(s_, ast.If):
        return bool(s_.orelse) and _leaves_function(s_.body) and _leaves_function(s_.orelse)
    return False


def _forward_subst(stmts, pure_calls, keep, nreads):

    def free(e):
        return {n.id for n in ast.walk(e) if isinstance(n, ast.Name)}

    def block(body, env):
        out = []
        for idx, s in enumerate(body):
            rest = body[idx + 1:]
            if isinstance(s, ast.Assign) and len(s.targets) == 1 and isinstance(s.targets[0], ast.Tuple) and isinstance(s.value, ast.Tuple) \
                    and len(s.targets[0].elts) == len(s.value.elts) and all(isinstance(t, ast.Name) for t in s.targets[0].elts) \
                    and not any(isinstance(v, ast.Starred) for v in s.value.elts):
                # a, b = (x, y): parallel binding of simple names
                vals = [_Subst(env).visit(v) for v in s.value.elts]
                s.value.elts = vals
                names = {t.id for t in s.targets[0].elts}
                _kill(env, names)
                _store_kill(env, s)
                for t, v in zip(s.targets[0].elts, vals):
                    if t.id not in keep and is_pure(v, pure_calls) and not (free(v) & names) and (is_reference(v) or is_scalar(v)):
                        env[t.id] = v
                out.append(s)
                continue
            if isinstance(s, (ast.Assign, ast.AnnAssign)) and (s.value is not None):
                s.value = _Subst(env).visit(s.value)
                tgts = s.targets if isinstance(s, ast.Assign) else [s.target]
                for t in tgts:
                    if not isinstance(t, ast.Name):
                        _visit_target(t, env)
                names = {n.id for t in tgts for n in ast.walk(t) if isinstance(n, ast.Name) and isinstance(n.ctx, ast.Store)}
                _kill(env, names)
                if len(tgts) == 1 and isinstance(tgts[0], ast.Name) and tgts[0].id not in keep and is_pure(s.value, pure_calls) \
                        and tgts[0].id not in free(s.value):
                    x = tgts[0].id
                    # an alias of an existing object can always be replaced by the path that reaches the object;
                    # a freshly built value only while nothing mutates it through the name
                    _store_kill(env, s)
                    if is_reference(s.value) or is_scalar(s.value) or (nreads.get(x, 0) <= 1 and not _writes_through(rest, {x})) \
                            or (_leaves_function(rest) and sum(1 for r_ in rest for n in ast.walk(r_) if isinstance(n, ast.Name) and n.id == x) == 1
                                and not _writes_through(rest, {x})):
                        # (.. or read once in what remains of a block that ends the function: the same temporary name in several arms)
                        env[x] = s.value
                else:
                    _store_kill(env, s)
                out.append(s)
                continue
            if isinstance(s, ast.AugAssign):
                s.value = _Subst(env).visit(s.value)
                _kill(env, {n.id for n in ast.walk(s.target) if isinstance(n, ast.Name)})
                _store_kill(env, s)
                out.append(s)
                continue
            if isinstance(s, ast.If):
                # the test and the first statement of either branch are evaluated before anything in the branches is stored:
                # the branches start from the bindings valid here (and kill as they go); what follows the `if` sees all its stores
                s.test = _Subst(env).visit(s.test)
                killed = _assigned_names(s.body + s.orelse)
                s.body = block(s.body, dict(env))
                s.orelse = block(s.orelse, dict(env))
                _kill(env, killed)
                _store_kill(env, s)
                out.append(s)
                continue
            if isinstance(s, ast.For):
                s.iter = _Subst(env).visit(s.iter)
            if not isinstance(s, (ast.FunctionDef, ast.ClassDef, ast.AsyncFunctionDef)) and hasattr(s, "body"):
                _store_kill(env, s)
            if isinstance(s, ast.While):
                # (the test is evaluated again after every iteration: what the body rebinds is unknown in it)
                killed = _assigned_names(s.body + s.orelse) | {n.target.id for n in ast.walk(s.test) if isinstance(n, ast.NamedExpr)}
                _kill(env, killed)
                s.test = _Subst(env).visit(s.test)
                s.body = block(s.body, dict(env))
                s.orelse = block(s.orelse, dict(env))
                _kill(env, killed)
                out.append(s)
                continue
            if isinstance(s, ast.For):
                killed = _assigned_names(s.body + s.orelse) | {n.id for n in ast.walk(s.target) if isinstance(n, ast.Name)}
                _kill(env, killed)
                s.body = block(s.body, dict(env))
                s.orelse = block(s.orelse, dict(env))
                out.append(s)
                continue
            if isinstance(s, ast.With):
                for it in s.items:
                    it.context_expr = _Subst(env).visit(it.context_expr)
                killed = _assigned_names(s.body) | {n.id for it in s.items if it.optional_vars is not None for n in ast.walk(it.optional_vars) if isinstance(n, ast.Name)}
                _kill(env, killed)
                s.body = block(s.body, env)
                out.append(s)
                continue
            if isinstance(s, ast.Try):
                killed = _assigned_names(s.body + s.orelse + s.finalbody + [x for h in s.handlers for x in h.body])
                _kill(env, killed)
                s.body = block(s.body, dict(env))
                for h in s.handlers:
                    h.body = block(h.body, dict(env))
                s.orelse = block(s.orelse, dict(env))
                s.finalbody = block(s.finalbody, dict(env))
                out.append(s)
                continue
            if isinstance(s, ast.Match):
                s.subject = _Subst(env).visit(s.subject)
                killed = set()
                for c in s.cases:
                    killed |= _assigned_names(c.body) | {n.name for n in ast.walk(c.pattern) if isinstance(n, (ast.MatchAs, ast.MatchStar)) and n.name}
                for c in s.cases:
                    e2 = dict(env)
                    _kill(e2, killed)
                    if c.guard is not None:
                        c.guard = _Subst(e2).visit(c.guard)
                    c.body = block(c.body, e2)
                _kill(env, killed)
                out.append(s)
                continue
            if isinstance(s, (ast.FunctionDef, ast.ClassDef, ast.AsyncFunctionDef)):
                out.append(s)
                continue
            # simple statements: Expr, Return, Raise, Assert, Delete ...
            s2 = _Subst(env).visit(s)
            # walrus targets anywhere in the statement kill bindings
            _kill(env, {n.target.id for n in ast.walk(s2) if isinstance(n, ast.NamedExpr)})
            _store_kill(env, s2)
            out.append(s2)
        return out

    def _visit_target(t, env):
        for f, v in ast.iter_fields(t):
            if isinstance(v, ast.expr):
                setattr(t, f, _Subst(env).visit(v))

    def _kill(env, names):
        for k in list(env):
            if k in names or (free(env[k]) & names):
                del env[k]

    res = block(stmts, {})
    for s in res:
        ast.fix_missing_locations(s)
    return res


# ---------------------------------------------------------------------------------------
def _loads(nodes):
    """the statements of the whole function: the context `_escapes` looks at"""
    return list(nodes)


def _escapes(loop: ast.For, names, root) -> bool:
    """a name bound by the loop (its target, a temporary of its body) is read outside the loop: a comprehension would not
    leave it bound, so the loop is kept.  Reads under another binder of the same name (a later loop's target, a comprehension
    variable, a parameter) are that binder's, not this loop's."""
    if root is None:
        return False
    names = set(names)
    found = []

    def targets(t):
        return {n.id for n in ast.walk(t) if isinstance(n, ast.Name)}

    def walk(n, shadow):
        if n is loop or found:
            return
        if isinstance(n, ast.Name):
            if isinstance(n.ctx, ast.Load) and n.id in names and n.id not in shadow:
                found.append(n)
            return
        if isinstance(n, ast.For):
            walk(n.iter, shadow)
            sh = shadow | (targets(n.target) & names)
            for x in n.body + n.orelse:
                walk(x, sh)
            return
        if isinstance(n, (ast.ListComp, ast.SetComp, ast.GeneratorExp, ast.DictComp)):
            sh = set(shadow)
            for g in n.generators:
                walk(g.iter, sh)
                sh |= targets(g.target) & names
                for c in g.ifs:
                    walk(c, sh)
            for e in ([n.key, n.value] if isinstance(n, ast.DictComp) else [n.elt]):
                walk(e, sh)
            return
        if isinstance(n, (ast.Lambda, ast.FunctionDef, ast.AsyncFunctionDef)):
            a = n.args
            sh = shadow | ({x.arg for x in a.posonlyargs + a.args + a.kwonlyargs} & names)
            for x in (n.body if isinstance(n.body, list) else [n.body]):
                walk(x, sh)
            return
        for c in ast.iter_child_nodes(n):
            walk(c, shadow)
    for st in root:
        walk(st, frozenset())
    return bool(found)


def lower_conditional_with(stmts: list[ast.stmt]) -> list[ast.stmt]:
    """with (A if c else B) as t: BODY   ->   if c: with A as t: BODY  else: with B as t: BODY       (also via a local bound just before)
       with nullcontext(E) as t: BODY    ->   t = E; BODY                                            (contextlib.nullcontext hands out E and does nothing else)"""
    out = []
    stmts = list(stmts)
    i = 0
    while i < len(stmts):
        s_ = stmts[i]
        nxt = stmts[i + 1] if i + 1 < len(stmts) else None
        # S = A if c else B ; with S as t:   (S read nowhere else)
        if isinstance(s_, ast.Assign) and len(s_.targets) == 1 and isinstance(s_.targets[0], ast.Name) and isinstance(s_.value, ast.IfExp) \
                and isinstance(nxt, ast.With) and len(nxt.items) == 1 and isinstance(nxt.items[0].context_expr, ast.Name) and nxt.items[0].context_expr.id == s_.targets[0].id:
            x = s_.targets[0].id
            reads = sum(1 for y in stmts for n in ast.walk(y) if isinstance(n, ast.Name) and n.id == x)
            if reads == 2:
                nxt.items[0].context_expr = s_.value
                i += 1
                continue
        for fld in ("body", "orelse", "finalbody"):
            b = getattr(s_, fld, None)
            if isinstance(b, list) and b and isinstance(b[0], ast.stmt) and not isinstance(s_, (ast.FunctionDef, ast.AsyncFunctionDef, ast.ClassDef)):
                setattr(s_, fld, lower_conditional_with(b))
        if isinstance(s_, ast.Try):
            for h in s_.handlers:
                h.body = lower_conditional_with(h.body)
        if isinstance(s_, ast.With) and len(s_.items) == 1:
            ce = s_.items[0].context_expr
            if isinstance(ce, ast.IfExp) and is_pure(ce.test):
                a, b = copy.deepcopy(s_), copy.deepcopy(s_)
                a.items[0].context_expr, b.items[0].context_expr = ce.body, ce.orelse
                new = ast.If(test=ce.test, body=lower_conditional_with([a]), orelse=lower_conditional_with([b]))
                ast.copy_location(new, s_)
                ast.fix_missing_locations(new)
                out.append(new)
                i += 1
                continue
            if isinstance(ce, ast.Call) and u(ce.func) in ("nullcontext", "contextlib.nullcontext") and len(ce.args) <= 1 and not ce.keywords:
                tv = s_.items[0].optional_vars
                pre = []
                if tv is not None and ce.args:
                    pre = [ast.Assign(targets=[tv], value=ce.args[0])]
                elif tv is not None:
                    pre = [ast.Assign(targets=[tv], value=ast.Constant(None))]
                elif ce.args and not is_pure(ce.args[0]):
                    pre = [ast.Expr(value=ce.args[0])]
                for x_ in pre:
                    ast.copy_location(x_, s_)
                    ast.fix_missing_locations(x_)
                out += pre + list(s_.body)
                i += 1
                continue
        out.append(s_)
        i += 1
    return out


def drop_loops_over_falsy(stmts: list[ast.stmt]) -> list[ast.stmt]:
    """if x: A else: B   --  inside B (x is falsy there and B does not rebind it first) `for v in x: ..` runs no iteration"""
    def strip(block, ref):
        out = []
        live = True
        for s_ in block:
            if live and isinstance(s_, ast.For) and u(s_.iter) == ref and not s_.orelse:
                continue
            if any(isinstance(n, ast.Name) and isinstance(n.ctx, (ast.Store, ast.Del)) and n.id == ref.split(".")[0].split("[")[0] for n in ast.walk(s_)):
                live = False
            out.append(s_)
        return out or [ast.Pass()]

    def rec(block):
        for s_ in block:
            for fld in ("body", "orelse", "finalbody"):
                b = getattr(s_, fld, None)
                if isinstance(b, list) and b and isinstance(b[0], ast.stmt) and not isinstance(s_, (ast.FunctionDef, ast.AsyncFunctionDef, ast.ClassDef)):
                    setattr(s_, fld, rec(b))
            if isinstance(s_, ast.Try):
                for h in s_.handlers:
                    h.body = rec(h.body)
            if isinstance(s_, ast.If):
                t, neg = s_.test, False
                while isinstance(t, ast.UnaryOp) and isinstance(t.op, ast.Not):
                    t, neg = t.operand, not neg
                if isinstance(t, ast.Call) and isinstance(t.func, ast.Name) and t.func.id == "bool" and len(t.args) == 1:
                    t = t.args[0]
                if isinstance(t, ast.Name):
                    if neg:
                        s_.body = strip(s_.body, t.id)
                    elif s_.orelse:
                        s_.orelse = strip(s_.orelse, t.id)
                        if all(isinstance(x, ast.Pass) for x in s_.orelse):
                            s_.orelse = []
        return block
    return rec(list(stmts))


def try_lookup_to_get(stmts: list[ast.stmt]) -> list[ast.stmt]:
    """try: t = X[k]  except KeyError: t = D         ->   t = X.get(k, D)          (Mapping.get is defined as exactly this)
       try: t = X[k]  except KeyError: return D ; return t    ->   return X.get(k, D)
       try: return X[k]  except KeyError: return D            ->   return X.get(k, D)
    D a constant; X.get(k, None) is written X.get(k)"""
    def get(x, k, d):
        args = [k] if isinstance(d, ast.Constant) and d.value is None else [k, d]
        return ast.Call(func=ast.Attribute(value=x, attr="get", ctx=ast.Load()), args=args, keywords=[])

    def only_keyerror(t):
        return len(t.handlers) == 1 and t.handlers[0].type is not None and u(t.handlers[0].type) == "KeyError" and not t.orelse and not t.finalbody

    out = []
    stmts = list(stmts)
    i = 0
    while i < len(stmts):
        s_ = stmts[i]
        for fld in ("body", "orelse", "finalbody"):
            b = getattr(s_, fld, None)
            if isinstance(b, list) and b and isinstance(b[0], ast.stmt) and not isinstance(s_, (ast.FunctionDef, ast.AsyncFunctionDef, ast.ClassDef)):
                setattr(s_, fld, try_lookup_to_get(b))
        if isinstance(s_, ast.Try):
            for h in s_.handlers:
                h.body = try_lookup_to_get(h.body)
        if isinstance(s_, ast.Try) and only_keyerror(s_) and len(s_.body) == 1 and len(s_.handlers[0].body) == 1:
            b0, h0 = s_.body[0], s_.handlers[0].body[0]
            sub = b0.value if isinstance(b0, (ast.Assign, ast.Return)) else None
            if isinstance(sub, ast.Subscript) and is_reference(sub.value) and is_pure(sub.slice) and not isinstance(sub.slice, ast.Slice):
                new = None
                step = 1
                if isinstance(b0, ast.Return) and isinstance(h0, ast.Return) and isinstance(h0.value or ast.Constant(None), ast.Constant):
                    new = ast.Return(value=get(sub.value, sub.slice, h0.value or ast.Constant(None)))
                elif isinstance(b0, ast.Assign) and len(b0.targets) == 1 and isinstance(b0.targets[0], ast.Name):
                    t = b0.targets[0].id
                    if isinstance(h0, ast.Assign) and len(h0.targets) == 1 and isinstance(h0.targets[0], ast.Name) and h0.targets[0].id == t and isinstance(h0.value, ast.Constant):
                        new = ast.Assign(targets=[ast.Name(id=t, ctx=ast.Store())], value=get(sub.value, sub.slice, h0.value))
                    elif isinstance(h0, ast.Return) and isinstance(h0.value or ast.Constant(None), ast.Constant) and i + 1 < len(stmts) \
                            and isinstance(stmts[i + 1], ast.Return) and isinstance(stmts[i + 1].value, ast.Name) and stmts[i + 1].value.id == t:
                        new = ast.Return(value=get(sub.value, sub.slice, h0.value or ast.Constant(None)))
                        step = 2
                if new is not None:
                    ast.copy_location(new, s_)
                    ast.fix_missing_locations(new)
                    out.append(new)
                    i += step
                    continue
        out.append(s_)
        i += 1
    return out


def default_then_override(stmts: list[ast.stmt]) -> list[ast.stmt]:
    """x = A; if c: x = B      ->      if c: x = B else: x = A        (A pure, evaluated only where it is kept; c reads x as A)"""
    out = []
    stmts = list(stmts)
    i = 0
    while i < len(stmts):
        s_ = stmts[i]
        for fld in ("body", "orelse", "finalbody"):
            b = getattr(s_, fld, None)
            if isinstance(b, list) and b and isinstance(b[0], ast.stmt) and not isinstance(s_, (ast.FunctionDef, ast.AsyncFunctionDef, ast.ClassDef)):
                setattr(s_, fld, default_then_override(b))
        if isinstance(s_, ast.Try):
            for h in s_.handlers:
                h.body = default_then_override(h.body)
        nxt = stmts[i + 1] if i + 1 < len(stmts) else None
        if isinstance(s_, ast.Assign) and len(s_.targets) == 1 and isinstance(s_.targets[0], ast.Name) and is_pure(s_.value) and isinstance(nxt, ast.If):
            x = s_.targets[0].id
            body = [y for y in nxt.body if not isinstance(y, ast.Pass)]
            orelse = [y for y in nxt.orelse if not isinstance(y, ast.Pass)]
            one = body if body and not orelse else (orelse if orelse and not body else None)
            if one is not None and len(one) == 1 and isinstance(one[0], ast.Assign) and len(one[0].targets) == 1 and isinstance(one[0].targets[0], ast.Name) \
                    and one[0].targets[0].id == x and not any(isinstance(n, ast.NamedExpr) for n in ast.walk(nxt.test)):
                # nested if-chains in `one` are left alone; the default must not be read by the override itself
                if not any(isinstance(n, ast.Name) and n.id == x for n in ast.walk(one[0].value)):
                    test = _Subst({x: s_.value}).visit(copy.deepcopy(nxt.test))
                    keep = ast.copy_location(ast.Assign(targets=[ast.Name(id=x, ctx=ast.Store())], value=s_.value), s_)
                    new = ast.If(test=test, body=(one if one is body else [keep]), orelse=([keep] if one is body else one))
                    ast.copy_location(new, nxt)
                    ast.fix_missing_locations(new)
                    out.append(new)
                    i += 2
                    continue
        out.append(s_)
        i += 1
    return out


def split_parallel_assign(stmts: list[ast.stmt]) -> list[ast.stmt]:
    """a, b = (E1, E2)  /  a, b = [E1, E2]   ->   a = E1; b = E2     when no Ei reads a name the statement binds (evaluation order kept)"""
    out = []
    for s_ in stmts:
        for fld in ("body", "orelse", "finalbody"):
            b = getattr(s_, fld, None)
            if isinstance(b, list) and b and isinstance(b[0], ast.stmt) and not isinstance(s_, (ast.FunctionDef, ast.AsyncFunctionDef, ast.ClassDef)):
                setattr(s_, fld, split_parallel_assign(b))
        if isinstance(s_, ast.Try):
            for h in s_.handlers:
                h.body = split_parallel_assign(h.body)
        if isinstance(s_, ast.Assign) and len(s_.targets) == 1 and isinstance(s_.targets[0], (ast.Tuple, ast.List)) and isinstance(s_.value, (ast.Tuple, ast.List)) \
                and len(s_.targets[0].elts) == 1 and len(s_.value.elts) == 1 and not isinstance(s_.targets[0].elts[0], ast.Starred) and not isinstance(s_.value.elts[0], ast.Starred):
            # (t,) = [v]   ->   t = v      (whatever t is: a name, a subscript, an attribute)
            out.append(ast.fix_missing_locations(ast.copy_location(ast.Assign(targets=[s_.targets[0].elts[0]], value=s_.value.elts[0]), s_)))
            continue
        if isinstance(s_, ast.Assign) and len(s_.targets) == 1 and isinstance(s_.targets[0], (ast.Tuple, ast.List)) and isinstance(s_.value, (ast.Tuple, ast.List)) \
                and len(s_.targets[0].elts) == len(s_.value.elts) and all(isinstance(t, ast.Name) for t in s_.targets[0].elts) \
                and not any(isinstance(v, ast.Starred) for v in s_.value.elts):
            names = {t.id for t in s_.targets[0].elts}
            if len(names) == len(s_.targets[0].elts) and not any(isinstance(n, ast.Name) and n.id in names for v in s_.value.elts for n in ast.walk(v)):
                for t, v in zip(s_.targets[0].elts, s_.value.elts):
                    out.append(ast.fix_missing_locations(ast.copy_location(ast.Assign(targets=[t], value=v), s_)))
                continue
        if isinstance(s_, ast.Assign) and len(s_.targets) == 1 and isinstance(s_.targets[0], (ast.Tuple, ast.List)) and isinstance(s_.value, (ast.Tuple, ast.List)) \
                and len(s_.targets[0].elts) == len(s_.value.elts) and all(isinstance(v, (ast.Name, ast.Constant)) for v in s_.value.elts) \
                and all(isinstance(t, (ast.Name, ast.Subscript, ast.Attribute)) and (isinstance(t, ast.Name) or is_reference(t.value)) for t in s_.targets[0].elts):
            # stores into containers / attributes with plain names on the right: a store cannot change what a name denotes
            bound = {t.id for t in s_.targets[0].elts if isinstance(t, ast.Name)}
            read = {v.id for v in s_.value.elts if isinstance(v, ast.Name)} | {n.id for t in s_.targets[0].elts if not isinstance(t, ast.Name) for n in ast.walk(t) if isinstance(n, ast.Name)}
            if not (bound & read):
                for t, v in zip(s_.targets[0].elts, s_.value.elts):
                    out.append(ast.fix_missing_locations(ast.copy_location(ast.Assign(targets=[t], value=v), s_)))
                continue
        out.append(s_)
    return out


def lower_reduce(stmts: list[ast.stmt]) -> list[ast.stmt]:
    """x = reduce(f, xs, init)  /  return reduce(f, xs, init)   ->   acc = init; for v in xs: acc = f(acc, v); x = acc / return acc
    (functools.reduce with an initial value, f a plain callable reference or a lambda)"""
    counter = [0]

    def lower(call):
        if not (isinstance(call, ast.Call) and u(call.func) in ("reduce", "functools.reduce") and len(call.args) == 3 and not call.keywords):
            return None
        f, xs, init = call.args
        if not (_attr_chain(f) is not None or isinstance(f, ast.Lambda)) or isinstance(xs, ast.Starred):
            return None
        counter[0] += 1
        acc, v = f"acc_r{counter[0]}", f"v_r{counter[0]}"
        step = ast.Call(func=f, args=[ast.Name(id=acc, ctx=ast.Load()), ast.Name(id=v, ctx=ast.Load())], keywords=[])
        pre = [ast.Assign(targets=[ast.Name(id=acc, ctx=ast.Store())], value=init),
               ast.For(target=ast.Name(id=v, ctx=ast.Store()), iter=xs, body=[ast.Assign(targets=[ast.Name(id=acc, ctx=ast.Store())], value=step)], orelse=[])]
        return pre, ast.Name(id=acc, ctx=ast.Load())

    def block(b):
        out = []
        for s_ in b:
            if isinstance(s_, (ast.Assign, ast.AnnAssign, ast.Return)) and s_.value is not None:
                r = lower(s_.value)
                if r is not None:
                    pre, val = r
                    s_.value = val
                    for x in pre:
                        ast.copy_location(x, s_)
                        ast.fix_missing_locations(x)
                    out += pre + [s_]
                    continue
            for fld in ("body", "orelse", "finalbody"):
                bb = getattr(s_, fld, None)
                if isinstance(bb, list) and bb and isinstance(bb[0], ast.stmt) and not isinstance(s_, (ast.FunctionDef, ast.AsyncFunctionDef, ast.ClassDef)):
                    setattr(s_, fld, block(bb))
            out.append(s_)
        return out
    if not any(isinstance(n, ast.Call) and u(n.func) in ("reduce", "functools.reduce") for s_ in stmts for n in ast.walk(s_)):
        return stmts
    return block(list(stmts))


def first_match_to_next(stmts: list[ast.stmt]) -> list[ast.stmt]:
    """for T in S: if C: return E   followed by   return D      ->      return next((E for T in S if C), D)
    (the first element passing the filter decides; D only when none does).  Function level: the loop is followed by the final return
    (or the end of the function, D = None)."""
    def conv(loop, default):
        if not isinstance(loop, ast.For) or loop.orelse or not loop.body:
            return None
        # pure temporaries of the iteration (`op = h[n].op`) are written in
        temps = {}
        body = list(loop.body)
        while len(body) > 1 and isinstance(body[0], ast.Assign) and len(body[0].targets) == 1 and isinstance(body[0].targets[0], ast.Name) \
                and is_pure(body[0].value) and body[0].targets[0].id not in temps:
            temps[body[0].targets[0].id] = _Subst(dict(temps)).visit(copy.deepcopy(body[0].value))
            body = body[1:]
        if len(body) != 1:
            return None
        if temps:
            tn = {n.id for n in ast.walk(loop.target) if isinstance(n, ast.Name)}
            if set(temps) & tn:
                return None
            body = [_Subst(dict(temps)).visit(copy.deepcopy(body[0]))]
        conds = []
        st = body[0]
        while isinstance(st, ast.If) and not st.orelse and len(st.body) == 1:
            conds.append(st.test)
            st = st.body[0]
        if not (isinstance(st, ast.Return) and st.value is not None and conds):
            return None
        if any(isinstance(n, (ast.Yield, ast.YieldFrom, ast.Await, ast.NamedExpr)) for n in ast.walk(loop)):
            return None
        gen = ast.GeneratorExp(elt=st.value, generators=[ast.comprehension(target=loop.target, iter=loop.iter, ifs=conds, is_async=0)])
        call = ast.Call(func=ast.Name(id="next", ctx=ast.Load()), args=[gen, default if default is not None else ast.Constant(None)], keywords=[])
        return ast.fix_missing_locations(ast.copy_location(ast.Return(value=call), loop))

    def tail(block, at_end):
        """block whose fall-through end is the end of the function when at_end"""
        if not block:
            return block
        block = list(block)
        if len(block) >= 2 and isinstance(block[-1], ast.Return) and isinstance(block[-2], ast.For) \
                and (block[-1].value is None or is_pure(block[-1].value)):
            r = conv(block[-2], block[-1].value)
            if r is not None:
                return block[:-2] + [r]
        if at_end and isinstance(block[-1], ast.For):
            r = conv(block[-1], None)
            if r is not None:
                return block[:-1] + [r]
        last = block[-1]
        if isinstance(last, ast.If):
            last.body = tail(last.body, at_end)
            last.orelse = tail(last.orelse, at_end)
        return block
    if any(isinstance(n, (ast.Yield, ast.YieldFrom)) for s_ in stmts for n in ast.walk(s_) if not isinstance(s_, (ast.FunctionDef, ast.ClassDef))):
        return stmts
    return tail(stmts, True)


def _one_sided_rebind(st: ast.If, acc, mapping, loop):
    """(x, value, positive) for `if c: x = A` / `if c: pass else: x = A` where x is bound before (loop target name or temporary)"""
    body = [b for b in st.body if not isinstance(b, ast.Pass)]
    orelse = [b for b in st.orelse if not isinstance(b, ast.Pass)]
    if body and orelse or not (body or orelse):
        return None
    blk = body or orelse
    if len(blk) != 1 or not (isinstance(blk[0], ast.Assign) and len(blk[0].targets) == 1 and isinstance(blk[0].targets[0], ast.Name)):
        return None
    x = blk[0].targets[0].id
    bound = set(mapping) | ({loop.target.id} if isinstance(loop.target, ast.Name) else {e.id for e in getattr(loop.target, "elts", []) if isinstance(e, ast.Name)})
    if x == acc or x not in bound:
        return None
    return x, blk[0].value, bool(body)


def loops_to_comps(body: list[ast.stmt], total: dict[str, int] | None = None) -> list[ast.stmt]:
    """accumulate loops -> comprehensions (list.append / dict[k] = v / set.add), one level"""
    out: list[ast.stmt] = []
    i = 0
    body = list(body)
    while i < len(body):
        s = body[i]
        acc = kind = None
        val = s.value if isinstance(s, (ast.Assign, ast.AnnAssign)) else None
        tgt = None
        if isinstance(s, ast.Assign) and len(s.targets) == 1 and isinstance(s.targets[0], ast.Name):
            tgt = s.targets[0].id
        if isinstance(s, ast.AnnAssign) and isinstance(s.target, ast.Name):
            tgt = s.target.id
        if tgt and val is not None:
            if isinstance(val, ast.List) and not val.elts or (isinstance(val, ast.Call) and u(val.func) == "list" and not val.args):
                acc, kind = tgt, "list"
            elif isinstance(val, ast.Dict) and not val.keys or (isinstance(val, ast.Call) and u(val.func) == "dict" and not val.args and not val.keywords):
                acc, kind = tgt, "dict"
            elif isinstance(val, ast.Call) and u(val.func) == "set" and not val.args:
                acc, kind = tgt, "set"
            elif isinstance(val, ast.Call) and u(val.func).split(".")[-1] == "Counter" and not val.args and not val.keywords:
                acc, kind = tgt, "counter"
        if acc and i + 1 < len(body) and isinstance(body[i + 1], ast.For) and not body[i + 1].orelse:
            loop = body[i + 1]
            mapping: dict[str, ast.expr] = {}
            stmts = list(loop.body)
            ok = bool(stmts)
            cond = None
            elt = None
            extra_gens: list = []
            for j, st in enumerate(stmts):
                if isinstance(st, ast.Assign) and len(st.targets) == 1 and isinstance(st.targets[0], ast.Name) and j < len(stmts) - 1 \
                        and st.targets[0].id != acc:
                    mapping[st.targets[0].id] = _Subst(mapping).visit(copy.deepcopy(st.value))
                elif isinstance(st, ast.Assign) and len(st.targets) == 1 and isinstance(st.targets[0], ast.Tuple) and isinstance(st.value, ast.Tuple) \
                        and len(st.targets[0].elts) == len(st.value.elts) and all(isinstance(e, ast.Name) for e in st.targets[0].elts) and j < len(stmts) - 1:
                    vals = [_Subst(mapping).visit(copy.deepcopy(v)) for v in st.value.elts]
                    for e, v in zip(st.targets[0].elts, vals):
                        mapping[e.id] = v
                elif isinstance(st, ast.If) and j < len(stmts) - 1 and len(st.body) == 1 and len(st.orelse) == 1 \
                        and all(isinstance(b_, ast.Assign) and len(b_.targets) == 1 and isinstance(b_.targets[0], ast.Name) for b_ in (st.body[0], st.orelse[0])) \
                        and st.body[0].targets[0].id == st.orelse[0].targets[0].id and st.body[0].targets[0].id != acc:
                    # if c: x = A else: x = B   ->   x := A if c else B
                    mapping[st.body[0].targets[0].id] = ast.IfExp(test=_Subst(mapping).visit(copy.deepcopy(st.test)),
                                                                   body=_Subst(mapping).visit(copy.deepcopy(st.body[0].value)),
                                                                   orelse=_Subst(mapping).visit(copy.deepcopy(st.orelse[0].value)))
                elif isinstance(st, ast.If) and j < len(stmts) - 1 and _one_sided_rebind(st, acc, mapping, loop) is not None:
                    # if c: x = A     (x the loop variable or an earlier temporary)   ->   x := A if c else x
                    x_, val_, positive = _one_sided_rebind(st, acc, mapping, loop)
                    prev = mapping.get(x_, ast.Name(id=x_, ctx=ast.Load()))
                    new_v = _Subst(mapping).visit(copy.deepcopy(val_))
                    test_ = _Subst(mapping).visit(copy.deepcopy(st.test))
                    mapping[x_] = ast.IfExp(test=test_, body=new_v if positive else copy.deepcopy(prev), orelse=copy.deepcopy(prev) if positive else new_v)
                elif j == len(stmts) - 1:
                    inner = st
                    if isinstance(st, ast.If) and not st.orelse and len(st.body) == 1:
                        cond = _Subst(mapping).visit(copy.deepcopy(st.test))
                        inner = st.body[0]
                    if kind in ("list", "set") and isinstance(inner, ast.Expr) and isinstance(inner.value, ast.Call) \
                            and isinstance(inner.value.func, ast.Attribute) and inner.value.func.attr == ("append" if kind == "list" else "add") \
                            and isinstance(inner.value.func.value, ast.Name) and inner.value.func.value.id == acc and len(inner.value.args) == 1:
                        elt = _Subst(mapping).visit(copy.deepcopy(inner.value.args[0]))
                    elif kind == "list" and ((isinstance(inner, ast.AugAssign) and isinstance(inner.op, ast.Add) and isinstance(inner.target, ast.Name)
                                              and inner.target.id == acc and isinstance(inner.value, ast.ListComp))
                                             or (isinstance(inner, ast.Expr) and isinstance(inner.value, ast.Call) and isinstance(inner.value.func, ast.Attribute)
                                                 and inner.value.func.attr == "extend" and isinstance(inner.value.func.value, ast.Name)
                                                 and inner.value.func.value.id == acc and len(inner.value.args) == 1
                                                 and isinstance(inner.value.args[0], (ast.ListComp, ast.GeneratorExp)))):
                        # acc += [E for w in v]  inside  for v in S  ->  [E for v in S for w in v]
                        comp_ = _Subst(mapping).visit(copy.deepcopy(inner.value if isinstance(inner, ast.AugAssign) else inner.value.args[0]))
                        elt = comp_.elt
                        extra_gens = list(comp_.generators)
                    elif kind == "counter" and isinstance(inner, ast.AugAssign) and isinstance(inner.op, ast.Add) and isinstance(inner.value, ast.Constant) \
                            and inner.value.value == 1 and isinstance(inner.target, ast.Subscript) and isinstance(inner.target.value, ast.Name) \
                            and inner.target.value.id == acc:
                        elt = _Subst(mapping).visit(copy.deepcopy(inner.target.slice))
                    elif kind == "dict" and isinstance(inner, ast.Assign) and len(inner.targets) == 1 and isinstance(inner.targets[0], ast.Subscript) \
                            and isinstance(inner.targets[0].value, ast.Name) and inner.targets[0].value.id == acc:
                        elt = (_Subst(mapping).visit(copy.deepcopy(inner.targets[0].slice)), _Subst(mapping).visit(copy.deepcopy(inner.value)))
                    else:
                        ok = False
                else:
                    ok = False
            # an impure temporary that the filter also reads is evaluated once: keep it as a walrus in the filter
            if ok and elt is not None and isinstance(stmts[-1], ast.If) and kind in ("list", "set"):
                raw_cond = stmts[-1].test
                raw_elt = stmts[-1].body[0].value.args[0] if isinstance(stmts[-1].body[0], ast.Expr) else None
                shared = [k for k, v in mapping.items() if not is_pure(v) and any(isinstance(n, ast.Name) and n.id == k for n in ast.walk(raw_cond))]
                if shared and raw_elt is not None:
                    m2 = {k: v for k, v in mapping.items() if k not in shared}

                    class _W(ast.NodeTransformer):
                        def __init__(self):
                            self.done = set()

                        def visit_Name(self, node):
                            if isinstance(node.ctx, ast.Load) and node.id in shared and node.id not in self.done:
                                self.done.add(node.id)
                                return ast.NamedExpr(target=ast.Name(id=node.id, ctx=ast.Store()), value=_Subst(m2).visit(copy.deepcopy(mapping[node.id])))
                            return node
                    cond = _W().visit(_Subst(m2).visit(copy.deepcopy(raw_cond)))
                    elt = _Subst(m2).visit(copy.deepcopy(raw_elt))
            # the accumulator must not be read inside the loop
            if ok and elt is not None:
                reads = [n for st in stmts for n in ast.walk(st) if isinstance(n, ast.Name) and n.id == acc and isinstance(n.ctx, ast.Load)]
                if len(reads) != (0 if extra_gens and isinstance(stmts[-1] if not isinstance(stmts[-1], ast.If) else stmts[-1].body[0], ast.AugAssign) else 1):
                    ok = False
            if ok and elt is not None and _escapes(loop, set(mapping) | {n.id for n in ast.walk(loop.target) if isinstance(n, ast.Name)}, total):
                ok = False
            if ok and elt is not None:
                gen = [ast.comprehension(target=loop.target, iter=loop.iter, ifs=[cond] if cond is not None else [], is_async=0)] + extra_gens
                if kind == "counter":
                    comp = ast.Call(func=copy.deepcopy(val.func), args=[ast.GeneratorExp(elt=elt, generators=gen)], keywords=[])
                elif kind == "list":
                    comp = ast.ListComp(elt=elt, generators=gen)
                elif kind == "set":
                    comp = ast.SetComp(elt=elt, generators=gen)
                else:
                    comp = ast.DictComp(key=elt[0], value=elt[1], generators=gen)
                new = ast.Assign(targets=[ast.Name(id=acc, ctx=ast.Store())], value=comp)
                ast.copy_location(new, loop)
                ast.fix_missing_locations(new)
                out.append(new)
                i += 2
                continue
        ext = _extend_loop(s, total)
        out.append(ext if ext is not None else s)
        i += 1
    return out


def _extend_loop(loop, total=None):
    """for v in S: [x = E1;] [if C:] acc.append(E)   (acc built elsewhere)   ->   acc += [E for v in S if C]"""
    if not isinstance(loop, ast.For) or loop.orelse or not loop.body:
        return None
    mapping: dict[str, ast.expr] = {}
    stmts = list(loop.body)
    for j, st in enumerate(stmts[:-1]):
        if isinstance(st, ast.Assign) and len(st.targets) == 1 and isinstance(st.targets[0], ast.Name):
            mapping[st.targets[0].id] = _Subst(mapping).visit(copy.deepcopy(st.value))
        else:
            return None
    last = stmts[-1]
    cond = None
    inner = last
    if isinstance(last, ast.If):
        if len(last.body) == 1 and not last.orelse:
            cond, inner = last.test, last.body[0]
        elif all(isinstance(x, ast.Pass) for x in last.body) and len(last.orelse) == 1:
            cond, inner = ast.UnaryOp(op=ast.Not(), operand=last.test), last.orelse[0]
        else:
            return None
    if not (isinstance(inner, ast.Expr) and isinstance(inner.value, ast.Call) and isinstance(inner.value.func, ast.Attribute) and inner.value.func.attr == "append"
            and isinstance(inner.value.func.value, ast.Name) and len(inner.value.args) == 1 and not inner.value.keywords):
        return None
    acc = inner.value.func.value.id
    loopvars = {n.id for n in ast.walk(loop.target) if isinstance(n, ast.Name)}
    if acc in loopvars or acc in mapping or _escapes(loop, loopvars | set(mapping), total):
        return None
    elt = _Subst(mapping).visit(copy.deepcopy(inner.value.args[0]))
    c2 = _Subst(mapping).visit(copy.deepcopy(cond)) if cond is not None else None
    if any(isinstance(n, ast.Name) and n.id == acc for x in ([elt] + ([c2] if c2 is not None else []) + [loop.iter]) for n in ast.walk(x)):
        return None
    comp = ast.ListComp(elt=elt, generators=[ast.comprehension(target=loop.target, iter=loop.iter, ifs=[c2] if c2 is not None else [], is_async=0)])
    new = ast.AugAssign(target=ast.Name(id=acc, ctx=ast.Store()), op=ast.Add(), value=comp)
    ast.copy_location(new, loop)
    ast.fix_missing_locations(new)
    return new


def counter_to_enumerate(block: list[ast.stmt], root) -> list[ast.stmt]:
    """c = K; for T in S: BODY; c += 1   ->   for c, T in enumerate(S[, K]): BODY      (c an int counter touched nowhere else, not read
    after the loop; BODY without `continue`, so that the increment is reached on every iteration)"""
    out: list[ast.stmt] = []
    i = 0
    while i < len(block):
        s = block[i]
        nxt = block[i + 1] if i + 1 < len(block) else None
        if isinstance(s, ast.Assign) and len(s.targets) == 1 and isinstance(s.targets[0], ast.Name) and isinstance(s.value, ast.Constant) \
                and type(s.value.value) is int and isinstance(nxt, ast.For) and not nxt.orelse and len(nxt.body) >= 2:
            c = s.targets[0].id
            last = nxt.body[-1]
            body = nxt.body[:-1]
            if isinstance(last, ast.AugAssign) and isinstance(last.op, ast.Add) and isinstance(last.target, ast.Name) and last.target.id == c \
                    and isinstance(last.value, ast.Constant) and last.value.value == 1 \
                    and c not in _assigned_names(body) and c not in {n.id for n in ast.walk(nxt.target) if isinstance(n, ast.Name)} \
                    and not any(isinstance(n, ast.Name) and n.id == c for n in ast.walk(nxt.iter)) \
                    and not any(isinstance(n, ast.Continue) for b_ in body for n in ast.walk(b_)) and not _escapes(nxt, {c}, root):
                args = [nxt.iter] + ([ast.Constant(s.value.value)] if s.value.value != 0 else [])
                new = ast.For(target=ast.Tuple(elts=[ast.Name(id=c, ctx=ast.Store()), nxt.target], ctx=ast.Store()),
                              iter=ast.Call(func=ast.Name(id="enumerate", ctx=ast.Load()), args=args, keywords=[]), body=body, orelse=[], type_comment=None)
                ast.copy_location(new, nxt)
                ast.fix_missing_locations(new)
                out.append(new)
                i += 2
                continue
        out.append(s)
        i += 1
    return out


def destructure_loop_target(block: list[ast.stmt], root) -> list[ast.stmt]:
    """for x in S: a, b = x; BODY   ->   for a, b in S: BODY      (x read nowhere else)"""
    out = []
    for s in block:
        if isinstance(s, ast.For) and isinstance(s.target, ast.Name) and s.body and isinstance(s.body[0], ast.Assign) and len(s.body[0].targets) == 1 \
                and isinstance(s.body[0].targets[0], (ast.Tuple, ast.List)) and isinstance(s.body[0].value, ast.Name) and s.body[0].value.id == s.target.id \
                and all(isinstance(e, ast.Name) for e in s.body[0].targets[0].elts) and len(s.body) >= 2:
            x = s.target.id
            reads = sum(1 for n in ast.walk(s) if isinstance(n, ast.Name) and n.id == x and isinstance(n.ctx, ast.Load))
            stores = sum(1 for n in ast.walk(s) if isinstance(n, ast.Name) and n.id == x and not isinstance(n.ctx, ast.Load))
            if reads == 1 and stores == 1 and not _escapes(s, {x}, root):
                new = ast.For(target=ast.Tuple(elts=[ast.Name(id=e.id, ctx=ast.Store()) for e in s.body[0].targets[0].elts], ctx=ast.Store()),
                              iter=s.iter, body=s.body[1:], orelse=s.orelse, type_comment=None)
                ast.copy_location(new, s)
                ast.fix_missing_locations(new)
                out.append(new)
                continue
        out.append(s)
    return out


def split_accumulator_loops(stmts: list[ast.stmt]) -> list[ast.stmt]:
    """a = []; b = []                                       a = []
       for T in X:                                          for T in X: if c: a.append(E)  else: a.append(G)
           if c: a.append(E); b.append(F)           ->      b = []
           else: a.append(G)                                for T in X: if c: b.append(F)
    one loop filling several lists is one loop per list, when the rounds do not depend on each other: every statement of the body
    is an append to one of the lists (under tests that only compute), the lists are read nowhere in the loop, and the elements of
    all lists but one are made of the loop variables and constants alone (so that running their rounds after all rounds of the
    other list computes the same).  X is read once per list, as the two-loop spelling of the same method does."""
    def only_appends(body, accs):
        for s_ in body:
            if isinstance(s_, ast.Expr) and isinstance(s_.value, ast.Call) and isinstance(s_.value.func, ast.Attribute) and s_.value.func.attr == "append" \
                    and isinstance(s_.value.func.value, ast.Name) and s_.value.func.value.id in accs and len(s_.value.args) == 1 and not s_.value.keywords \
                    and not isinstance(s_.value.args[0], ast.Starred):
                continue
            if isinstance(s_, ast.If) and is_pure(s_.test) and only_appends(s_.body, accs) and only_appends(s_.orelse, accs):
                continue
            return False
        return True

    def elements(body, acc):
        out = []
        for s_ in body:
            if isinstance(s_, ast.If):
                out += elements(s_.body, acc) + elements(s_.orelse, acc)
            elif s_.value.func.value.id == acc:
                out.append(s_.value.args[0])
        return out

    def restrict(body, acc):
        out = []
        for s_ in body:
            if isinstance(s_, ast.If):
                b_, o_ = restrict(s_.body, acc), restrict(s_.orelse, acc)
                if b_:
                    out.append(ast.copy_location(ast.If(test=copy.deepcopy(s_.test), body=b_, orelse=o_), s_))
                elif o_:
                    out.append(ast.copy_location(ast.If(test=ast.UnaryOp(op=ast.Not(), operand=copy.deepcopy(s_.test)), body=o_, orelse=[]), s_))
            elif s_.value.func.value.id == acc:
                out.append(copy.deepcopy(s_))
        return out

    def block(b):
        b = list(b)
        for s_ in b:
            if isinstance(s_, (ast.FunctionDef, ast.AsyncFunctionDef, ast.ClassDef)):
                continue
            for fld in ("body", "orelse", "finalbody"):
                bb = getattr(s_, fld, None)
                if isinstance(bb, list) and bb and isinstance(bb[0], ast.stmt):
                    setattr(s_, fld, block(bb))
            if isinstance(s_, ast.Try):
                for h in s_.handlers:
                    h.body = block(h.body)
        out = []
        i = 0
        while i < len(b):
            s_ = b[i]
            if isinstance(s_, ast.For) and not s_.orelse and is_pure(s_.iter):
                # the run of `x = []` straight before the loop
                j = i
                accs = []
                while j > 0 and isinstance(b[j - 1], ast.Assign) and len(b[j - 1].targets) == 1 and isinstance(b[j - 1].targets[0], ast.Name) \
                        and isinstance(b[j - 1].value, ast.List) and not b[j - 1].value.elts:
                    j -= 1
                    accs.insert(0, b[j].targets[0].id)
                tv = {n.id for n in ast.walk(s_.target) if isinstance(n, ast.Name)}
                if len(accs) >= 2 and len(set(accs)) == len(accs) and only_appends(s_.body, set(accs)) and not (set(accs) & tv):
                    used = [a for a in accs if elements(s_.body, a)]
                    reads = {n.id for x in s_.body for n in ast.walk(x) if isinstance(n, ast.Name) and isinstance(n.ctx, ast.Load)}
                    recv = sum(1 for x in s_.body for n in ast.walk(x) if isinstance(n, ast.Name) and n.id in accs)
                    napp = sum(len(elements(s_.body, a)) for a in accs)

                    def plain(e):
                        return all(isinstance(n, (ast.Tuple, ast.Constant, ast.Load, ast.Name)) and (not isinstance(n, ast.Name) or n.id in tv) for n in ast.walk(e))
                    rich = [a for a in used if not all(plain(e) for e in elements(s_.body, a))]
                    if len(used) >= 2 and recv == napp and len(rich) <= 1 and not (tv & _assigned_names(s_.body)):
                        keep = out[:len(out) - (i - j)]
                        inits = {b[k].targets[0].id: b[k] for k in range(j, i)}
                        new = []
                        for a in accs:
                            new.append(inits[a])
                            if a in used:
                                lp = ast.copy_location(ast.For(target=copy.deepcopy(s_.target), iter=copy.deepcopy(s_.iter), body=restrict(s_.body, a), orelse=[]), s_)
                                new.append(ast.fix_missing_locations(lp))
                        out = keep + new
                        i += 1
                        continue
            out.append(s_)
            i += 1
        return out
    if not any(isinstance(n, ast.For) for s_ in stmts for n in ast.walk(s_)):
        return stmts
    return block(stmts)


def merge_append_arms(stmts: list[ast.stmt]) -> list[ast.stmt]:
    """if c: a.append(E) else: a.append(G)  ->  a.append(E if c else G);     for i, x in enumerate(X) with i never read  ->  for x in X"""
    def is_append(s_):
        return isinstance(s_, ast.Expr) and isinstance(s_.value, ast.Call) and isinstance(s_.value.func, ast.Attribute) and s_.value.func.attr == "append" \
            and isinstance(s_.value.func.value, ast.Name) and len(s_.value.args) == 1 and not s_.value.keywords and not isinstance(s_.value.args[0], ast.Starred)

    def block(b):
        out = []
        for s_ in b:
            if isinstance(s_, (ast.FunctionDef, ast.AsyncFunctionDef, ast.ClassDef)):
                out.append(s_)
                continue
            for fld in ("body", "orelse", "finalbody"):
                bb = getattr(s_, fld, None)
                if isinstance(bb, list) and bb and isinstance(bb[0], ast.stmt):
                    setattr(s_, fld, block(bb))
            if isinstance(s_, ast.Try):
                for h in s_.handlers:
                    h.body = block(h.body)
            if isinstance(s_, ast.If) and len(s_.body) == 1 and len(s_.orelse) == 1 and is_append(s_.body[0]) and is_append(s_.orelse[0]) \
                    and s_.body[0].value.func.value.id == s_.orelse[0].value.func.value.id \
                    and not any(isinstance(n, ast.Name) and n.id == s_.body[0].value.func.value.id for n in ast.walk(s_.test)):
                call = copy.deepcopy(s_.body[0])
                call.value.args = [ast.IfExp(test=s_.test, body=s_.body[0].value.args[0], orelse=s_.orelse[0].value.args[0])]
                out.append(ast.fix_missing_locations(ast.copy_location(call, s_)))
                continue
            if isinstance(s_, ast.For) and isinstance(s_.iter, ast.Call) and isinstance(s_.iter.func, ast.Name) and s_.iter.func.id == "enumerate" \
                    and len(s_.iter.args) == 1 and not s_.iter.keywords and isinstance(s_.target, ast.Tuple) and len(s_.target.elts) == 2 \
                    and isinstance(s_.target.elts[0], ast.Name):
                ix = s_.target.elts[0].id
                later = False        # (the index is read nowhere: not in the loop, not after it)
                if not any(isinstance(n, ast.Name) and n.id == ix for x in s_.body + s_.orelse for n in ast.walk(x)) and not any(
                        isinstance(n, ast.Name) and n.id == ix and isinstance(n.ctx, ast.Load) for x in stmts for n in ast.walk(x)):
                    s_.target, s_.iter = s_.target.elts[1], s_.iter.args[0]
            out.append(s_)
        return out
    if not any(isinstance(n, ast.For) for s_ in stmts for n in ast.walk(s_)):
        return stmts
    return block(stmts)


def recompute_carried_locals(stmts: list[ast.stmt]) -> list[ast.stmt]:
    """v = E(x)                                          while (v := E(x)) ..T..:
       while ..T(v)..:                                       BODY
           BODY                                   ->         x = X'
           x, v = X', E(X')
    a local carried round the loop that is, at every test, E of another loop variable is E computed at the test.  Asked for: v is bound
    only before the loop and by the last statement of the body (together with x, to E with x := X'); the body only computes
    (no calls but isinstance / len, no stores through anything), so E(x) read at the test is E(x) read a statement earlier."""
    def quiet(b):
        for s_ in b:
            for n in ast.walk(s_):
                if isinstance(n, ast.Call) and not (isinstance(n.func, ast.Name) and n.func.id in ("isinstance", "len", "issubclass")):
                    return False
                if isinstance(n, (ast.Attribute, ast.Subscript)) and isinstance(n.ctx, (ast.Store, ast.Del)):
                    return False
                if isinstance(n, (ast.AugAssign, ast.Delete, ast.With, ast.Try, ast.For, ast.While, ast.Yield, ast.YieldFrom, ast.Await, ast.NamedExpr)):
                    return False
        return True

    def block(b):
        b = list(b)
        for s_ in b:
            if isinstance(s_, (ast.FunctionDef, ast.AsyncFunctionDef, ast.ClassDef)):
                continue
            for fld in ("body", "orelse", "finalbody"):
                bb = getattr(s_, fld, None)
                if isinstance(bb, list) and bb and isinstance(bb[0], ast.stmt):
                    setattr(s_, fld, block(bb))
        out = []
        for i, s_ in enumerate(b):
            prev = out[-1] if out else None
            if isinstance(s_, ast.While) and not s_.orelse and isinstance(prev, ast.Assign) and len(prev.targets) == 1 and isinstance(prev.targets[0], ast.Name) \
                    and s_.body and is_pure(prev.value) and is_pure(s_.test):
                v, E = prev.targets[0].id, prev.value
                # the one place where the body goes round: the end of the body, or of the arm of a trailing if / elif chain whose other arms leave
                leaf = s_.body

                def leaves_(blk):
                    if not blk:
                        return False
                    z = blk[-1]
                    if isinstance(z, (ast.Return, ast.Raise, ast.Break)):
                        return True
                    return isinstance(z, ast.If) and bool(z.orelse) and leaves_(z.body) and leaves_(z.orelse)
                while leaf and isinstance(leaf[-1], ast.If) and leaf[-1].orelse and (leaves_(leaf[-1].body) != leaves_(leaf[-1].orelse)):
                    leaf = leaf[-1].orelse if leaves_(leaf[-1].body) else leaf[-1].body
                last = leaf[-1] if leaf else None
                rest_quiet = last is not None and quiet([x for x in ast.walk(ast.Module(body=list(s_.body), type_ignores=[])) if isinstance(x, ast.stmt) and x is not last
                                                          and not isinstance(x, ast.If)] + [ast.Expr(value=x.test) for x in ast.walk(ast.Module(body=list(s_.body), type_ignores=[])) if isinstance(x, ast.If)])
                if not rest_quiet:
                    out.append(s_)
                    continue
                xs = [n.id for n in ast.walk(E) if isinstance(n, ast.Name)]
                if isinstance(last, ast.Assign) and len(last.targets) == 1 and isinstance(last.targets[0], ast.Tuple) and isinstance(last.value, ast.Tuple) \
                        and len(last.targets[0].elts) == 2 == len(last.value.elts) and all(isinstance(t, ast.Name) for t in last.targets[0].elts):
                    (t1, t2), (v1, v2) = last.targets[0].elts, last.value.elts
                    if t2.id != v and t1.id == v:
                        (t1, t2), (v1, v2) = (t2, t1), (v2, v1)
                    x = t1.id
                    # (temporaries of the round, bound once to something that only computes, are what they were bound to)
                    tmp = {}
                    for n in ast.walk(ast.Module(body=list(s_.body), type_ignores=[])):
                        if isinstance(n, ast.Assign) and n is not last and len(n.targets) == 1 and isinstance(n.targets[0], ast.Name) and is_pure(n.value):
                            nm = n.targets[0].id
                            if sum(1 for k in ast.walk(s_) if isinstance(k, ast.Name) and isinstance(k.ctx, ast.Store) and k.id == nm) == 1:
                                tmp[nm] = n.value
                    v2 = _Subst(dict(tmp)).visit(copy.deepcopy(v2))
                    if t2.id == v and x != v and xs.count(x) >= 1 and quiet([ast.Expr(value=v1), ast.Expr(value=v2)]) \
                            and sum(1 for n in ast.walk(s_) if isinstance(n, ast.Name) and isinstance(n.ctx, ast.Store) and n.id == v) == 1 \
                            and sum(1 for n in ast.walk(s_) if isinstance(n, ast.Name) and isinstance(n.ctx, ast.Store) and n.id == x) == 1 \
                            and not any(isinstance(n, ast.Continue) for n in ast.walk(s_)) \
                            and ast.dump(_Subst({x: v1}).visit(copy.deepcopy(E))) == ast.dump(v2) \
                            and any(isinstance(n, ast.Name) and n.id == v for n in ast.walk(s_.test)):
                        # reads of v after the loop see E(x) as of the failed test: keep a binding there
                        new_test = _Subst({v: ast.NamedExpr(target=ast.Name(id=v, ctx=ast.Store()), value=copy.deepcopy(E))}).visit(copy.deepcopy(s_.test)) \
                            if sum(1 for n in ast.walk(s_.test) if isinstance(n, ast.Name) and n.id == v) == 1 else None
                        if new_test is not None:
                            out.pop()
                            leaf[-1] = ast.copy_location(ast.Assign(targets=[ast.Name(id=x, ctx=ast.Store())], value=v1), last)
                            out.append(ast.fix_missing_locations(ast.copy_location(ast.While(test=new_test, body=s_.body, orelse=[]), s_)))
                            continue
            out.append(s_)
        return out
    if not any(isinstance(n, ast.While) for s_ in stmts for n in ast.walk(s_)):
        return stmts
    return block(stmts)


def normalise_loops(stmts: list[ast.stmt]) -> list[ast.stmt]:
    stmts = [copy.deepcopy(s) for s in stmts]
    stmts = recompute_carried_locals(merge_append_arms(split_accumulator_loops(stmts)))
    total = _loads(stmts)

    def rec(block):
        # inner blocks first: an inner accumulate loop becomes a comprehension before the outer loop is looked at
        for s in block:
            if isinstance(s, (ast.FunctionDef, ast.AsyncFunctionDef, ast.ClassDef)):
                continue
            for fld in ("body", "orelse", "finalbody"):
                b = getattr(s, fld, None)
                if isinstance(b, list) and b and isinstance(b[0], ast.stmt):
                    setattr(s, fld, rec(b))
            if isinstance(s, ast.Match):
                for c in s.cases:
                    c.body = rec(c.body)
            if isinstance(s, ast.Try):
                for h in s.handlers:
                    h.body = rec(h.body)
        return loops_to_comps(counter_to_enumerate(destructure_loop_target(block, total), total), total)
    return rec(stmts)


def multimap_idioms(stmts: list[ast.stmt]) -> list[ast.stmt]:
    """three spellings of "append v to the list filed under k":
         if k in d: d[k].append(v)  else: d[k] = [v]          d = defaultdict(list) .. d[k].append(v) .. dict(d)
         if k not in d: d[k] = []   ;  d[k].append(v)
       all become  d.setdefault(k, []).append(v)  on a plain dict (a local defaultdict(list) that is only indexed, tested and copied)"""
    stmts = list(stmts)

    def app(d, k, v):
        return ast.Expr(ast.Call(func=ast.Attribute(value=ast.Call(func=ast.Attribute(value=d, attr="setdefault", ctx=ast.Load()),
                                                                  args=[k, ast.List(elts=[], ctx=ast.Load())], keywords=[]), attr="append", ctx=ast.Load()),
                                 args=[v], keywords=[]))

    def is_append(x):
        """(d, k, v) when x is d[k].append(v)"""
        if isinstance(x, ast.Expr) and isinstance(x.value, ast.Call) and isinstance(x.value.func, ast.Attribute) and x.value.func.attr == "append" \
                and len(x.value.args) == 1 and not x.value.keywords and isinstance(x.value.func.value, ast.Subscript):
            return x.value.func.value.value, x.value.func.value.slice, x.value.args[0]
        return None

    def is_init(x, single):
        """(d, k, [v]) when x is d[k] = [v] (single) / d[k] = [] (not single)"""
        if isinstance(x, ast.Assign) and len(x.targets) == 1 and isinstance(x.targets[0], ast.Subscript) and isinstance(x.value, ast.List) \
                and len(x.value.elts) == (1 if single else 0):
            return x.targets[0].value, x.targets[0].slice, (x.value.elts[0] if single else None)
        return None

    def member(t):
        """(k, d, positive) when t is `k in d` / `k not in d`"""
        if isinstance(t, ast.Compare) and len(t.ops) == 1 and isinstance(t.ops[0], (ast.In, ast.NotIn)):
            return t.left, t.comparators[0], isinstance(t.ops[0], ast.In)
        if isinstance(t, ast.UnaryOp) and isinstance(t.op, ast.Not):
            m = member(t.operand)
            return (m[0], m[1], not m[2]) if m else None
        return None

    def block(b):
        out = []
        i = 0
        while i < len(b):
            x = b[i]
            for fld in ("body", "orelse", "finalbody"):
                bb = getattr(x, fld, None)
                if isinstance(bb, list) and bb and isinstance(bb[0], ast.stmt) and not isinstance(x, (ast.FunctionDef, ast.AsyncFunctionDef, ast.ClassDef)):
                    setattr(x, fld, block(bb))
            if isinstance(x, ast.Try):
                for h in x.handlers:
                    h.body = block(h.body)
            # try: d[k].append(v)  except KeyError: d[k] = [v]
            if isinstance(x, ast.Try) and len(x.body) == 1 and len(x.handlers) == 1 and x.handlers[0].type is not None and u(x.handlers[0].type) == "KeyError" \
                    and not x.orelse and not x.finalbody and len(x.handlers[0].body) == 1 and is_append(x.body[0]) and is_init(x.handlers[0].body[0], True):
                a, n_ = is_append(x.body[0]), is_init(x.handlers[0].body[0], True)
                # (the KeyError can only come from the lookup d[k]: key and value are plain names)
                if u(a[0]) == u(n_[0]) and u(a[1]) == u(n_[1]) and u(a[2]) == u(n_[2]) and isinstance(a[0], ast.Name) and isinstance(a[1], ast.Name) and isinstance(a[2], ast.Name):
                    new = app(a[0], a[1], a[2])
                    ast.copy_location(new, x)
                    ast.fix_missing_locations(new)
                    out.append(new)
                    i += 1
                    continue
            if isinstance(x, ast.If):
                m = member(x.test)
                if m is not None:
                    k, d, pos = m
                    yes, no = (x.body, x.orelse) if pos else (x.orelse, x.body)
                    yes = [y for y in yes if not isinstance(y, ast.Pass)]
                    no = [y for y in no if not isinstance(y, ast.Pass)]
                    # if k in d: d[k].append(v) else: d[k] = [v]
                    if len(yes) == 1 and len(no) == 1 and is_append(yes[0]) and is_init(no[0], True):
                        a, n_ = is_append(yes[0]), is_init(no[0], True)
                        if u(a[0]) == u(n_[0]) == u(d) and u(a[1]) == u(n_[1]) == u(k) and u(a[2]) == u(n_[2]):
                            new = app(d, k, a[2])
                            ast.copy_location(new, x)
                            ast.fix_missing_locations(new)
                            out.append(new)
                            i += 1
                            continue
                    # if k not in d: d[k] = []   followed by   d[k].append(v)
                    if not yes and len(no) == 1 and is_init(no[0], False) and i + 1 < len(b) and is_append(b[i + 1]):
                        n_, a = is_init(no[0], False), is_append(b[i + 1])
                        if u(a[0]) == u(n_[0]) == u(d) and u(a[1]) == u(n_[1]) == u(k):
                            new = app(d, k, a[2])
                            ast.copy_location(new, x)
                            ast.fix_missing_locations(new)
                            out.append(new)
                            i += 2
                            continue
            out.append(x)
            i += 1
        return out
    stmts = block(stmts)
    # local defaultdict(list): only d[k].append(v), reads, `in` tests and dict(d) copies
    for s_ in list(stmts):
        if isinstance(s_, ast.Assign) and len(s_.targets) == 1 and isinstance(s_.targets[0], ast.Name) and isinstance(s_.value, ast.Call) \
                and u(s_.value.func).split(".")[-1] == "defaultdict" and len(s_.value.args) == 1 and u(s_.value.args[0]) == "list" and not s_.value.keywords:
            d = s_.targets[0].id
            if sum(1 for x in stmts for n in ast.walk(x) if isinstance(n, ast.Name) and n.id == d and not isinstance(n.ctx, ast.Load)) != 1:
                continue

            class R(ast.NodeTransformer):
                def visit_Expr(self, node):
                    a = is_append(node)
                    if a and isinstance(a[0], ast.Name) and a[0].id == d:
                        return ast.copy_location(app(a[0], a[1], self.visit(a[2])), node)
                    return self.generic_visit(node)

                def visit_Call(self, node):
                    self.generic_visit(node)
                    if isinstance(node.func, ast.Name) and node.func.id == "dict" and len(node.args) == 1 and not node.keywords \
                            and isinstance(node.args[0], ast.Name) and node.args[0].id == d:
                        return node.args[0]
                    return node
            s_.value = ast.copy_location(ast.Dict(keys=[], values=[]), s_.value)
            stmts = [ast.fix_missing_locations(R().visit(x)) for x in stmts]
    return stmts


def _never_none(e, known: dict) -> bool:
    """e certainly evaluates to something other than None: numbers, len(..), arithmetic on those, displays, strings"""
    if isinstance(e, ast.Constant):
        return e.value is not None
    if isinstance(e, (ast.List, ast.Tuple, ast.Dict, ast.Set, ast.ListComp, ast.DictComp, ast.SetComp, ast.GeneratorExp, ast.JoinedStr, ast.Lambda)):
        return True
    if isinstance(e, ast.Call) and isinstance(e.func, ast.Name) and e.func.id in ("len", "int", "str", "bool", "list", "tuple", "dict", "set", "sum", "abs", "repr", "float", "sorted"):
        return True
    if isinstance(e, ast.BinOp) and isinstance(e.op, (ast.Add, ast.Sub, ast.Mult, ast.FloorDiv, ast.Mod)):
        return _never_none(e.left, known) and _never_none(e.right, known)
    if isinstance(e, ast.IfExp):
        return _never_none(e.body, known) and _never_none(e.orelse, known)
    if isinstance(e, ast.Name):
        return known.get(e.id, False)
    return False


def thread_none_flags(stmts: list[ast.stmt]) -> list[ast.stmt]:
    """if C: ..; v = <something>   else: ..; v = None          if C: ..; v = <something>; A
       if v is not None: A  else: B                      ->    else: ..; v = None; B
    a decision recorded in whether v is None and asked again straight afterwards is the decision itself: each arm of the second test
    is moved to the end of the branches (of the if / elif chain) that make it true"""
    def ends(block):
        if not block:
            return False
        s_ = block[-1]
        if isinstance(s_, (ast.Return, ast.Raise, ast.Continue, ast.Break)):
            return True
        if isinstance(s_, ast.If):
            return bool(s_.orelse) and ends(s_.body) and ends(s_.orelse)
        return False

    def some(e):
        if _never_none(e, {}):
            return True
        # a constructor call (classes are spelled with a capital)
        if isinstance(e, ast.Call):
            f = e.func
            nm = f.id if isinstance(f, ast.Name) else (f.attr if isinstance(f, ast.Attribute) else "")
            return nm.lstrip("_")[:1].isupper()
        return False

    def leaves(block, v):
        """[(leaf block, 'none' | 'some')] for the ways the block falls through, None if v's state is unknown on one of them"""
        if ends(block):
            return []
        if not block:
            return None
        last = block[-1]
        if isinstance(last, ast.If) and last.orelse and v in _assigned_names([last]):
            if any(v in _assigned_names([x]) for x in block[:-1]) and False:
                return None
            a, b = leaves(last.body, v), leaves(last.orelse, v)
            if a is None or b is None:
                return None
            return a + b
        st = None
        for x in block:
            if isinstance(x, ast.Assign) and len(x.targets) == 1 and isinstance(x.targets[0], ast.Name) and x.targets[0].id == v:
                st = x
            elif v in _assigned_names([x]):
                return None
        if st is None:
            return None
        if isinstance(st.value, ast.Constant) and st.value.value is None:
            return [(block, "none")]
        return [(block, "some")] if some(st.value) else None

    fresh = [0]

    def block(b):
        b = list(b)
        for s_ in b:
            for fld in ("body", "orelse", "finalbody"):
                bb = getattr(s_, fld, None)
                if isinstance(bb, list) and bb and isinstance(bb[0], ast.stmt) and not isinstance(s_, (ast.FunctionDef, ast.AsyncFunctionDef, ast.ClassDef)):
                    setattr(s_, fld, block(bb))
            if isinstance(s_, ast.Try):
                for h in s_.handlers:
                    h.body = block(h.body)
        i = 0
        while i + 1 < len(b):
            s1, s2 = b[i], b[i + 1]
            if isinstance(s1, ast.If) and s1.orelse and isinstance(s2, ast.If):
                t, neg = s2.test, False
                while isinstance(t, ast.UnaryOp) and isinstance(t.op, ast.Not):
                    t, neg = t.operand, not neg
                if isinstance(t, ast.Compare) and len(t.ops) == 1 and isinstance(t.ops[0], (ast.Is, ast.IsNot)) and isinstance(t.left, ast.Name) \
                        and isinstance(t.comparators[0], ast.Constant) and t.comparators[0].value is None:
                    v = t.left.id
                    some_arm, none_arm = (s2.body, s2.orelse) if isinstance(t.ops[0], ast.IsNot) != neg else (s2.orelse, s2.body)
                    live = leaves([s1], v)
                    # (an arm may be written into several branches as long as it is small; both outcomes must occur, otherwise the test
                    # is decided outright and folded elsewhere)
                    if live and {st for _, st in live} == {"some", "none"} and \
                            sum(1 for _, st in live if st == "some") * sum(1 for x in some_arm for _ in ast.walk(x)) <= 400 and \
                            sum(1 for _, st in live if st == "none") * sum(1 for x in none_arm for _ in ast.walk(x)) <= 400:
                        # v read nowhere but in the second test and its arms: each branch gets its own name for it (the value filed
                        # there is then read only there)
                        inside = sum(1 for n in ast.walk(s2) if isinstance(n, ast.Name) and n.id == v and isinstance(n.ctx, ast.Load))
                        total = sum(1 for x in stmts for n in ast.walk(x) if isinstance(n, ast.Name) and n.id == v and isinstance(n.ctx, ast.Load))
                        for br, st in live:
                            arm = [copy.deepcopy(x) for x in (some_arm if st == "some" else none_arm)]
                            if inside == total and st == "some" and not any(v in _assigned_names([x]) for x in arm):
                                fresh[0] += 1
                                nm = f"{v}__{fresh[0]}"
                                last = [x for x in br if isinstance(x, ast.Assign) and len(x.targets) == 1 and isinstance(x.targets[0], ast.Name) and x.targets[0].id == v][-1]
                                if not any(isinstance(n, ast.Name) and n.id == v for x in br[br.index(last) + 1:] for n in ast.walk(x)):
                                    last.targets[0] = ast.Name(id=nm, ctx=ast.Store())
                                    arm = [_Rename({v: nm}).visit(x) for x in arm]
                            br.extend(arm)
                        del b[i + 1]
                        continue
            i += 1
        return b
    return block(stmts)


def thread_const_flags(stmts: list[ast.stmt], member=None) -> list[ast.stmt]:
    """if C: ..; v = K1  elif D: ..; v = K2  else: ..; v = K3          if C: ..; v = K1; A
       if v is K1: A  elif v is K2: B  else: X                   ->    elif D: ..; v = K2; B      else: ..; v = K3; X
    a decision filed as one of a few constants (True / False, a number, a string, a member of an enumeration whose members are all
    different) and asked again straight afterwards is the decision itself: the second chain is decided per branch of the first.
    `member(e)` names the enumeration member an expression stands for (or None)."""
    def ends(block):
        if not block:
            return False
        s_ = block[-1]
        if isinstance(s_, (ast.Return, ast.Raise, ast.Continue, ast.Break)):
            return True
        if isinstance(s_, ast.If):
            return bool(s_.orelse) and ends(s_.body) and ends(s_.orelse)
        return False

    def key(e):
        if isinstance(e, ast.Constant) and e.value is not None and isinstance(e.value, (bool, int, str)):
            return ("c", type(e.value).__name__, e.value)
        if member is not None:
            try:
                m = member(e)
            except Exception:
                m = None
            if m is not None:
                return ("m",) + tuple(m)
        return None

    def leaves(block, v):
        if ends(block):
            return []
        if not block:
            return None
        last = block[-1]
        if isinstance(last, ast.If) and last.orelse and v in _assigned_names([last]):
            a, b = leaves(last.body, v), leaves(last.orelse, v)
            if a is None or b is None:
                return None
            return a + b
        st = None
        for x in block:
            if isinstance(x, ast.Assign) and len(x.targets) == 1 and isinstance(x.targets[0], ast.Name) and x.targets[0].id == v:
                st = x
            elif v in _assigned_names([x]):
                return None
        if st is None:
            return None
        k = key(st.value)
        return [(block, k)] if k is not None else None

    def verdict_leaves(block, v):
        """the blocks that fall through, each ENDING in `v = <expression>` (its only assignment to v); None when one does not"""
        if ends(block):
            return []
        if not block:
            return None
        last = block[-1]
        if isinstance(last, ast.If) and last.orelse and not any(v in _assigned_names([x]) for x in block[:-1]):
            a, b = verdict_leaves(last.body, v), verdict_leaves(last.orelse, v)
            if a is None or b is None:
                return None
            return a + b
        if isinstance(last, ast.Assign) and len(last.targets) == 1 and isinstance(last.targets[0], ast.Name) and last.targets[0].id == v \
                and not any(v in _assigned_names([x]) for x in block[:-1]):
            return [block]
        return None

    def decide(t, v, k):
        """the truth of test t when v holds the constant k; None when it is not a question about v alone"""
        if isinstance(t, ast.UnaryOp) and isinstance(t.op, ast.Not):
            r = decide(t.operand, v, k)
            return None if r is None else not r
        if isinstance(t, ast.BoolOp):
            rs = [decide(x, v, k) for x in t.values]
            if any(r is None for r in rs):
                return None
            return all(rs) if isinstance(t.op, ast.And) else any(rs)
        if isinstance(t, ast.Name) and t.id == v and k[0] == "c":
            return bool(k[2])
        if isinstance(t, ast.Compare) and len(t.ops) == 1:
            l, r, op = t.left, t.comparators[0], t.ops[0]
            if isinstance(r, ast.Name) and r.id == v and not (isinstance(l, ast.Name) and l.id == v) and isinstance(op, (ast.Eq, ast.NotEq, ast.Is, ast.IsNot)):
                l, r = r, l
            if not (isinstance(l, ast.Name) and l.id == v):
                return None
            if isinstance(op, (ast.In, ast.NotIn)) and isinstance(r, (ast.Tuple, ast.List, ast.Set)):
                ks = [key(x) for x in r.elts]
                if any(x is None or x[0] != k[0] or (x[0] == "m" and x[1] != k[1]) for x in ks):
                    return None
                if k[0] == "c" and any(x[1] != k[1] for x in ks):
                    return None
                return (k in ks) == isinstance(op, ast.In)
            if isinstance(op, (ast.Eq, ast.NotEq, ast.Is, ast.IsNot)):
                k2 = key(r)
                if k2 is None or k2[0] != k[0]:
                    return None
                if k[0] == "m" and k2[1] != k[1]:
                    return None
                if k[0] == "c" and (k2[1] != k[1] or (isinstance(op, (ast.Is, ast.IsNot)) and k[1] != "bool")):
                    return None       # (True == 1; identity of numbers and strings is not the language's business)
                return (k == k2) == isinstance(op, (ast.Eq, ast.Is))
        return None

    def arm_for(s2, v, k):
        """the statements of chain s2 that run when v holds k; None when its first test is not decided by that"""
        r = decide(s2.test, v, k)
        if r is None:
            return None
        if r:
            return s2.body
        if len(s2.orelse) == 1 and isinstance(s2.orelse[0], ast.If):
            deeper = arm_for(s2.orelse[0], v, k)
            return deeper if deeper is not None else s2.orelse
        return s2.orelse

    def asks(t):
        """the local a test asks about"""
        for n in ast.walk(t):
            if isinstance(n, ast.Name):
                return n.id
        return None

    def block(b):
        b = list(b)
        for s_ in b:
            for fld in ("body", "orelse", "finalbody"):
                bb = getattr(s_, fld, None)
                if isinstance(bb, list) and bb and isinstance(bb[0], ast.stmt) and not isinstance(s_, (ast.FunctionDef, ast.AsyncFunctionDef, ast.ClassDef)):
                    setattr(s_, fld, block(bb))
            if isinstance(s_, ast.Try):
                for h in s_.handlers:
                    h.body = block(h.body)
        i = 0
        while i + 1 < len(b):
            s1, s2 = b[i], b[i + 1]
            if isinstance(s1, ast.If) and s1.orelse and isinstance(s2, ast.If):
                v = asks(s2.test)
                live = leaves([s1], v) if v is not None else None
                t2, neg2 = s2.test, False
                while isinstance(t2, ast.UnaryOp) and isinstance(t2.op, ast.Not):
                    t2, neg2 = t2.operand, not neg2
                if live is None and isinstance(t2, ast.Name) and sum(1 for x in stmts for n in ast.walk(x) if isinstance(n, ast.Name) and n.id == t2.id and isinstance(n.ctx, ast.Load)) == 1:
                    # if C: ..; v = E1  else: ..; v = E2      followed by   if v: A else: B     (v read nowhere else): the test is asked
                    # where its operand is computed
                    ends_ = verdict_leaves([s1], t2.id)
                    if ends_ and len(ends_) >= 2 and len(ends_) * sum(1 for x in s2.body + s2.orelse for _ in ast.walk(x)) <= 600:
                        for br in ends_:
                            e = br.pop().value
                            if neg2:
                                e = ast.UnaryOp(op=ast.Not(), operand=e)
                            br.append(ast.copy_location(ast.If(test=e, body=[copy.deepcopy(x) for x in s2.body], orelse=[copy.deepcopy(x) for x in s2.orelse]), s2))
                        del b[i + 1]
                        continue
                if live and len({k for _, k in live}) >= 2:
                    arms = [arm_for(s2, v, k) for _, k in live]
                    if all(a is not None for a in arms) and sum(1 for a in arms for x in a for _ in ast.walk(x)) <= 600:
                        for (br, _), arm in zip(live, arms):
                            br.extend(copy.deepcopy(x) for x in arm)
                        del b[i + 1]
                        continue
            i += 1
        return b
    if not any(isinstance(s_, ast.If) for s_ in stmts) and not any(isinstance(n, ast.If) for s_ in stmts for n in ast.walk(s_)):
        return stmts
    return block(stmts)


def fold_none_tests(stmts: list[ast.stmt]) -> list[ast.stmt]:
    """if x is not None: A else: B   with x a number / length / display  ->  A      (and the `is None` twin -> B)"""
    def block(b, known):
        known = dict(known)
        out = []
        for s_ in b:
            if isinstance(s_, ast.If):
                t = s_.test
                neg = False
                while isinstance(t, ast.UnaryOp) and isinstance(t.op, ast.Not):
                    t, neg = t.operand, not neg
                if isinstance(t, ast.Compare) and len(t.ops) == 1 and isinstance(t.ops[0], (ast.Is, ast.IsNot)) \
                        and isinstance(t.comparators[0], ast.Constant) and t.comparators[0].value is None and _never_none(t.left, known):
                    truth = isinstance(t.ops[0], ast.IsNot) != neg
                    out += block(s_.body if truth else s_.orelse, known)
                    continue
            for fld in ("body", "orelse", "finalbody"):
                bb = getattr(s_, fld, None)
                if isinstance(bb, list) and bb and isinstance(bb[0], ast.stmt) and not isinstance(s_, (ast.FunctionDef, ast.AsyncFunctionDef, ast.ClassDef)):
                    inner_known = known if not isinstance(s_, (ast.For, ast.While)) else {k: v for k, v in known.items() if k not in _assigned_names([s_])}
                    setattr(s_, fld, block(bb, inner_known) or [ast.Pass()])
            if isinstance(s_, ast.Try):
                for h in s_.handlers:
                    h.body = block(h.body, known) or [ast.Pass()]
            for n_ in _assigned_names([s_]):
                known.pop(n_, None)
            if isinstance(s_, ast.Assign) and len(s_.targets) == 1 and isinstance(s_.targets[0], ast.Name):
                known[s_.targets[0].id] = _never_none(s_.value, known)
            out.append(s_)
        return out
    return block(list(stmts), {})


def rename_param_rebinds(stmts: list[ast.stmt]) -> list[ast.stmt]:
    """x = f(x) at the top level of a function body, x assigned nowhere else (so the x read on the right is the parameter):
    the new value gets its own name x_1 in that statement and everything after it.  `config = config or Default()` and
    `new_config = config or Default()` then read the same."""
    stmts = list(stmts)
    stores: dict[str, int] = {}
    for s_ in stmts:
        for n in ast.walk(s_):
            if isinstance(n, ast.Name) and not isinstance(n.ctx, ast.Load):
                stores[n.id] = stores.get(n.id, 0) + 1
            elif isinstance(n, ast.arg):
                stores[n.arg] = stores.get(n.arg, 0) + 1      # parameters of nested functions / lambdas shadow
    for i, s_ in enumerate(stmts):
        if isinstance(s_, ast.Assign) and len(s_.targets) == 1 and isinstance(s_.targets[0], ast.Name):
            x = s_.targets[0].id
            if stores.get(x) != 1 or not any(isinstance(n, ast.Name) and n.id == x and isinstance(n.ctx, ast.Load) for n in ast.walk(s_.value)):
                continue
            if any(isinstance(n, (ast.FunctionDef, ast.AsyncFunctionDef, ast.Lambda)) for b_ in stmts[:i + 1] for n in ast.walk(b_)):
                continue
            new = f"{x}_1"
            if new in stores or any(isinstance(n, ast.Name) and n.id == new for b_ in stmts for n in ast.walk(b_)):
                continue
            s_.targets[0] = ast.Name(id=new, ctx=ast.Store())
            stmts[i + 1:] = [_Rename({x: new}).visit(b_) for b_ in stmts[i + 1:]]
            return rename_param_rebinds(stmts)
    return stmts


def merge_display_building(stmts: list[ast.stmt]) -> list[ast.stmt]:
    """d = {}; d["a"] = x; d["b"] = y   ->   d = {"a": x, "b": y}          l = []; l.append(x); l.append(y)   ->   l = [x, y]
    (the stores follow the empty display directly, keys are distinct constants, the values do not read the container)"""
    out: list[ast.stmt] = []
    i = 0
    stmts = list(stmts)
    while i < len(stmts):
        s = stmts[i]
        for fld in ("body", "orelse", "finalbody"):
            b = getattr(s, fld, None)
            if isinstance(b, list) and b and isinstance(b[0], ast.stmt) and not isinstance(s, (ast.FunctionDef, ast.AsyncFunctionDef, ast.ClassDef)):
                setattr(s, fld, merge_display_building(b))
        if isinstance(s, ast.Try):
            for h in s.handlers:
                h.body = merge_display_building(h.body)
        name = s.targets[0].id if isinstance(s, ast.Assign) and len(s.targets) == 1 and isinstance(s.targets[0], ast.Name) else (
            s.target.id if isinstance(s, ast.AnnAssign) and isinstance(s.target, ast.Name) and s.value is not None else None)
        v = getattr(s, "value", None)
        is_dict = isinstance(v, ast.Dict) and not v.keys or (isinstance(v, ast.Call) and u(v.func) == "dict" and not v.args and not v.keywords)
        # a copy of a mapping that is then extended: d = dict(X); d[k] = v   ->   d = {**dict(X), k: v}
        based = isinstance(v, ast.Dict) and bool(v.keys) or (isinstance(v, ast.Call) and u(v.func) == "dict" and len(v.args) == 1 and not v.keywords)
        if name and based:
            j = i + 1
            ks = list(v.keys) if isinstance(v, ast.Dict) else [None]
            vs = list(v.values) if isinstance(v, ast.Dict) else [v]
            n0 = len(vs)
            while j < len(stmts):
                x = stmts[j]
                if isinstance(x, ast.Assign) and len(x.targets) == 1 and isinstance(x.targets[0], ast.Subscript) and isinstance(x.targets[0].value, ast.Name) \
                        and x.targets[0].value.id == name and is_pure(x.targets[0].slice) \
                        and not any(isinstance(n, ast.Name) and n.id == name for n in list(ast.walk(x.value)) + list(ast.walk(x.targets[0].slice))):
                    ks.append(x.targets[0].slice)
                    vs.append(x.value)
                    j += 1
                else:
                    break
            if len(vs) > n0:
                new = ast.Assign(targets=[ast.Name(id=name, ctx=ast.Store())], value=ast.Dict(keys=ks, values=vs))
                ast.copy_location(new, s)
                ast.fix_missing_locations(new)
                out.append(new)
                i = j
                continue
        # a list display whose slots are then overwritten by position: l = [a, b]; l[0] = x   ->   l = [x, b]   (the replaced element is pure)
        if name and isinstance(v, ast.List) and v.elts and not any(isinstance(e, ast.Starred) for e in v.elts):
            j = i + 1
            elts = list(v.elts)
            while j < len(stmts):
                x = stmts[j]
                if isinstance(x, ast.Assign) and len(x.targets) == 1 and isinstance(x.targets[0], ast.Subscript) and isinstance(x.targets[0].value, ast.Name) \
                        and x.targets[0].value.id == name and isinstance(x.targets[0].slice, ast.Constant) and type(x.targets[0].slice.value) is int \
                        and -len(elts) <= x.targets[0].slice.value < len(elts) and is_pure(elts[x.targets[0].slice.value]) \
                        and all(is_pure(e) for e in elts) and not any(isinstance(n, ast.Name) and n.id == name for n in ast.walk(x.value)):
                    elts[x.targets[0].slice.value] = x.value
                    j += 1
                else:
                    break
            if j > i + 1:
                new = ast.Assign(targets=[ast.Name(id=name, ctx=ast.Store())], value=ast.List(elts=elts, ctx=ast.Load()))
                ast.copy_location(new, s)
                ast.fix_missing_locations(new)
                out.append(new)
                i = j
                continue
        is_list = isinstance(v, ast.List) and not v.elts or (isinstance(v, ast.Call) and u(v.func) == "list" and not v.args and not v.keywords)
        if name and (is_dict or is_list):
            j = i + 1
            keys, vals = [], []
            while j < len(stmts):
                x = stmts[j]
                if is_dict and isinstance(x, ast.Assign) and len(x.targets) == 1 and isinstance(x.targets[0], ast.Subscript) and isinstance(x.targets[0].value, ast.Name) \
                        and x.targets[0].value.id == name and isinstance(x.targets[0].slice, ast.Constant) and x.targets[0].slice.value not in [k.value for k in keys] \
                        and not any(isinstance(n, ast.Name) and n.id == name for n in ast.walk(x.value)):
                    keys.append(x.targets[0].slice)
                    vals.append(x.value)
                elif is_list and isinstance(x, ast.Expr) and isinstance(x.value, ast.Call) and isinstance(x.value.func, ast.Attribute) and x.value.func.attr == "append" \
                        and isinstance(x.value.func.value, ast.Name) and x.value.func.value.id == name and len(x.value.args) == 1 and not x.value.keywords \
                        and not any(isinstance(n, ast.Name) and n.id == name for n in ast.walk(x.value.args[0])):
                    vals.append(x.value.args[0])
                else:
                    break
                j += 1
            if vals and not (is_list and j < len(stmts) and isinstance(stmts[j], ast.For)):
                disp = ast.Dict(keys=keys, values=vals) if is_dict else ast.List(elts=vals, ctx=ast.Load())
                new = ast.Assign(targets=[ast.Name(id=name, ctx=ast.Store())], value=disp)
                ast.copy_location(new, s)
                ast.fix_missing_locations(new)
                out.append(new)
                i = j
                continue
        out.append(s)
        i += 1
    return out


def extend_to_augassign(stmts: list[ast.stmt]) -> list[ast.stmt]:
    """x.extend(<comprehension>)  ->  x += [<comprehension>]   (x a local name)"""
    class V(ast.NodeTransformer):
        def visit_Expr(self, node):
            c = node.value
            if isinstance(c, ast.Call) and isinstance(c.func, ast.Attribute) and c.func.attr == "extend" and isinstance(c.func.value, ast.Name) \
                    and len(c.args) == 1 and not c.keywords and isinstance(c.args[0], (ast.ListComp, ast.GeneratorExp)):
                comp = ast.ListComp(elt=c.args[0].elt, generators=c.args[0].generators)
                return ast.copy_location(ast.AugAssign(target=ast.Name(id=c.func.value.id, ctx=ast.Store()), op=ast.Add(), value=comp), node)
            return node

        def visit_FunctionDef(self, node):
            return node
        visit_AsyncFunctionDef = visit_ClassDef = visit_Lambda = visit_FunctionDef
    out = [V().visit(s) for s in stmts]
    for s in out:
        ast.fix_missing_locations(s)
    return out


def map_pushdown(stmts: list[ast.stmt], pure_calls=()) -> list[ast.stmt]:
    """P = []; .. P.append(E) / P.extend(G) / P += G ..; M = [F(v) for v in P]      (P used for nothing else, F pure)
       ->   M = []; .. M.append(F(E)) / M += [F(v) for v in G] ..
    mapping a list after it has been collected and mapping each element as it is collected give the same list"""
    stmts = list(stmts)
    loads: dict[str, list] = {}
    stores: dict[str, int] = {}
    for s in stmts:
        for n in ast.walk(s):
            if isinstance(n, ast.Name):
                if isinstance(n.ctx, ast.Load):
                    loads.setdefault(n.id, []).append(n)
                else:
                    stores[n.id] = stores.get(n.id, 0) + 1
    for j, s in enumerate(stmts):
        if not (isinstance(s, ast.Assign) and len(s.targets) == 1 and isinstance(s.targets[0], ast.Name) and isinstance(s.value, ast.ListComp)
                and len(s.value.generators) == 1 and not s.value.generators[0].ifs and isinstance(s.value.generators[0].iter, ast.Name)):
            continue
        P, M = s.value.generators[0].iter.id, s.targets[0].id
        tgt, F = s.value.generators[0].target, s.value.elt
        if stores.get(M) != 1 or P == M or not is_pure(F, pure_calls):
            continue
        tnames = {n.id for n in ast.walk(tgt) if isinstance(n, ast.Name)}
        if any(isinstance(n, ast.Name) and n.id not in tnames and stores.get(n.id, 0) > 0 for n in ast.walk(F)):
            continue
        inits = [i for i, x in enumerate(stmts[:j]) if isinstance(x, ast.Assign) and len(x.targets) == 1 and isinstance(x.targets[0], ast.Name)
                 and x.targets[0].id == P and ((isinstance(x.value, ast.List) and not x.value.elts) or (isinstance(x.value, ast.Call) and u(x.value.func) == "list" and not x.value.args))]
        if len(inits) != 1:
            continue
        # every other mention of P is a collecting statement between the two
        sites = []

        def collect(block):
            for x in block:
                if isinstance(x, ast.Expr) and isinstance(x.value, ast.Call) and isinstance(x.value.func, ast.Attribute) and isinstance(x.value.func.value, ast.Name) \
                        and x.value.func.value.id == P and x.value.func.attr in ("append", "extend") and len(x.value.args) == 1 and not x.value.keywords:
                    sites.append(x)
                elif isinstance(x, ast.AugAssign) and isinstance(x.target, ast.Name) and x.target.id == P and isinstance(x.op, ast.Add):
                    sites.append(x)
                for fld in ("body", "orelse", "finalbody"):
                    b = getattr(x, fld, None)
                    if isinstance(b, list) and b and isinstance(b[0], ast.stmt) and not isinstance(x, (ast.FunctionDef, ast.AsyncFunctionDef, ast.ClassDef)):
                        collect(b)
                if isinstance(x, ast.Try):
                    for h in x.handlers:
                        collect(h.body)
        collect(stmts[inits[0] + 1:j])
        n_mentions = len(loads.get(P, [])) + stores.get(P, 0)
        n_site_mentions = sum(1 + sum(1 for n in ast.walk(x.value if isinstance(x, ast.AugAssign) else x.value.args[0]) if isinstance(n, ast.Name) and n.id == P) for x in sites)
        if not sites or n_mentions != 1 + 1 + n_site_mentions or n_site_mentions != len(sites):
            continue

        def image(e):
            # F with the comprehension target bound to e
            if isinstance(tgt, ast.Name):
                return _Subst({tgt.id: e}).visit(copy.deepcopy(F))
            if isinstance(tgt, ast.Tuple) and isinstance(e, ast.Tuple) and len(tgt.elts) == len(e.elts) and all(isinstance(t, ast.Name) for t in tgt.elts):
                return _Subst({t.id: v for t, v in zip(tgt.elts, e.elts)}).visit(copy.deepcopy(F))
            return None
        ok = True
        new_sites = {}
        for x in sites:
            if isinstance(x, ast.Expr) and x.value.func.attr == "append":
                im = image(x.value.args[0])
                if im is None:
                    ok = False
                    break
                new = ast.Expr(ast.Call(func=ast.Attribute(value=ast.Name(id=M, ctx=ast.Load()), attr="append", ctx=ast.Load()), args=[im], keywords=[]))
            else:
                src = x.value if isinstance(x, ast.AugAssign) else x.value.args[0]
                comp = ast.ListComp(elt=copy.deepcopy(F), generators=[ast.comprehension(target=copy.deepcopy(tgt), iter=src, ifs=[], is_async=0)])
                new = ast.AugAssign(target=ast.Name(id=M, ctx=ast.Store()), op=ast.Add(), value=comp)
            ast.copy_location(new, x)
            ast.fix_missing_locations(new)
            new_sites[id(x)] = new
        if not ok:
            continue

        class R(ast.NodeTransformer):
            def visit(self, node):
                if id(node) in new_sites:
                    return new_sites[id(node)]
                return super().visit(node)
        init = stmts[inits[0]]
        init.targets[0] = ast.Name(id=M, ctx=ast.Store())
        mid = [R().visit(x) for x in stmts[inits[0] + 1:j]]
        return map_pushdown(stmts[:inits[0] + 1] + mid + stmts[j + 1:], pure_calls)
    return stmts


def unroll_literal_loops(stmts: list[ast.stmt]) -> list[ast.stmt]:
    """for T in (A, B, C): BODY   ->   T = A; BODY; T = B; BODY; T = C; BODY      (a literal sequence of at most 6 items, BODY without
    break / continue of this loop): a table-driven loop and its written-out cases coincide"""
    out: list[ast.stmt] = []
    for s in stmts:
        for fld in ("body", "orelse", "finalbody"):
            b = getattr(s, fld, None)
            if isinstance(b, list) and b and isinstance(b[0], ast.stmt) and not isinstance(s, (ast.FunctionDef, ast.AsyncFunctionDef, ast.ClassDef)):
                setattr(s, fld, unroll_literal_loops(b))
        if isinstance(s, ast.Try):
            for h in s.handlers:
                h.body = unroll_literal_loops(h.body)
        if isinstance(s, ast.For) and isinstance(s.iter, ast.Call) and isinstance(s.iter.func, ast.Attribute) and s.iter.func.attr in ("items", "keys", "values") \
                and isinstance(s.iter.func.value, ast.Dict) and not s.iter.args and not s.iter.keywords and all(k is not None for k in s.iter.func.value.keys) \
                and len({ast.unparse(k) for k in s.iter.func.value.keys}) == len(s.iter.func.value.keys):
            # a dict display iterated on the spot: its rows in the order written
            d_ = s.iter.func.value
            rows = {"items": [ast.Tuple(elts=[k, v], ctx=ast.Load()) for k, v in zip(d_.keys, d_.values)], "keys": list(d_.keys), "values": list(d_.values)}[s.iter.func.attr]
            s.iter = ast.copy_location(ast.Tuple(elts=rows, ctx=ast.Load()), s.iter)
            ast.fix_missing_locations(s)
        if isinstance(s, ast.For) and isinstance(s.iter, (ast.Tuple, ast.List)) and 1 <= len(s.iter.elts) <= 6 and not s.orelse \
                and not any(isinstance(e, ast.Starred) for e in s.iter.elts):
            def own(kinds):
                found = []

                def walk(n):
                    if isinstance(n, kinds):
                        found.append(n)
                    for c in ast.iter_child_nodes(n):
                        if not isinstance(c, (ast.For, ast.While, ast.FunctionDef, ast.AsyncFunctionDef, ast.Lambda, ast.ClassDef)):
                            walk(c)
                for b_ in s.body:
                    walk(b_)
                return found
            def simple(x):
                return isinstance(x, (ast.Constant, ast.Lambda)) or _attr_chain(x) is not None
            tn = [n.id for n in ast.walk(s.target) if isinstance(n, ast.Name)]

            def destructure(t, e):
                """{name: simple entry} for a (nested) tuple target against a (nested) tuple row, None if the shapes differ"""
                if isinstance(t, ast.Name):
                    return {t.id: e} if simple(e) else None
                if isinstance(t, (ast.Tuple, ast.List)) and isinstance(e, (ast.Tuple, ast.List)) and len(t.elts) == len(e.elts) \
                        and not any(isinstance(x, ast.Starred) for x in list(t.elts) + list(e.elts)):
                    mp_ = {}
                    for t2, e2 in zip(t.elts, e.elts):
                        r_ = destructure(t2, e2)
                        if r_ is None:
                            return None
                        mp_.update(r_)
                    return mp_
                return None
            rows_ = [destructure(s.target, e) for e in s.iter.elts]
            direct = not (set(tn) & _assigned_names(s.body)) and all(r_ is not None for r_ in rows_)
            if not own((ast.Break, ast.Continue)) and direct:
                # the entries are names / constants / lambdas: each case is the body with the entry written in
                for mp in rows_:
                    out += [_Subst(dict(mp)).visit(copy.deepcopy(b_)) for b_ in s.body]
                continue
            if not own((ast.Break, ast.Continue)):
                for e in s.iter.elts:
                    bind = ast.Assign(targets=[copy.deepcopy(s.target)], value=copy.deepcopy(e))
                    ast.copy_location(bind, s)
                    ast.fix_missing_locations(bind)
                    out.append(bind)
                    out += [copy.deepcopy(b_) for b_ in s.body]
                continue
        out.append(s)
    return out


def fuse_for_over_comp(stmts: list[ast.stmt], pure_calls=()) -> list[ast.stmt]:
    """for T in [E for V in S if C]: BODY   ->   for V in S: if C: T = E; BODY
    when the comprehension only reads (pure) and BODY neither rebinds nor writes through anything it reads: building the list
    first and filtering on the fly then see the same values.  `break` / `continue` keep their meaning (same loop)."""
    out = []
    for s in stmts:
        for fld in ("body", "orelse", "finalbody"):
            b = getattr(s, fld, None)
            if isinstance(b, list) and b and isinstance(b[0], ast.stmt) and not isinstance(s, (ast.FunctionDef, ast.ClassDef)):
                setattr(s, fld, fuse_for_over_comp(b, pure_calls))
        if isinstance(s, ast.Try):
            for h in s.handlers:
                h.body = fuse_for_over_comp(h.body, pure_calls)
        it = s.iter if isinstance(s, ast.For) else None
        if isinstance(it, ast.GeneratorExp) and len(it.generators) == 1 and not s.orelse and not is_pure(it, pure_calls) and not it.generators[0].is_async:
            # a generator expression is evaluated on the fly, one element per iteration: the fused loop runs exactly the same steps
            g = it.generators[0]
            bound = {n.id for n in ast.walk(g.target) if isinstance(n, ast.Name)}
            tnames = {n.id for n in ast.walk(s.target) if isinstance(n, ast.Name)}
            outer_reads = {n.id for st in s.body for n in ast.walk(st) if isinstance(n, ast.Name)} - tnames
            if not (_assigned_names(s.body) & bound) and not (bound & outer_reads) and not (tnames & bound - {n.id for n in ast.walk(it.elt) if isinstance(n, ast.Name)}) \
                    and not any(isinstance(n, (ast.Yield, ast.YieldFrom, ast.NamedExpr)) for n in ast.walk(it)):
                same = ast.dump(s.target).replace("Store()", "Load()") == ast.dump(it.elt)
                bind = [] if same else [ast.Assign(targets=[copy.deepcopy(s.target)], value=copy.deepcopy(it.elt))]
                inner = bind + list(s.body)
                for c in reversed(g.ifs):
                    inner = [ast.If(test=copy.deepcopy(c), body=inner, orelse=[])]
                new = ast.For(target=copy.deepcopy(g.target), iter=copy.deepcopy(g.iter), body=inner, orelse=[], type_comment=None)
                ast.copy_location(new, s)
                ast.fix_missing_locations(new)
                out.append(new)
                continue
        if isinstance(it, (ast.ListComp, ast.GeneratorExp)) and len(it.generators) == 1 and not s.orelse and is_pure(it, pure_calls):
            g = it.generators[0]
            bound = {n.id for n in ast.walk(g.target) if isinstance(n, ast.Name)}
            roots = {n.id for n in ast.walk(it) if isinstance(n, ast.Name) and isinstance(n.ctx, ast.Load)} - bound
            tnames = {n.id for n in ast.walk(s.target) if isinstance(n, ast.Name)}
            passes_root = any(isinstance(c, ast.Call) and not (isinstance(c.func, ast.Name) and c.func.id in PURE_FUNCS)
                              and any(isinstance(x, ast.Name) and x.id in roots for a in list(c.args) + [k.value for k in c.keywords] for x in ast.walk(a))
                              for st in s.body for c in ast.walk(st))
            has_continue = any(isinstance(n, ast.Continue) for st in s.body for n in ast.walk(st))
            if not (_assigned_names(s.body) & (roots | bound)) and not _writes_through(s.body, roots) and not passes_root \
                    and not (tnames & bound - {n.id for n in ast.walk(it.elt) if isinstance(n, ast.Name)}) and not has_continue:
                same = ast.dump(s.target).replace("Store()", "Load()") == ast.dump(it.elt)
                bind = [] if same else [ast.Assign(targets=[copy.deepcopy(s.target)], value=copy.deepcopy(it.elt))]
                inner = bind + list(s.body)
                for c in reversed(g.ifs):
                    inner = [ast.If(test=copy.deepcopy(c), body=inner, orelse=[])]
                new = ast.For(target=copy.deepcopy(g.target), iter=copy.deepcopy(g.iter), body=inner, orelse=[], type_comment=None)
                ast.copy_location(new, s)
                ast.fix_missing_locations(new)
                out.append(new)
                continue
        out.append(s)
    return out


# ---------------------------------------------------------------------------------------
def bind_call(callee: ast.FunctionDef, call: ast.Call, skip_first: bool) -> dict[str, ast.expr] | None:
    """parameter name -> argument expression (defaults filled); None if the call uses * / ** or does not fit"""
    a = callee.args
    params = [x.arg for x in a.posonlyargs + a.args]
    if skip_first and params:
        params = params[1:]
    if any(isinstance(x, ast.Starred) for x in call.args) or any(k.arg is None for k in call.keywords) or a.vararg or a.kwarg:
        return None
    if len(call.args) > len(params):
        return None
    out: dict[str, ast.expr] = {}
    for p, x in zip(params, call.args):
        out[p] = x
    kwonly = [x.arg for x in a.kwonlyargs]
    for k in call.keywords:
        if k.arg in out or k.arg not in params + kwonly:
            return None
        out[k.arg] = k.value
    defaults = dict(zip(reversed([x.arg for x in a.posonlyargs + a.args]), reversed(a.defaults)))
    for p in params:
        if p not in out:
            if p in defaults:
                out[p] = defaults[p]
            else:
                return None
    for p, d in zip(kwonly, a.kw_defaults):
        if p not in out:
            if d is None:
                return None
            out[p] = d
    return out


def positional(call: ast.Call, callee: ast.FunctionDef, skip_first: bool) -> ast.Call:
    """the same call with every argument positional in the callee's parameter order (when expressible)"""
    b = bind_call(callee, call, skip_first)
    if b is None or callee.args.kwonlyargs:
        return call
    params = [x.arg for x in callee.args.posonlyargs + callee.args.args]
    if skip_first:
        params = params[1:]
    new = ast.Call(func=call.func, args=[b[p] for p in params], keywords=[])
    return ast.copy_location(new, call)


class _Rename(ast.NodeTransformer):
    def __init__(self, mapping):
        self.mapping = mapping

    def visit_Name(self, node):
        if node.id in self.mapping:
            return ast.copy_location(ast.Name(id=self.mapping[node.id], ctx=node.ctx), node)
        return node

    def visit_MatchAs(self, node):
        self.generic_visit(node)
        if node.name in self.mapping:
            node.name = self.mapping[node.name]
        return node


def inline_helpers(fn: ast.FunctionDef, lookup, depth: int = 3, _stack=()) -> list[ast.stmt]:
    """body of fn with statement-level calls to helpers inlined.

    lookup(call) -> (callee FunctionDef, skip_first) or None decides which calls are helpers.  Inlined forms:
        helper(args)                 (expression statement; callee has no value-returning `return` except at its end)
        x = helper(args) / return helper(args)   (callee's only `return` is its last statement)
    Callee parameters are substituted by the argument expressions when those are simple (names, attributes,
    constants), otherwise bound by an assignment; callee locals are renamed apart."""
    counter = [0]

    def simple(e):
        return isinstance(e, (ast.Name, ast.Constant)) or (isinstance(e, ast.Attribute) and simple(e.value))

    def expand(call, d, stack):
        r = lookup(call)
        if r is None or d <= 0:
            return None
        callee, skip = r
        if callee.name in stack or callee is fn:
            return None
        if any(isinstance(n, (ast.Yield, ast.YieldFrom)) for n in ast.walk(callee)):
            return None
        b = bind_call(callee, call, skip)
        if b is None:
            return None
        body = [copy.deepcopy(s) for s in real_body(callee)]
        rets = [n for s in body for n in ast.walk(s) if isinstance(n, ast.Return)]
        last_ret = body[-1] if body and isinstance(body[-1], ast.Return) else None
        if any(r_ is not last_ret for r_ in rets):
            return None
        counter[0] += 1
        tag = f"__{callee.name.strip('_')}{counter[0]}"
        locals_ = _assigned_names(body) - set(b)
        ren = {x: x + tag for x in locals_}
        pre: list[ast.stmt] = []
        mapping: dict[str, ast.expr] = {}
        assigned_params = _assigned_names(body) & set(b)
        for p, a in b.items():
            if simple(a) and p not in assigned_params:
                mapping[p] = a
            else:
                nm = p + tag
                ren[p] = nm
                st = ast.Assign(targets=[ast.Name(id=nm, ctx=ast.Store())], value=copy.deepcopy(a))
                pre.append(ast.copy_location(st, call))
        body = [_Rename(ren).visit(s) for s in body]
        body = [_Subst(mapping).visit(s) for s in body]
        if skip and isinstance(call.func, ast.Attribute) and not (isinstance(call.func.value, ast.Name) and call.func.value.id == "self"):
            # receiver other than self: bind the callee's `self`
            selfname = (callee.args.posonlyargs + callee.args.args)[0].arg
            body = [_Subst({selfname: call.func.value}).visit(s) for s in body]
        value = None
        if last_ret is not None:
            value = body[-1].value
            body = body[:-1]
        body = rec(pre + body, d - 1, stack + (callee.name,))
        for s in body:
            for n in ast.walk(s):
                if hasattr(n, "lineno"):
                    n.lineno = call.lineno          # reports point at the call site
        return body, value

    def rec(stmts, d, stack):
        out = []
        for s in stmts:
            done = False
            call = None
            if isinstance(s, ast.Expr) and isinstance(s.value, ast.Call):
                call = s.value
            elif isinstance(s, (ast.Assign, ast.AnnAssign, ast.Return)) and isinstance(s.value, ast.Call):
                call = s.value
            if call is not None:
                r = expand(call, d, stack)
                if r is not None:
                    body, value = r
                    if isinstance(s, ast.Expr):
                        out += body
                        if value is not None and not is_pure(value):
                            out.append(ast.copy_location(ast.Expr(value), s))
                        done = True
                    elif value is not None:
                        s2 = copy.copy(s)
                        s2.value = value
                        out += body + [s2]
                        done = True
                    elif value is None and isinstance(s, ast.Return):
                        out += body + [ast.copy_location(ast.Return(value=None), s)]
                        done = True
            if not done:
                for fld in ("body", "orelse", "finalbody"):
                    b = getattr(s, fld, None)
                    if isinstance(b, list) and b and isinstance(b[0], ast.stmt):
                        setattr(s, fld, rec(b, d, stack))
                if isinstance(s, ast.Match):
                    for c in s.cases:
                        c.body = rec(c.body, d, stack)
                if isinstance(s, ast.Try):
                    for h in s.handlers:
                        h.body = rec(h.body, d, stack)
                out.append(s)
        return out

    res = rec([copy.deepcopy(s) for s in real_body(fn)], depth, tuple(_stack) + (fn.name,))
    for s in res:
        ast.fix_missing_locations(s)
    return res


def class_helper_lookup(cls, only_private: bool = True):
    """lookup for inline_helpers: `self.<m>(..)` where <m> is a (private) method found on the class's MRO"""
    def lookup(call):
        f = call.func
        if isinstance(f, ast.Attribute) and isinstance(f.value, ast.Name) and f.value.id == "self":
            if only_private and not (f.attr.startswith("_") and not f.attr.startswith("__")):
                return None
            _, m = cls.find_method(f.attr)
            if m is None:
                return None
            decos = [u(d) for d in m.decorator_list]
            if any(d in ("property", "staticmethod", "classmethod", "cached_property") for d in decos):
                return None
            return m, True
        return None
    return lookup
