"""Canonical form of a function body: the representation the structural rules are stated over.

Two functions that differ only by one of the refactorings below have the same canonical form (up to the names of
the remaining locals, which the templates of hv/tmpl.py abstract):

  1 match -> if       `match s: case K(a, f=b): ..`  ->  `if isinstance(s, K): ..` with captures replaced by the
                      attribute they bind (dataclass field order = __match_args__), value / singleton / or / wildcard
                      patterns, guards
  2 lift ifexp        `x = A if c else B` / `return A if c else B`  ->  if-statement
  3 inline helpers    statement-level calls of private helpers the rule tables do not know (extract-method), early
                      returns of the helper turned into if/else (single exit)
  4 polarity          `if not c: A else: B` -> `if c: B else: A`;  `x is None` -> negated `x is not None`
  5 nest tails        `if c: ..return/raise/continue/break` followed by REST  ->  `if c: .. else: REST`
                      (guard clauses and if/else become the same tree)
  6 loops -> comps    accumulate loops -> list / dict / set comprehensions
  7 forward subst     pure temporaries (and single-use impure ones with nothing in between) replaced by their value
  8 bound variables   comprehension / lambda variables renamed c0, c1, ..; `del`-free
  9 expression idioms `list(map(f, xs))` -> `[f(c0) for c0 in xs]`, `[a] + b` -> `[a, *b]`, `a | b` on dict displays,
                      `bool(x)` in tests, `(x) != 0` ..  (small closed set, each behaviour preserving)

Every pass works on copies; line numbers of the originals are kept where possible so reports stay clickable.
"""
from __future__ import annotations

import ast
import copy
import json
from pathlib import Path

from . import norm
from .model import Class, real_body, u

BUILTIN_SELF_MATCH = {"bool", "bytearray", "bytes", "dict", "float", "frozenset", "int", "list", "set", "str", "tuple"}


class NoCanon(Exception):
    pass


# ---------------------------------------------------------------------------------------
# 1  match -> if
def _simple_subject(e) -> bool:
    return isinstance(e, ast.Name) or (isinstance(e, ast.Attribute) and _simple_subject(e.value))


class MatchLowering:
    def __init__(self, resolve_class=None):
        """resolve_class(expr) -> list of __match_args__ names, or None"""
        self.resolve_class = resolve_class
        self.n = 0

    def pattern(self, pat, subj: ast.expr):
        """-> (test expr | None for always-true, {capture name: access expr})"""
        if isinstance(pat, ast.MatchValue):
            return ast.Compare(left=copy.deepcopy(subj), ops=[ast.Eq()], comparators=[pat.value]), {}
        if isinstance(pat, ast.MatchSingleton):
            return ast.Compare(left=copy.deepcopy(subj), ops=[ast.Is()], comparators=[ast.Constant(pat.value)]), {}
        if isinstance(pat, ast.MatchAs):
            if pat.pattern is None:
                return None, ({pat.name: copy.deepcopy(subj)} if pat.name else {})
            t, b = self.pattern(pat.pattern, subj)
            if pat.name:
                b = dict(b)
                b[pat.name] = copy.deepcopy(subj)
            return t, b
        if isinstance(pat, ast.MatchOr):
            tests = []
            for p in pat.patterns:
                t, b = self.pattern(p, subj)
                if b:
                    raise NoCanon("or-pattern with captures")
                if t is None:
                    return None, {}
                tests.append(t)
            # isinstance(s, A) or isinstance(s, B) -> isinstance(s, A | B)
            if all(isinstance(t, ast.Call) and u(t.func) == "isinstance" and len(t.args) == 2 for t in tests):
                ty = tests[0].args[1]
                for t in tests[1:]:
                    ty = ast.BinOp(left=ty, op=ast.BitOr(), right=t.args[1])
                return ast.Call(func=ast.Name(id="isinstance", ctx=ast.Load()), args=[copy.deepcopy(subj), ty], keywords=[]), {}
            return ast.BoolOp(op=ast.Or(), values=tests), {}
        if isinstance(pat, ast.MatchClass):
            test = ast.Call(func=ast.Name(id="isinstance", ctx=ast.Load()), args=[copy.deepcopy(subj), pat.cls], keywords=[])
            tests = [test]
            binds: dict = {}
            cname = u(pat.cls).split(".")[-1]
            if pat.patterns:
                margs0 = self.resolve_class(pat.cls) if (self.resolve_class and cname not in BUILTIN_SELF_MATCH) else None
                if cname in BUILTIN_SELF_MATCH or margs0 == "self":
                    if len(pat.patterns) != 1:
                        raise NoCanon("builtin class pattern arity")
                    t, b = self.pattern(pat.patterns[0], subj)
                    if t is not None:
                        tests.append(t)
                    binds.update(b)
                else:
                    margs = margs0
                    if margs is None or len(margs) < len(pat.patterns):
                        raise NoCanon(f"__match_args__ of {u(pat.cls)} unknown")
                    for name, p in zip(margs, pat.patterns):
                        t, b = self.pattern(p, ast.Attribute(value=copy.deepcopy(subj), attr=name, ctx=ast.Load()))
                        if t is not None:
                            tests.append(t)
                        binds.update(b)
            for name, p in zip(pat.kwd_attrs, pat.kwd_patterns):
                t, b = self.pattern(p, ast.Attribute(value=copy.deepcopy(subj), attr=name, ctx=ast.Load()))
                if t is not None:
                    tests.append(t)
                binds.update(b)
            return (tests[0] if len(tests) == 1 else ast.BoolOp(op=ast.And(), values=tests)), binds
        if isinstance(pat, ast.MatchSequence) and isinstance(subj, ast.Tuple) and not any(isinstance(p, ast.MatchStar) for p in pat.patterns) \
                and not any(isinstance(e, ast.Starred) for e in subj.elts):
            # match (a, b): case (P, Q): the subject is a tuple written on the spot: P against a, Q against b (a display of another
            # length matches no sequence pattern of this length)
            if len(subj.elts) != len(pat.patterns):
                return ast.Constant(False), {}
            tests, binds = [], {}
            for e_, p_ in zip(subj.elts, pat.patterns):
                t, b = self.pattern(p_, copy.deepcopy(e_))
                if t is not None:
                    tests.append(t)
                binds.update(b)
            if not tests:
                return None, binds
            return (tests[0] if len(tests) == 1 else ast.BoolOp(op=ast.And(), values=tests)), binds
        if isinstance(pat, ast.MatchSequence):
            if any(isinstance(p, ast.MatchStar) for p in pat.patterns):
                raise NoCanon("star pattern")
            ln = ast.Compare(left=ast.Call(func=ast.Name(id="len", ctx=ast.Load()), args=[copy.deepcopy(subj)], keywords=[]), ops=[ast.Eq()],
                             comparators=[ast.Constant(len(pat.patterns))])
            tests = [ast.Call(func=ast.Name(id="isinstance", ctx=ast.Load()), args=[copy.deepcopy(subj), ast.Name(id="Sequence", ctx=ast.Load())], keywords=[]), ln]
            binds = {}
            for i, p in enumerate(pat.patterns):
                t, b = self.pattern(p, ast.Subscript(value=copy.deepcopy(subj), slice=ast.Constant(i), ctx=ast.Load()))
                if t is not None:
                    tests.append(t)
                binds.update(b)
            return ast.BoolOp(op=ast.And(), values=tests), binds
        raise NoCanon(f"pattern {type(pat).__name__}")

    def lower(self, s: ast.Match) -> list[ast.stmt]:
        pre: list[ast.stmt] = []
        subj = s.subject
        if isinstance(subj, ast.NamedExpr) and isinstance(subj.target, ast.Name):
            # match (x := E):  x = E; match x
            pre.append(ast.copy_location(ast.Assign(targets=[ast.Name(id=subj.target.id, ctx=ast.Store())], value=subj.value), s))
            subj = ast.Name(id=subj.target.id, ctx=ast.Load())
        tuple_subject = isinstance(subj, ast.Tuple) and all(_simple_subject(e) or isinstance(e, ast.Constant) for e in subj.elts) \
            and all(isinstance(c.pattern, (ast.MatchSequence, ast.MatchAs)) and (not isinstance(c.pattern, ast.MatchAs) or c.pattern.pattern is None and c.pattern.name is None)
                    for c in s.cases)
        if not _simple_subject(subj) and not tuple_subject:
            self.n += 1
            nm = f"m_subject{self.n}"
            pre.append(ast.copy_location(ast.Assign(targets=[ast.Name(id=nm, ctx=ast.Store())], value=subj), s))
            subj = ast.Name(id=nm, ctx=ast.Load())
        chain = None
        tail = None
        for c in s.cases:
            test, binds = self.pattern(c.pattern, subj)
            body = c.body
            guard = c.guard
            binds = {k: v for k, v in binds.items() if not (isinstance(v, ast.Name) and v.id == k)}      # `case int(x)` on subject x
            if binds:
                assigned = norm._assigned_names(body)
                if guard is not None:
                    guard = norm._Subst(dict(binds)).visit(copy.deepcopy(guard))
                if any(k in assigned for k in binds):
                    # a capture that the arm rebinds is an ordinary local initialised from the subject
                    keep_ = {k: v for k, v in binds.items() if k in assigned}
                    rest_ = {k: v for k, v in binds.items() if k not in assigned}
                    body = [norm._Subst(dict(rest_)).visit(copy.deepcopy(x)) for x in body] if rest_ else body
                    body = [ast.fix_missing_locations(ast.copy_location(ast.Assign(targets=[ast.Name(id=k, ctx=ast.Store())], value=v), c.pattern))
                            for k, v in keep_.items()] + list(body)
                else:
                    body = [norm._Subst(dict(binds)).visit(copy.deepcopy(x)) for x in body]
            if guard is not None:
                test = guard if test is None else ast.BoolOp(op=ast.And(), values=(test.values if isinstance(test, ast.BoolOp) and isinstance(test.op, ast.And) else [test]) + [guard])
            if test is None:
                # irrefutable: becomes the final else
                if chain is None:
                    return pre + body
                tail.orelse = body
                tail = None
                break
            node = ast.copy_location(ast.If(test=test, body=body, orelse=[]), c.pattern)
            if chain is None:
                chain = node
            else:
                tail.orelse = [node]
            tail = node
        return pre + [chain]


def lower_matches(stmts, resolve_class=None):
    ml = MatchLowering(resolve_class)

    def rec(block):
        out = []
        for s in block:
            _recurse_blocks(s, rec)
            if isinstance(s, ast.Match):
                try:
                    for c in s.cases:
                        c.body = rec(c.body)
                    low = ml.lower(s)
                    out += low
                    continue
                except NoCanon:
                    pass
            out.append(s)
        return out
    return rec(stmts)


def _recurse_blocks(s, rec) -> None:
    for fld in ("body", "orelse", "finalbody"):
        b = getattr(s, fld, None)
        if isinstance(b, list) and b and isinstance(b[0], ast.stmt) and not isinstance(s, (ast.FunctionDef, ast.AsyncFunctionDef, ast.ClassDef)):
            setattr(s, fld, rec(b))
    if isinstance(s, ast.Try):
        for h in s.handlers:
            h.body = rec(h.body)


# ---------------------------------------------------------------------------------------
# 2  lift conditional expressions at statement level
def lift_ifexp(stmts):
    def rec(block):
        out = []
        for s in block:
            _recurse_blocks(s, rec)
            if isinstance(s, ast.Match):
                for c in s.cases:
                    c.body = rec(c.body)
            v = getattr(s, "value", None)
            if isinstance(s, (ast.Assign, ast.AnnAssign, ast.Return)) and isinstance(v, ast.IfExp):
                a, b = copy.copy(s), copy.copy(s)
                if isinstance(s, ast.Assign):       # (each branch its own target nodes: analyses keyed by node identity see two stores)
                    a.targets, b.targets = copy.deepcopy(s.targets), copy.deepcopy(s.targets)
                elif isinstance(s, ast.AnnAssign):
                    a.target, b.target = copy.deepcopy(s.target), copy.deepcopy(s.target)
                a.value, b.value = v.body, v.orelse
                node = ast.copy_location(ast.If(test=v.test, body=rec([a]), orelse=rec([b])), s)
                out.append(node)
                continue
            if isinstance(s, (ast.Assign, ast.AnnAssign, ast.Return, ast.Expr)) and isinstance(v, ast.Call) and isinstance(v.func, ast.Name) and v.func.id == "raise_" \
                    and len(v.args) == 1:
                # the refusing alternative of a conditional expression, back as a statement
                out.append(ast.copy_location(ast.Raise(exc=v.args[0], cause=None), s))
                continue
            out.append(s)
        return out
    return rec(stmts)


def lift_walrus(stmts):
    """`if (x := E) <op> ..:`  ->  `x = E` before the `if` (only when the walrus is evaluated unconditionally first)"""
    def first_walrus(e):
        # leftmost-evaluated position: the expression itself, the left operand of a comparison / first operand of a BoolOp,
        # the first argument / receiver of a call
        if isinstance(e, ast.NamedExpr):
            return e
        if isinstance(e, ast.Compare):
            return first_walrus(e.left)
        if isinstance(e, ast.BoolOp):
            return first_walrus(e.values[0])
        if isinstance(e, ast.UnaryOp):
            return first_walrus(e.operand)
        if isinstance(e, ast.Call):
            if isinstance(e.func, ast.Attribute):
                return first_walrus(e.func.value)
            if isinstance(e.func, ast.Name) and e.args:
                return first_walrus(e.args[0])
        if isinstance(e, ast.Attribute):
            return first_walrus(e.value)
        return None

    class R(ast.NodeTransformer):
        def __init__(self, target):
            self.target = target

        def visit_NamedExpr(self, node):
            if node is self.target:
                return ast.copy_location(ast.Name(id=node.target.id, ctx=ast.Load()), node)
            return self.generic_visit(node)

    def rec(block):
        out = []
        for s in block:
            if isinstance(s, ast.If):
                w = first_walrus(s.test)
                while w is not None:
                    out.append(ast.copy_location(ast.Assign(targets=[ast.Name(id=w.target.id, ctx=ast.Store())], value=w.value), s))
                    s.test = R(w).visit(s.test)
                    w = first_walrus(s.test)
            _recurse_blocks(s, rec)
            out.append(s)
        return out
    return rec(stmts)


# ---------------------------------------------------------------------------------------
# 4  polarity
def _negate_needed(t):
    if isinstance(t, ast.UnaryOp) and isinstance(t.op, ast.Not):
        return t.operand
    if isinstance(t, ast.Compare) and len(t.ops) == 1 and isinstance(t.ops[0], ast.Is) and isinstance(t.comparators[0], ast.Constant) and t.comparators[0].value is None:
        return ast.copy_location(ast.Compare(left=t.left, ops=[ast.IsNot()], comparators=t.comparators), t)
    if isinstance(t, ast.Compare) and len(t.ops) == 1 and isinstance(t.ops[0], ast.NotIn):
        return ast.copy_location(ast.Compare(left=t.left, ops=[ast.In()], comparators=t.comparators), t)
    return None


def _unbool(t):
    """a test `bool(E)` is the test `E`"""
    while isinstance(t, ast.Call) and isinstance(t.func, ast.Name) and t.func.id == "bool" and len(t.args) == 1 and not t.keywords:
        t = t.args[0]
    if isinstance(t, ast.UnaryOp) and isinstance(t.op, ast.Not):
        t.operand = _unbool(t.operand)
    elif isinstance(t, ast.BoolOp):
        t.values = [_unbool(v) for v in t.values]
    return t


def polarity(stmts):
    def rec(block):
        out = []
        for s in block:
            _recurse_blocks(s, rec)
            if isinstance(s, (ast.If, ast.While)):
                s.test = _unbool(s.test)
            if isinstance(s, ast.If):
                p = _negate_needed(s.test)
                while p is not None:
                    s.test = p
                    s.body, s.orelse = (s.orelse or [ast.copy_location(ast.Pass(), s)]), s.body
                    p = _negate_needed(s.test)
            out.append(s)
        return out
    return rec(stmts)


def or_default(stmts):
    """`if x: pass else: x = y`  ->  `x = x or y`"""
    def rec(block):
        out = []
        for s in block:
            _recurse_blocks(s, rec)
            if isinstance(s, ast.If) and isinstance(s.test, ast.Name) and _is_pass(s.body) and len(s.orelse) == 1 and isinstance(s.orelse[0], ast.Assign) \
                    and len(s.orelse[0].targets) == 1 and isinstance(s.orelse[0].targets[0], ast.Name) and s.orelse[0].targets[0].id == s.test.id:
                new = ast.Assign(targets=[ast.Name(id=s.test.id, ctx=ast.Store())],
                                 value=ast.BoolOp(op=ast.Or(), values=[ast.Name(id=s.test.id, ctx=ast.Load()), s.orelse[0].value]))
                out.append(ast.copy_location(new, s))
                continue
            out.append(s)
        return out
    return rec(stmts)


# ---------------------------------------------------------------------------------------
# 5  nest tails
def _terminates(block) -> bool:
    if not block:
        return False
    s = block[-1]
    if isinstance(s, (ast.Return, ast.Raise, ast.Continue, ast.Break)):
        return True
    if isinstance(s, ast.Expr) and isinstance(s.value, ast.Call) and u(s.value.func) in ("assert_never", "typing.assert_never", "typing_extensions.assert_never"):
        return True         # NoReturn: raises AssertionError
    if isinstance(s, ast.If):
        return bool(s.orelse) and _terminates(s.body) and _terminates(s.orelse)
    if isinstance(s, ast.Try) and not s.finalbody:
        return _terminates(s.orelse if s.orelse else s.body) and all(_terminates(h.body) for h in s.handlers)
    return False


def _is_pass(block) -> bool:
    return all(isinstance(x, ast.Pass) for x in block)


def nest_tails(stmts):
    def rec(block):
        out = []
        for i, s in enumerate(block):
            rest = block[i + 1:]
            if isinstance(s, ast.If) and rest:
                bt, ot = _terminates(s.body), (_terminates(s.orelse) if s.orelse else False)
                if bt and not ot:
                    s.orelse = ([] if _is_pass(s.orelse) else s.orelse) + rest
                    _recurse_blocks(s, rec)
                    out.append(s)
                    return out
                if ot and not bt:
                    s.body = ([] if _is_pass(s.body) else s.body) + rest
                    _recurse_blocks(s, rec)
                    out.append(s)
                    return out
            _recurse_blocks(s, rec)
            out.append(s)
        return out
    return rec(stmts)


def strip_tail_continue(stmts):
    """a `continue` in tail position of a loop body is a no-op"""
    def strip(block):
        if not block:
            return block
        last = block[-1]
        if isinstance(last, ast.Continue):
            return strip(block[:-1]) or [ast.copy_location(ast.Pass(), last)]
        if isinstance(last, ast.If):
            last.body = strip(last.body)
            if last.orelse:
                last.orelse = strip(last.orelse)
                if _is_pass(last.orelse):
                    last.orelse = []
        return block

    def rec(block):
        for s in block:
            _recurse_blocks(s, rec)
            if isinstance(s, (ast.For, ast.While)):
                s.body = strip(s.body)
        return block
    return rec(stmts)


def strip_tail_return(stmts):
    """in a procedure (every `return` is bare or `return None`, no generator) a return in tail position is a no-op"""
    def own(block):
        for s in block:
            if isinstance(s, (ast.FunctionDef, ast.AsyncFunctionDef, ast.ClassDef, ast.Lambda)):
                continue
            yield s
            for f_, v in ast.iter_fields(s):
                if isinstance(v, list) and v and isinstance(v[0], ast.AST):
                    yield from own(v)
                elif isinstance(v, ast.AST):
                    yield from own([v])
    nodes = list(own(stmts))
    if any(isinstance(n, ast.Return) and n.value is not None and not (isinstance(n.value, ast.Constant) and n.value.value is None) for n in nodes):
        return stmts

    def strip(block):
        if not block:
            return block
        last = block[-1]
        if isinstance(last, ast.Return):
            return strip(block[:-1]) or [ast.copy_location(ast.Pass(), last)]
        if isinstance(last, ast.If):
            last.body = strip(last.body)
            if last.orelse:
                last.orelse = strip(last.orelse)
                if _is_pass(last.orelse):
                    last.orelse = []
            if _is_pass(last.body) and not last.orelse:
                # `if c: return` at the very end: only the test is left (kept when it may have effects)
                if norm.is_pure(last.test):
                    return strip(block[:-1]) or [ast.copy_location(ast.Pass(), last)]
        return block
    return strip(list(stmts))


# ---------------------------------------------------------------------------------------
# 3  helper inlining with single-exit conversion of the callee
def _contains(s, types) -> bool:
    for n in ast.walk(s):
        if isinstance(n, (ast.FunctionDef, ast.Lambda)) and n is not s:
            continue
        if isinstance(n, types):
            return True
    return False


def single_exit(body, on_return):
    """body with every `return v` replaced by on_return(v) (a statement list); what follows a returning `if` runs only on the
    ways through it that fall through (it is pushed into exactly those ends, however deeply the returning branch is nested).
    Raises NoCanon when a return sits inside a loop/with."""
    def rec(stmts, tail):
        """stmts followed by tail (the statements to run when stmts fall through)"""
        out = []
        for i, s in enumerate(stmts):
            rest = stmts[i + 1:]
            if isinstance(s, ast.Return):
                out += on_return(s.value, s)
                return out
            if isinstance(s, ast.Raise):
                out.append(s)
                return out
            if isinstance(s, ast.If) and _contains(s, ast.Return):
                cont = list(rest) + list(tail)
                b = rec(list(s.body), [copy.deepcopy(x) for x in cont])
                o = rec(list(s.orelse), [copy.deepcopy(x) for x in cont])
                out.append(ast.copy_location(ast.If(test=s.test, body=b or [ast.Pass()], orelse=o), s))
                return out
            if isinstance(s, ast.Try) and _contains(s, ast.Return):
                if (rest or tail) and not s.finalbody and not any(_contains(x, ast.Return) for x in s.body):
                    # try: A  except E: .. return ..   followed by REST: REST runs when A went through, or a handler fell through --
                    # unprotected either way: it is the try's `else` and the end of the handlers that fall through
                    cont = list(rest) + list(tail)
                    s2 = copy.copy(s)
                    hs = []
                    for h in s.handlers:
                        h2 = copy.copy(h)
                        h2.body = rec(list(h.body), [copy.deepcopy(x) for x in cont])
                        hs.append(h2)
                    s2.handlers = hs
                    s2.orelse = rec(list(s.orelse), [copy.deepcopy(x) for x in cont])
                    out.append(s2)
                    return out
                if rest or tail:
                    raise NoCanon("return inside try followed by statements")
                s2 = copy.copy(s)
                s2.body = rec(list(s.body), [])
                hs = []
                for h in s.handlers:
                    h2 = copy.copy(h)
                    h2.body = rec(list(h.body), [])
                    hs.append(h2)
                s2.handlers = hs
                s2.orelse = rec(list(s.orelse), [])
                s2.finalbody = rec(list(s.finalbody), [])
                out.append(s2)
                return out
            if _contains(s, ast.Return):
                raise NoCanon("return inside a loop / with / match")
            out.append(s)
        if tail:
            out += rec(list(tail), [])
        return out
    return rec(list(body), [])


def _simple_arg(e) -> bool:
    return isinstance(e, (ast.Name, ast.Constant)) or (isinstance(e, ast.Attribute) and _simple_arg(e.value))


def _ifexp_leaves(e):
    if isinstance(e, ast.IfExp):
        return _ifexp_leaves(e.body) + _ifexp_leaves(e.orelse)
    return [e]


class Inliner:
    def __init__(self, lookup, depth=3):
        """lookup(call) -> (callee FunctionDef, skip_first, prepare) | None; prepare(body) may lower the callee body"""
        self.lookup = lookup
        self.depth = depth
        self.counter = 0
        self.allow_gen = False      # set for the one tail call `return gen_helper(..)` (tail_generator_delegation)

    def expand(self, call: ast.Call, mode: str, target, stmt, d: int, stack):
        """mode: 'expr' (value dropped), 'assign' (target stmt template), 'return'"""
        r = self.lookup(call)
        if r is None or d <= 0:
            return None
        callee, skip = r[0], r[1]
        prepare = r[2] if len(r) > 2 else None
        is_super = isinstance(call.func, ast.Attribute) and isinstance(call.func.value, ast.Call) and u(call.func.value.func) == "super"
        if callee.name in stack and not is_super:        # (super().m() inside m ascends the MRO: no recursion)
            return None
        if _contains(callee, (ast.Yield, ast.YieldFrom, ast.Await)) and not (self.allow_gen and mode == "return" and not _contains(callee, (ast.Await,))):
            return None
        if callee.args.vararg:
            # f(a, *rest) called as f(x, *ys): rest is ys (one starred argument in last position, nothing else for the vararg)
            npos = len(callee.args.posonlyargs + callee.args.args) - (1 if skip else 0)
            if len(call.args) < npos or any(isinstance(a, ast.Starred) for a in call.args[:npos]):
                return None
            extra = list(call.args[npos:])
            vname = callee.args.vararg.arg
            callee = copy.copy(callee)
            callee.args = copy.copy(callee.args)
            callee.args.vararg = None
            call = copy.copy(call)
            call.args = list(call.args[:npos])
            if len(extra) == 1 and isinstance(extra[0], ast.Starred) and isinstance(extra[0].value, ast.Name):
                callee.body = [norm._Rename({vname: extra[0].value.id}).visit(copy.deepcopy(x)) for x in callee.body]
            else:
                # f(a, *rest) called as f(x, y, *zs, *ws): rest is the tuple (y, *zs, *ws)
                if vname in norm._assigned_names(callee.body) or not all(norm.is_pure(a.value if isinstance(a, ast.Starred) else a, _PURE_EXT) for a in extra):
                    return None
                tup = ast.Tuple(elts=[copy.deepcopy(a) for a in extra], ctx=ast.Load())
                callee.body = [norm._Subst({vname: tup}).visit(copy.deepcopy(x)) for x in callee.body]
        if any(isinstance(n, (ast.Global, ast.Nonlocal)) for n in ast.walk(callee)):
            return None
        kw_map = None
        if callee.args.kwarg:
            # f(a, **kw) calling g(a, **kw): the callee's **name is the caller's expression
            stars = [k for k in call.keywords if k.arg is None]
            if len(stars) != 1 or not isinstance(stars[0].value, ast.Name):
                return None
            kw_map = (callee.args.kwarg.arg, stars[0].value.id)
            call = copy.copy(call)
            call.keywords = [k for k in call.keywords if k.arg is not None]
            callee = copy.copy(callee)
            callee.args = copy.copy(callee.args)
            callee.args.kwarg = None
        b = norm.bind_call(callee, call, skip)
        if b is None:
            return None
        body = [copy.deepcopy(s) for s in real_body(callee)]
        if prepare:
            body = prepare(body)
        self.counter += 1
        tag = f"_{callee.name.strip('_')}{self.counter}"
        locals_ = norm._assigned_names(body) - set(b)
        ren = {x: x + tag for x in locals_}
        pre: list[ast.stmt] = []
        mapping: dict[str, ast.expr] = {}
        assigned_params = norm._assigned_names(body) & set(b)
        for p, a in b.items():
            if _simple_arg(a) and p not in assigned_params:
                mapping[p] = a
            elif p not in assigned_params and isinstance(a, (ast.Dict, ast.Tuple, ast.List)) and _table_display(a) \
                    and sum(1 for s_ in body for n in ast.walk(s_) if isinstance(n, ast.Name) and n.id == p) == 1:
                # a table written out at the call and read once by the callee (`for row in table.items()`): read there as written
                mapping[p] = a
            else:
                nm = p + tag
                ren[p] = nm
                pre.append(ast.copy_location(ast.Assign(targets=[ast.Name(id=nm, ctx=ast.Store())], value=copy.deepcopy(a)), call))
        if kw_map is not None:
            ren[kw_map[0]] = kw_map[1]
        body = [norm._Rename(ren).visit(s) for s in body]
        if skip and isinstance(call.func, ast.Attribute) and isinstance(call.func.value, ast.Call) and u(call.func.value.func) == "super":
            # super().m(..): the receiver is self itself; super(D, r).m(..): r
            sa_ = call.func.value.args
            if len(sa_) == 2 and not (isinstance(sa_[1], ast.Name) and sa_[1].id == "self"):
                mapping[(callee.args.posonlyargs + callee.args.args)[0].arg] = sa_[1]
        elif skip and isinstance(call.func, ast.Attribute) and not (isinstance(call.func.value, ast.Name) and call.func.value.id == "self"):
            # (in the same pass as the parameters: an argument that mentions the caller's `self` is not the callee's receiver)
            selfname = (callee.args.posonlyargs + callee.args.args)[0].arg
            mapping[selfname] = call.func.value
        body = [norm._Subst(dict(mapping)).visit(s) for s in body]

        def on_return(v, node):
            if mode == "expr":
                if v is None or norm.is_pure(v):
                    return []
                return [ast.copy_location(ast.Expr(v), node)]
            if mode == "return":
                return [ast.copy_location(ast.Return(value=v), node)]
            s2 = copy.deepcopy(target)
            s2.value = v if v is not None else ast.Constant(None)
            return [s2]
        if mode in ("assign", "return") and not _terminates(body):
            # falling off the end returns None: made explicit, so that it lands only on the ends that do fall through
            body = list(body) + [ast.Return(value=None)]
        try:
            body = single_exit(body, on_return)
        except NoCanon:
            if mode != "return":
                return None
            # `return f(..)`: the callee's returns are the caller's returns wherever they sit
        body = self.rec(pre + body, d - 1, stack + (callee.name,))
        for s in body:
            for n in ast.walk(s):
                if hasattr(n, "lineno"):
                    n.lineno = getattr(call, "lineno", 1)
                    n.end_lineno = getattr(call, "end_lineno", call.lineno)
        return body

    # ---- expression-level inlining of straight-line helpers: Assign* + Return ----------------------------------
    def expr_value(self, call: ast.Call, d: int, stack):
        """the value of `call` as an expression when the callee is `x = ..; y = ..; return E` (params and locals substituted)"""
        r = self.lookup(call)
        if r is None or d <= 0:
            return None
        callee, skip = r[0], r[1]
        if callee.name in stack or callee.args.kwarg or _contains(callee, (ast.Await,)):
            return None
        body = real_body(callee)
        if not body:
            return None
        if len(r) > 2 and r[2] is not None and any(isinstance(n, ast.Match) for x in body for n in ast.walk(x)):
            try:
                body = r[2]([copy.deepcopy(x) for x in body])       # (a helper written as a match: its isinstance chain)
            except NoCanon:
                return None
        star_extra = None
        if callee.args.vararg:
            # f(a, *rest) called with plain positional arguments: rest is the tuple of the extra ones
            if any(isinstance(a, ast.Starred) for a in call.args):
                return None
            npos = len(callee.args.posonlyargs + callee.args.args) - (1 if skip else 0)
            star_extra = (callee.args.vararg.arg, ast.Tuple(elts=[copy.deepcopy(a) for a in call.args[npos:]], ctx=ast.Load()))
            callee = copy.copy(callee)
            callee.args = copy.copy(callee.args)
            callee.args.vararg = None
            call = copy.copy(call)
            call.args = list(call.args[:npos])
        b = norm.bind_call(callee, call, skip)
        if b is None:
            return None
        # (an argument is ONE evaluation: written out at every read of its parameter only if reading it again gives an interchangeable value)
        for p_, a_ in b.items():
            if not (isinstance(a_, ast.Constant) or norm.is_reference(a_) or norm.is_scalar(a_)):
                occ_ = sum(1 for x in body for n in ast.walk(x) if isinstance(n, ast.Name) and n.id == p_ and isinstance(n.ctx, ast.Load))
                if occ_ > 1:
                    return None
        env: dict[str, ast.expr] = {p: copy.deepcopy(a) for p, a in b.items()}
        if star_extra is not None:
            env[star_extra[0]] = star_extra[1]
        if skip and isinstance(call.func, ast.Attribute):
            selfname = (callee.args.posonlyargs + callee.args.args)[0].arg
            rv_ = call.func.value
            if isinstance(rv_, ast.Call) and u(rv_.func) == "super":
                # super().m(..): the receiver is self itself; super(D, r).m(..): r
                rv_ = rv_.args[1] if len(rv_.args) == 2 else ast.Name(id="self", ctx=ast.Load())
            if not (isinstance(rv_, ast.Name) and rv_.id == selfname):
                env[selfname] = copy.deepcopy(rv_)
        if _contains(callee, (ast.Yield, ast.YieldFrom)):
            # a generator helper `for v in S: <refuse or> yield E`: the generator expression (E' for v in S), E' refusing with raise_(..)
            real = [x for x in body if not (isinstance(x, ast.Expr) and isinstance(x.value, ast.Constant))]
            if len(real) != 1 or not isinstance(real[0], ast.For) or real[0].orelse:
                return None
            lp = real[0]
            tn = {n.id for n in ast.walk(lp.target) if isinstance(n, ast.Name)}
            if tn & set(env):
                return None
            # nested loops / filters around one `yield E` or `yield from X`: the generator expression with the same clauses
            def peel(blk):
                """pure single-name temporaries at the head of a loop body written into the statement that follows them"""
                blk = [x for x in blk if not (isinstance(x, ast.Expr) and isinstance(x.value, ast.Constant))]
                sub_ = {}
                while len(blk) > 1 and isinstance(blk[0], ast.Assign) and len(blk[0].targets) == 1 and isinstance(blk[0].targets[0], ast.Name):
                    v_ = norm._Subst(dict(sub_)).visit(copy.deepcopy(blk[0].value))
                    nm_ = blk[0].targets[0].id
                    if not norm.is_pure(v_, _PURE_EXT) or nm_ in env or nm_ in norm._assigned_names(blk[1:]):
                        return None
                    sub_[nm_] = v_
                    blk = blk[1:]
                if len(blk) != 1:
                    return None
                return norm._Subst(dict(sub_)).visit(copy.deepcopy(blk[0])) if sub_ else blk[0]
            lp_one = peel(lp.body)
            if lp_one is not None and (isinstance(lp_one, (ast.For, ast.If)) or (isinstance(lp_one, ast.Expr) and isinstance(lp_one.value, ast.YieldFrom))) \
                    and not (len(lp.body) == 1 and isinstance(lp_one, ast.If) and lp_one.orelse):
                gens = []

                def nest(st):
                    if isinstance(st, ast.For) and not st.orelse and not st.type_comment:
                        one = peel(st.body)
                        if one is None:
                            return None
                        gens.append(ast.comprehension(target=copy.deepcopy(st.target), iter=copy.deepcopy(st.iter), ifs=[], is_async=0))
                        return nest(one)
                    if isinstance(st, ast.If) and not st.orelse and len(st.body) == 1 and gens:
                        gens[-1].ifs.append(copy.deepcopy(st.test))
                        return nest(st.body[0])
                    if isinstance(st, ast.Expr) and isinstance(st.value, ast.Yield) and st.value.value is not None:
                        return copy.deepcopy(st.value.value)
                    if isinstance(st, ast.Expr) and isinstance(st.value, ast.YieldFrom):
                        self.counter += 1
                        v_ = f"y{self.counter}_"
                        gens.append(ast.comprehension(target=ast.Name(id=v_, ctx=ast.Store()), iter=copy.deepcopy(st.value.value), ifs=[], is_async=0))
                        return ast.Name(id=v_, ctx=ast.Load())
                    return None
                elt = nest(lp)
                bound = {n.id for g in gens for n in ast.walk(g.target) if isinstance(n, ast.Name)}
                if elt is not None and not (bound & set(env)) and not any(isinstance(n, (ast.Yield, ast.YieldFrom, ast.NamedExpr)) for g in gens for x in [g.iter, *g.ifs] for n in ast.walk(x)):
                    val = norm._Subst(dict(env)).visit(ast.GeneratorExp(elt=elt, generators=gens))
                    ast.copy_location(val, call)
                    ast.fix_missing_locations(val)
                    return val
                if not (isinstance(lp_one, ast.If) and lp_one.orelse):
                    return None

            class Y(ast.NodeTransformer):
                def visit_Expr(self, node):
                    if isinstance(node.value, ast.Yield) and node.value.value is not None:
                        return ast.copy_location(ast.Return(value=node.value.value), node)
                    return node
            lb = [Y().visit(copy.deepcopy(x)) for x in lp.body]
            if _contains(ast.Module(body=lb, type_ignores=[]), (ast.Yield, ast.For, ast.While)):
                return None
            elt = self._body_expr(lb, {k: v for k, v in env.items()}, 0)
            if elt is None or (isinstance(elt, ast.Constant) and elt.value is None):
                return None
            # every way through the loop body yields or refuses (no silent filtering)
            if any(isinstance(n, ast.Constant) and n.value is None for n in _ifexp_leaves(elt)):
                return None
            val = ast.GeneratorExp(elt=elt, generators=[ast.comprehension(target=copy.deepcopy(lp.target), iter=norm._Subst(dict(env)).visit(copy.deepcopy(lp.iter)), ifs=[], is_async=0)])
            ast.copy_location(val, call)
            ast.fix_missing_locations(val)
            return val
        if not isinstance(body[-1], ast.Return) or body[-1].value is None or any(isinstance(x, (ast.If, ast.Raise)) for x in body[:-1]):
            # branching / refusing helpers: a conditional expression, with raise_(exc) standing for a raising branch
            val = self._body_expr(list(body), env, 0)
            if val is None:
                return None
            val = self.inline_exprs(val, d - 1, stack + (callee.name,))
            for n in ast.walk(val):
                if hasattr(n, "lineno"):
                    n.lineno = getattr(call, "lineno", 1)
            return val
        for st in body[:-1]:
            if isinstance(st, ast.Expr) and isinstance(st.value, ast.Constant):
                continue
            if isinstance(st, ast.Assert):
                continue
            if isinstance(st, (ast.Assign, ast.AnnAssign)) and st.value is not None:
                tg = st.targets[0] if isinstance(st, ast.Assign) and len(st.targets) == 1 else (st.target if isinstance(st, ast.AnnAssign) else None)
                v = norm._Subst(dict(env)).visit(copy.deepcopy(st.value))
                if isinstance(tg, ast.Name):
                    # a temporary read more than once stands for ONE evaluation: only names / scalars may be written out at every read
                    later = body[body.index(st) + 1:]
                    reads = sum(1 for x in later for n in ast.walk(x) if isinstance(n, ast.Name) and n.id == tg.id and isinstance(n.ctx, ast.Load))
                    if reads > 1 and not (norm.is_reference(v) or norm.is_scalar(v) or isinstance(v, ast.Constant)):
                        return None
                    env[tg.id] = v
                    continue
                if isinstance(tg, ast.Tuple) and all(isinstance(e, ast.Name) for e in tg.elts):
                    if isinstance(v, ast.Tuple) and len(v.elts) == len(tg.elts):
                        for e, x in zip(tg.elts, v.elts):
                            env[e.id] = x
                    else:
                        # (a, b = f(..): written out as f(..)[0], f(..)[1] only when evaluating f(..) again gives an interchangeable value)
                        mapped = isinstance(v, (ast.GeneratorExp, ast.ListComp)) and len(v.generators) == 1 and not v.generators[0].ifs \
                            and norm.is_reference(v.generators[0].iter) and norm.is_pure(v.elt, _PURE_EXT)       # (E(x) for x in pair)[i] is E(pair[i])
                        if not (norm.is_reference(v) or norm.is_scalar(v) or mapped):
                            return None
                        for i, e in enumerate(tg.elts):
                            env[e.id] = ast.Subscript(value=copy.deepcopy(v), slice=ast.Constant(i), ctx=ast.Load())
                    continue
            return None
        val = norm._Subst(dict(env)).visit(copy.deepcopy(body[-1].value))
        val = ast.fix_missing_locations(_ExprNorm().visit(val))       # (map(self._h, xs) returned by a helper: _h is then seen)
        val = self.inline_exprs(val, d - 1, stack + (callee.name,))
        for n in ast.walk(val):
            if hasattr(n, "lineno"):
                n.lineno = getattr(call, "lineno", 1)
        return val

    def _body_expr(self, stmts, env, depth):
        """value of a helper body as an expression: assignments are substituted, if/else becomes a conditional expression,
        `raise X` becomes raise_(X); None when something else (loops, effects) is met"""
        if depth > 6:
            return None
        env = dict(env)
        for i, st in enumerate(stmts):
            if isinstance(st, ast.Expr) and isinstance(st.value, ast.Constant):
                continue
            if isinstance(st, ast.Pass):
                continue
            if isinstance(st, (ast.Assign, ast.AnnAssign)) and st.value is not None:
                tg = st.targets[0] if isinstance(st, ast.Assign) and len(st.targets) == 1 else (st.target if isinstance(st, ast.AnnAssign) else None)
                if isinstance(tg, ast.Tuple) and isinstance(st.value, ast.Tuple) and len(tg.elts) == len(st.value.elts) \
                        and all(isinstance(t_, ast.Name) for t_ in tg.elts) and norm.is_pure(st.value, _PURE_EXT):
                    vals_ = [norm._Subst(dict(env)).visit(copy.deepcopy(v_)) for v_ in st.value.elts]
                    for t_, v_ in zip(tg.elts, vals_):
                        env[t_.id] = v_
                    continue
                if isinstance(tg, ast.Tuple) and isinstance(st.value, ast.Tuple) and len(tg.elts) == len(st.value.elts) \
                        and all(isinstance(t_, ast.Name) for t_ in tg.elts) and len({t_.id for t_ in tg.elts}) == len(tg.elts) \
                        and not ({t_.id for t_ in tg.elts} & {n.id for n in ast.walk(st.value) if isinstance(n, ast.Name)}):
                    # a, b = f(..), g(..): the same as a = f(..); b = g(..) (left to right, no target read on the right)
                    seq = [ast.copy_location(ast.Assign(targets=[t_], value=v_), st) for t_, v_ in zip(tg.elts, st.value.elts)]
                    return self._body_expr(seq + list(stmts[i + 1:]), {k: v for k, v in env.items()}, depth + 1)
                if not isinstance(tg, ast.Name):
                    return None
                if not norm.is_pure(st.value, _PURE_EXT):
                    # an effectful temporary: written into the result where it is read, if it is read exactly once there and the
                    # temporaries are read in the order they were computed (checked at the return)
                    env.setdefault("\0impure", [])
                    env["\0impure"] = list(env["\0impure"]) + [tg.id]
                env[tg.id] = norm._Subst({k: v for k, v in env.items() if k != "\0impure"}).visit(copy.deepcopy(st.value))
                continue
            if isinstance(st, ast.Return):
                imp = env.get("\0impure", [])
                if imp:
                    if st.value is None:
                        return None
                    order = [n.id for n in ast.walk(st.value) if isinstance(n, ast.Name) and n.id in imp]
                    # ast.walk is breadth-first: compare by source position instead
                    order = [n.id for n in sorted((n for n in ast.walk(st.value) if isinstance(n, ast.Name) and n.id in imp),
                                                  key=lambda n: (getattr(n, "lineno", 0), getattr(n, "col_offset", 0)))]
                    own_calls = [c for c in ast.walk(st.value) if isinstance(c, ast.Call) and not norm.is_pure(c, _PURE_EXT)]
                    if order != imp or own_calls:
                        return None
                return norm._Subst({k: v for k, v in env.items() if k != "\0impure"}).visit(copy.deepcopy(st.value)) if st.value is not None else ast.Constant(None)
            if isinstance(st, ast.Raise) and st.exc is not None:
                if env.get("\0impure"):
                    return None
                return ast.Call(func=ast.Name(id="raise_", ctx=ast.Load()), args=[norm._Subst(dict(env)).visit(copy.deepcopy(st.exc))], keywords=[])
            if isinstance(st, ast.If):
                rest = stmts[i + 1:]
                a = self._body_expr(list(st.body) + rest, env, depth + 1)
                b_ = self._body_expr(list(st.orelse) + rest, env, depth + 1)
                if a is None or b_ is None or env.get("\0impure"):
                    return None
                return ast.IfExp(test=norm._Subst(dict(env)).visit(copy.deepcopy(st.test)), body=a, orelse=b_)
            return None
        return ast.Constant(None)

    def inline_exprs(self, node, d, stack, top=None):
        """`top`: the call that is the whole value of the statement: a branching / refusing helper there is inlined as statements
        (its refusals stay `raise` statements), only nested ones become conditional expressions"""
        me = self

        class X(ast.NodeTransformer):
            cond = 0        # > 0 inside a conditionally / repeatedly evaluated position (where hoisting into a statement is impossible)

            def visit_Call(self, n):
                self.generic_visit(n)
                if n is top or self.cond == 0:
                    # evaluated exactly once with the statement: a branching / refusing helper is hoisted and inlined as statements
                    r = me.lookup(n)
                    if r is not None and _contains(r[0], (ast.If, ast.Raise, ast.Try, ast.For, ast.While)) and not _contains(r[0], (ast.Yield, ast.YieldFrom)):
                        return n            # (a generator helper is lazy: it can only become a generator expression)
                v = me.expr_value(n, d, stack)
                return v if v is not None else n

            def visit_IfExp(self, n):
                n.test = self.visit(n.test)
                self.cond += 1
                n.body, n.orelse = self.visit(n.body), self.visit(n.orelse)
                self.cond -= 1
                return n

            def visit_BoolOp(self, n):
                n.values[0] = self.visit(n.values[0])
                self.cond += 1
                n.values[1:] = [self.visit(v) for v in n.values[1:]]
                self.cond -= 1
                return n

            def visit_Lambda(self, n):
                self.cond += 1
                n.body = self.visit(n.body)
                self.cond -= 1
                return n

            def _comp(self, n):
                n.generators[0].iter = self.visit(n.generators[0].iter)
                self.cond += 1
                for i_, g in enumerate(n.generators):
                    if i_:
                        g.iter = self.visit(g.iter)
                    g.ifs = [self.visit(x) for x in g.ifs]
                for f_ in ("elt", "key", "value"):
                    if hasattr(n, f_):
                        setattr(n, f_, self.visit(getattr(n, f_)))
                self.cond -= 1
                return n
            visit_ListComp = visit_SetComp = visit_DictComp = visit_GeneratorExp = _comp

            def visit_FunctionDef(self, n):
                return n
        return X().visit(node)

    def hoist(self, s, d, stack):
        """calls of (non straight-line) helpers nested in an unconditional position of statement s are bound to
        temporaries first, so that statement-level inlining applies:  f(g(x))  ->  t = g(x); f(t)"""
        pre = []
        me = self

        def top(e):
            # (the whole value of an expression statement / assignment / return is expanded in place; `x += f(..)` has no such form)
            return e is getattr(s, "value", None) and not isinstance(s, ast.AugAssign)

        class H(ast.NodeTransformer):
            def visit_Call(self, n):
                self.generic_visit(n)
                if top(n) or me.lookup(n) is None or d <= 0:
                    return n
                me.counter += 1
                nm = f"t_{call_tag(n)}{me.counter}"
                pre.append(ast.copy_location(ast.Assign(targets=[ast.Name(id=nm, ctx=ast.Store())], value=n), s))
                return ast.copy_location(ast.Name(id=nm, ctx=ast.Load()), n)

            # conditionally / repeatedly evaluated positions are left alone
            def visit_IfExp(self, n):
                n.test = self.visit(n.test)
                return n

            def visit_BoolOp(self, n):
                n.values[0] = self.visit(n.values[0])
                return n

            def visit_Lambda(self, n):
                return n

            def _comp(self, n):
                n.generators[0].iter = self.visit(n.generators[0].iter)
                return n
            visit_ListComp = visit_SetComp = visit_DictComp = visit_GeneratorExp = _comp

        def call_tag(n):
            f = n.func
            return (f.attr if isinstance(f, ast.Attribute) else getattr(f, "id", "f")).strip("_")
        if isinstance(s, (ast.Expr, ast.Assign, ast.AnnAssign, ast.Return, ast.AugAssign)) and getattr(s, "value", None) is not None:
            s.value = H().visit(s.value)
        elif isinstance(s, (ast.If, ast.While)) and isinstance(s, ast.If):
            s.test = H().visit(s.test)
        return pre

    EAGER = {"list", "tuple", "sorted", "set", "frozenset", "sum", "bytes", "bytearray", "dict", "max", "min"}

    def _collect_generator(self, s, d, stack):
        if not isinstance(s, (ast.Return, ast.Assign, ast.AnnAssign, ast.Expr)) or getattr(s, "value", None) is None or d <= 0:
            return None
        found = []

        def scan(e):
            # unconditional positions only
            if isinstance(e, ast.Call):
                eager = (isinstance(e.func, ast.Name) and e.func.id in self.EAGER) or \
                    (isinstance(e.func, ast.Attribute) and e.func.attr == "join" and isinstance(e.func.value, (ast.Constant, ast.Name)))
                if eager and len(e.args) == 1 and not e.keywords and isinstance(e.args[0], ast.Call):
                    r = self.lookup(e.args[0])
                    if r is not None and _contains(r[0], (ast.Yield, ast.YieldFrom)):
                        found.append(e)
                        return
                for a in e.args:
                    scan(a.value if isinstance(a, ast.Starred) else a)
                for k in e.keywords:
                    scan(k.value)
                if isinstance(e.func, ast.Attribute):
                    scan(e.func.value)
            elif isinstance(e, ast.List) and len(e.elts) == 1 and isinstance(e.elts[0], ast.Starred) and isinstance(e.elts[0].value, ast.Call) \
                    and self.lookup(e.elts[0].value) is not None and _contains(self.lookup(e.elts[0].value)[0], (ast.Yield, ast.YieldFrom)):
                found.append(e)         # [*g(..)]: the list of everything g yields
            elif isinstance(e, (ast.Tuple, ast.List)):
                for x in e.elts:
                    scan(x.value if isinstance(x, ast.Starred) else x)
            elif isinstance(e, ast.Attribute):
                scan(e.value)
        scan(s.value)
        if len(found) != 1:
            return None
        cons = found[0]
        gcall = cons.args[0] if isinstance(cons, ast.Call) else cons.elts[0].value
        r = self.lookup(gcall)
        callee = r[0]
        if callee.name in stack or any(isinstance(n, ast.Return) and n.value is not None for n in ast.walk(callee)):
            return None
        if any(isinstance(n, ast.Call) and isinstance(n.func, (ast.Name, ast.Attribute)) and (n.func.id if isinstance(n.func, ast.Name) else n.func.attr) == callee.name
               for n in ast.walk(callee)):
            return None         # recursive: one level written out is no simpler than the call
        self.counter += 1
        acc = f"acc_{callee.name.strip('_')}{self.counter}"
        direct = False
        if isinstance(s, ast.Assign) and len(s.targets) == 1 and isinstance(s.targets[0], ast.Name) and s.value is cons and (
                isinstance(cons, ast.List) or (isinstance(cons.func, ast.Name) and cons.func.id == "list")) \
                and not any(isinstance(n, ast.Name) and n.id == s.targets[0].id for n in ast.walk(gcall)):
            # x = list(g(..)): x itself is the list the yields are collected in
            acc, direct = s.targets[0].id, True

        class Y(ast.NodeTransformer):
            def visit_Expr(self, node):
                v = node.value
                if isinstance(v, ast.Yield) and v.value is not None:
                    return ast.copy_location(ast.Expr(ast.Call(func=ast.Attribute(value=ast.Name(id=acc, ctx=ast.Load()), attr="append", ctx=ast.Load()), args=[v.value], keywords=[])), node)
                if isinstance(v, ast.YieldFrom):
                    return ast.copy_location(ast.Expr(ast.Call(func=ast.Attribute(value=ast.Name(id=acc, ctx=ast.Load()), attr="extend", ctx=ast.Load()), args=[v.value], keywords=[])), node)
                return node

            def visit_FunctionDef(self, node):
                return node
            visit_Lambda = visit_FunctionDef
        c2 = copy.copy(callee)
        c2.body = [Y().visit(copy.deepcopy(x)) for x in real_body(callee)]
        if _contains(c2, (ast.Yield, ast.YieldFrom)):
            return None         # a yield whose value is used
        old = self.lookup
        self.lookup = lambda call_: (c2, r[1]) + tuple(r[2:]) if call_ is gcall else old(call_)
        try:
            body = self.expand(gcall, "expr", None, s, d, stack)
        finally:
            self.lookup = old
        if body is None:
            return None
        if isinstance(cons, ast.Call):
            cons.args[0] = ast.Name(id=acc, ctx=ast.Load())
        else:
            cons.elts[0].value = ast.Name(id=acc, ctx=ast.Load())
        init = ast.copy_location(ast.Assign(targets=[ast.Name(id=acc, ctx=ast.Store())], value=ast.List(elts=[], ctx=ast.Load())), s)
        return [ast.fix_missing_locations(init)] + body + ([] if direct else [s])

    def _comp_as_loop(self, s, d, stack):
        if not (isinstance(s, ast.Assign) and len(s.targets) == 1 and isinstance(s.value, ast.ListComp) and d > 0):
            return None
        tgt, comp = s.targets[0], s.value
        if not (isinstance(tgt, ast.Name) or norm._attr_chain(tgt) is not None) or len(comp.generators) != 1 or comp.generators[0].is_async:
            return None
        g = comp.generators[0]
        calls = [n for n in ast.walk(comp.elt) if isinstance(n, ast.Call) and self.lookup(n) is not None]
        if not calls or any(isinstance(n, (ast.ListComp, ast.SetComp, ast.DictComp, ast.GeneratorExp, ast.Lambda, ast.IfExp, ast.BoolOp)) for n in ast.walk(comp.elt)):
            return None
        if any(isinstance(n, ast.Call) and self.lookup(n) is not None for x in [g.iter] + g.ifs for n in ast.walk(x)):
            return None
        tt = u(tgt)
        if any(u(n) == tt for x in (comp.elt, g.iter, *g.ifs) for n in ast.walk(x) if isinstance(n, (ast.Name, ast.Attribute))):
            return None
        app = ast.Expr(value=ast.Call(func=ast.Attribute(value=copy.deepcopy(tgt), attr="append", ctx=ast.Load()), args=[comp.elt], keywords=[]))
        for n in ast.walk(app.value.func):
            if hasattr(n, "ctx"):
                n.ctx = ast.Load()
        body = [app]
        for t in reversed(g.ifs):
            body = [ast.If(test=t, body=body, orelse=[])]
        loop = ast.For(target=g.target, iter=g.iter, body=body, orelse=[])
        init = ast.Assign(targets=[tgt], value=ast.List(elts=[], ctx=ast.Load()))
        return [ast.fix_missing_locations(ast.copy_location(x, s)) for x in (init, loop)]

    def tail_generator_delegation(self, b, stack):
        """def f(..): <prefix>; return g(..)   with g a generator helper and no other valued return / yield in f: f hands out g's
        generator, so f is the generator `<prefix>; <body of g>` (up to when the prefix runs: at the call or at the first next())"""
        for _ in range(3):
            if not b or not isinstance(b[-1], ast.Return) or not isinstance(b[-1].value, ast.Call):
                return b
            r = self.lookup(b[-1].value)
            if r is None or not _contains(r[0], (ast.Yield, ast.YieldFrom)):
                return b
            own = [n for s_ in b[:-1] for n in ast.walk(s_) if not isinstance(s_, (ast.FunctionDef, ast.ClassDef))]
            if any(isinstance(n, (ast.Yield, ast.YieldFrom)) or (isinstance(n, ast.Return) and n.value is not None) for n in own):
                return b
            self.allow_gen = True
            try:
                body = self.expand(b[-1].value, "return", None, b[-1], 1, stack)
            finally:
                self.allow_gen = False
            if body is None:
                return b
            b = b[:-1] + body
        return b

    def rec(self, stmts, d, stack):
        out = []
        for s in stmts:
            if isinstance(s, (ast.FunctionDef, ast.ClassDef, ast.AsyncFunctionDef)):
                out.append(s)
                continue
            # 1 straight-line helpers become expressions, wherever they are called
            if not isinstance(s, (ast.Try, ast.With, ast.For, ast.While, ast.If, ast.Match)):
                top = s.value if isinstance(s, (ast.Expr, ast.Assign, ast.AnnAssign, ast.Return)) and isinstance(getattr(s, "value", None), ast.Call) else None
                s = self.inline_exprs(s, d, stack, top)
            else:
                for fld in ("test", "iter", "subject"):
                    if hasattr(s, fld):
                        setattr(s, fld, self.inline_exprs(getattr(s, fld), d, stack))
            # 1a a generator helper consumed whole (b"".join(g(..)), list(g(..)), ..): its body runs here, each `yield X` appending to a list
            col = self._collect_generator(s, d, stack)
            if col is not None:
                out += self.rec(col, d, stack)
                continue
            # 1b a comprehension whose element calls a helper that is not an expression (several statements, effects in
            #    between) is the accumulate loop it abbreviates: the helper's statements then become the loop body
            loop = self._comp_as_loop(s, d, stack)
            if loop is not None:
                out += self.rec(loop, d, stack)
                continue
            # 2 other helpers nested in the statement are hoisted into temporaries
            pre = self.hoist(s, d, stack)
            if pre:
                out += self.rec(pre, d, stack)
            body = None
            if isinstance(s, ast.Expr) and isinstance(s.value, ast.Call):
                body = self.expand(s.value, "expr", None, s, d, stack)
            elif isinstance(s, (ast.Assign, ast.AnnAssign)) and isinstance(s.value, ast.Call):
                body = self.expand(s.value, "assign", s, s, d, stack)
            elif isinstance(s, ast.Return) and isinstance(s.value, ast.Call):
                body = self.expand(s.value, "return", None, s, d, stack)
            if body is not None:
                out += body
                continue
            _recurse_blocks(s, lambda b: self.rec(b, d, stack))
            if isinstance(s, ast.Match):
                for c in s.cases:
                    c.body = self.rec(c.body, d, stack)
            out.append(s)
        return out


def _always_assigns(body) -> bool:
    return _terminates_or_assigns(body)


def _terminates_or_assigns(block) -> bool:
    if not block:
        return False
    s = block[-1]
    if isinstance(s, (ast.Assign, ast.AnnAssign, ast.Raise)):
        return True
    if isinstance(s, ast.If):
        return bool(s.orelse) and _terminates_or_assigns(s.body) and _terminates_or_assigns(s.orelse)
    if isinstance(s, ast.Try):
        return True
    return False


def _append_fallthrough(body, stmt):
    """append stmt to every fall-through end of body"""
    if not body:
        return [stmt]
    last = body[-1]
    if isinstance(last, (ast.Return, ast.Raise)):
        return body
    if isinstance(last, ast.If) and (_terminates(last.body) or _terminates(last.orelse)):
        if not _terminates(last.body):
            last.body = _append_fallthrough(last.body, copy.deepcopy(stmt))
        if not last.orelse or not _terminates(last.orelse):
            last.orelse = _append_fallthrough(last.orelse, copy.deepcopy(stmt))
        return body
    return body + [stmt]


# ---------------------------------------------------------------------------------------
# 8 / 9  expression level
def _byte_format(e):
    """number of fields of a struct format consisting of unsigned bytes only ("BB", "<3B"), else None"""
    if not (isinstance(e, ast.Constant) and isinstance(e.value, str)):
        return None
    import re as _re
    f = e.value.strip()
    if f[:1] in "@=<>!":
        f = f[1:]
    n = 0
    for cnt, ch in _re.findall(r"(\d*)([A-Za-z?])", f):
        if ch != "B":
            return None
        n += int(cnt) if cnt else 1
    if _re.sub(r"\d*[A-Za-z?]|\s", "", f) or n == 0 or n > 16:
        return None
    return n


def _struct_of(e):
    """the format constant of struct.Struct(fmt)"""
    if isinstance(e, ast.Call) and u(e.func) in ("struct.Struct", "Struct") and len(e.args) == 1 and not e.keywords:
        return e.args[0]
    return None


def _struct_call(node):
    f = node.func
    fmt = args = None
    kind = None
    if isinstance(f, ast.Attribute) and _struct_of(f.value) is not None and f.attr in ("pack", "unpack_from", "unpack"):
        fmt, args, kind = _struct_of(f.value), list(node.args), f.attr
    elif u(f) in ("struct.pack", "struct.unpack_from", "struct.unpack", "struct.calcsize") and node.args:
        fmt, args, kind = node.args[0], list(node.args[1:]), u(f).split(".")[1]
    if fmt is None or node.keywords or any(isinstance(a, ast.Starred) for a in args):
        return None
    n = _byte_format(fmt)
    if n is None:
        return None
    if kind == "calcsize" and not args:
        return ast.Constant(n)
    if kind == "pack" and len(args) == n:
        return ast.Call(func=ast.Name(id="bytes", ctx=ast.Load()), args=[ast.List(elts=args, ctx=ast.Load())], keywords=[])
    if kind in ("unpack_from", "unpack") and args and norm.is_reference(args[0]):
        off = args[1] if kind == "unpack_from" and len(args) == 2 else (ast.Constant(0) if len(args) == 1 else None)
        if off is None or not (isinstance(off, ast.Constant) and type(off.value) is int and off.value >= 0):
            return None
        # (unpack_from refuses a buffer that is too short with struct.error where indexing raises IndexError: the same inputs)
        return ast.Tuple(elts=[ast.Subscript(value=copy.deepcopy(args[0]), slice=ast.Constant(off.value + i), ctx=ast.Load()) for i in range(n)], ctx=ast.Load())
    return None


def _callee_locals(stmts):
    """f = <pure expression>  ..  f(args)   with f read exactly once, as the callee of a later statement of the same block, and nothing
    in between rebinding what the expression reads:  the expression is called directly (`TABLE[k](args)`, a handler picked first)"""
    def block(b):
        b = list(b)
        i = 0
        while i < len(b):
            s_ = b[i]
            _recurse_blocks(s_, block)
            if isinstance(s_, (ast.Assign, ast.AnnAssign)) and s_.value is not None and not isinstance(s_.value, (ast.Lambda, ast.Name, ast.Constant)):
                tg = s_.targets[0] if isinstance(s_, ast.Assign) and len(s_.targets) == 1 else (s_.target if isinstance(s_, ast.AnnAssign) else None)
                if isinstance(tg, ast.Name) and norm.is_pure(s_.value) and isinstance(s_.value, (ast.Subscript, ast.IfExp, ast.Attribute)):
                    x = tg.id
                    free = {n.id for n in ast.walk(s_.value) if isinstance(n, ast.Name)}
                    for j in range(i + 1, len(b)):
                        t_ = b[j]
                        uses = [n for n in ast.walk(t_) if isinstance(n, ast.Name) and n.id == x]
                        if uses:
                            calls = [n for n in ast.walk(t_) if isinstance(n, ast.Call) and isinstance(n.func, ast.Name) and n.func.id == x]
                            total = sum(1 for q in stmts_all for n in ast.walk(q) if isinstance(n, ast.Name) and n.id == x)
                            if len(uses) == 1 and len(calls) == 1 and total == 2 and isinstance(t_, (ast.Assign, ast.AnnAssign, ast.Return, ast.Expr)) \
                                    and (t_.value is calls[0]):
                                calls[0].func = s_.value
                                del b[i]
                                i -= 1
                            break
                        if norm._assigned_names([t_]) & free or isinstance(t_, (ast.FunctionDef, ast.ClassDef)):
                            break
            i += 1
        return b
    stmts_all = stmts
    return block(stmts)


def _is_count(e) -> bool:
    """an integer count: len(..), integer literals and +,-,* of those (no float, string or list can hide in it)"""
    if isinstance(e, ast.Constant):
        return type(e.value) is int
    if isinstance(e, ast.Call):
        return isinstance(e.func, ast.Name) and e.func.id == "len"
    if isinstance(e, ast.BinOp):
        if isinstance(e.op, (ast.Add, ast.Sub)):
            # one side a count makes the other a number too (len(x) + y raises unless y is numeric); floats are not used as counts here
            return _is_count(e.left) or _is_count(e.right)
        return isinstance(e.op, ast.Mult) and _is_count(e.left) and _is_count(e.right)
    return False


def _drop_unused_enumerate(comp) -> None:
    """for i, x in enumerate(X) with i read nowhere in the comprehension  ->  for x in X"""
    for k, g in enumerate(comp.generators):
        it = g.iter
        if not (isinstance(it, ast.Call) and isinstance(it.func, ast.Name) and it.func.id == "enumerate" and len(it.args) == 1 and not it.keywords
                and isinstance(g.target, ast.Tuple) and len(g.target.elts) == 2 and isinstance(g.target.elts[0], ast.Name)):
            continue
        i = g.target.elts[0].id
        parts = list(g.ifs) + [x for g2 in comp.generators[k + 1:] for x in [g2.iter, *g2.ifs]] + [getattr(comp, f) for f in ("elt", "key", "value") if hasattr(comp, f)]
        if any(isinstance(n, ast.Name) and n.id == i for e in parts for n in ast.walk(e)):
            continue
        if any(isinstance(n, ast.Name) and n.id == i for n in ast.walk(g.target.elts[1])):
            continue
        g.target, g.iter = g.target.elts[1], it.args[0]


def _never_none_elt(comp) -> bool:
    """the comprehension's element is certainly not None: a display, a number / string, or the index bound by enumerate"""
    e = comp.elt
    if isinstance(e, (ast.Tuple, ast.List, ast.Dict, ast.Set, ast.JoinedStr)):
        return True
    if isinstance(e, ast.Call) and isinstance(e.func, (ast.Name, ast.Attribute)):
        # a class called by its (capitalised) name constructs an instance
        nm = (e.func.id if isinstance(e.func, ast.Name) else e.func.attr).lstrip("_")
        if nm[:1].isupper() and not nm.isupper():
            return True
    if isinstance(e, ast.Constant):
        return e.value is not None
    if isinstance(e, ast.Name):
        for g in comp.generators:
            it = g.iter
            if isinstance(it, ast.Call) and isinstance(it.func, ast.Name) and isinstance(g.target, ast.Tuple) and g.target.elts and isinstance(g.target.elts[0], ast.Name):
                if it.func.id == "enumerate" and g.target.elts[0].id == e.id:
                    return True
            if isinstance(it, ast.Call) and isinstance(it.func, ast.Name) and it.func.id == "range" and isinstance(g.target, ast.Name) and g.target.id == e.id:
                return True
    return False


_OPERATOR_CMP = {"is_": ast.Is, "is_not": ast.IsNot, "eq": ast.Eq, "ne": ast.NotEq, "lt": ast.Lt, "le": ast.LtE, "gt": ast.Gt, "ge": ast.GtE}


class _ExprNorm(ast.NodeTransformer):
    def visit_Compare(self, node):
        self.generic_visit(node)
        # None is not x  ->  x is not None      (symmetric tests are written with the constant on the right)
        if len(node.ops) == 1 and isinstance(node.ops[0], (ast.Is, ast.IsNot)) and isinstance(node.left, ast.Constant) and node.left.value is None \
                and not isinstance(node.comparators[0], ast.Constant):
            node = ast.copy_location(ast.Compare(left=node.comparators[0], ops=node.ops, comparators=[node.left]), node)
        # next((e for .. if C), None) is not None  ->  any(C for ..)     (e never None: the default is returned iff nothing passes the filter)
        if len(node.ops) == 1 and isinstance(node.ops[0], (ast.Is, ast.IsNot)) and isinstance(node.comparators[0], ast.Constant) and node.comparators[0].value is None:
            c = node.left
            if isinstance(c, ast.Call) and isinstance(c.func, ast.Name) and c.func.id == "next" and len(c.args) == 2 and not c.keywords \
                    and isinstance(c.args[1], ast.Constant) and c.args[1].value is None and isinstance(c.args[0], ast.GeneratorExp) and _never_none_elt(c.args[0]):
                g = copy.deepcopy(c.args[0])
                last = g.generators[-1]
                if last.ifs:
                    test = last.ifs[0] if len(last.ifs) == 1 else ast.BoolOp(op=ast.And(), values=list(last.ifs))
                    last.ifs = []
                else:
                    test = ast.Constant(True)
                g.elt = test
                found = self.visit(ast.copy_location(ast.Call(func=ast.Name(id="any", ctx=ast.Load()), args=[g], keywords=[]), node))
                if isinstance(node.ops[0], ast.IsNot):
                    return found
                return ast.copy_location(ast.UnaryOp(op=ast.Not(), operand=found), node)
        return node

    def visit_Call(self, node):
        self.generic_visit(node)
        f = u(node.func)
        # "..{}..{name}..".format(a, name=b)  ->  f"..{a}..{b}.."     (plain fields: no conversion, no format spec, no attribute / index lookups)
        if isinstance(node.func, ast.Attribute) and node.func.attr == "format" and isinstance(node.func.value, ast.Constant) and isinstance(node.func.value.value, str) \
                and not any(isinstance(a, ast.Starred) for a in node.args) and all(k.arg is not None for k in node.keywords):
            import string as _string
            try:
                pieces = list(_string.Formatter().parse(node.func.value.value))
            except ValueError:
                pieces = None
            if pieces is not None:
                kw = {k.arg: k.value for k in node.keywords}
                vals, auto, okf = [], 0, True
                numbered = any(fld not in (None, "") and fld.isdigit() for _, fld, _, _ in pieces)
                for lit, fld, spec, conv in pieces:
                    if lit:
                        vals.append(ast.Constant(lit))
                    if fld is None:
                        continue
                    if spec or conv:
                        okf = False
                        break
                    if fld == "" and not numbered and auto < len(node.args):
                        vals.append(ast.FormattedValue(value=node.args[auto], conversion=-1, format_spec=None))
                        auto += 1
                    elif fld.isdigit() and int(fld) < len(node.args):
                        vals.append(ast.FormattedValue(value=copy.deepcopy(node.args[int(fld)]), conversion=-1, format_spec=None))
                    elif fld in kw:
                        vals.append(ast.FormattedValue(value=copy.deepcopy(kw[fld]), conversion=-1, format_spec=None))
                    else:
                        okf = False
                        break
                used_all = okf and (numbered or auto == len(node.args))
                # (every argument is evaluated by .format whether its field occurs or not: only rewrite when each occurs exactly once, in order)
                if okf and used_all and not numbered and not kw:
                    return ast.copy_location(ast.JoinedStr(values=vals), node)
        # operator / functools callables applied on the spot:
        #   attrgetter("a")(x) -> x.a      itemgetter(k)(x) -> x[k]      methodcaller("m", *a)(x) -> x.m(*a)      partial(f, *a, **k)(*b, **c) -> f(*a, *b, **k, **c)
        if isinstance(node.func, ast.Call) and not any(isinstance(a, ast.Starred) for a in node.func.args):
            inner, hn = node.func, u(node.func.func).split(".")[-1]
            if hn == "attrgetter" and len(inner.args) == 1 and not inner.keywords and isinstance(inner.args[0], ast.Constant) and isinstance(inner.args[0].value, str) \
                    and len(node.args) == 1 and not node.keywords and not isinstance(node.args[0], ast.Starred) \
                    and all(p_.isidentifier() for p_ in inner.args[0].value.split(".")):
                e = node.args[0]
                for p_ in inner.args[0].value.split("."):
                    e = ast.Attribute(value=e, attr=p_, ctx=ast.Load())
                return ast.copy_location(e, node)
            if hn == "itemgetter" and len(inner.args) == 1 and not inner.keywords and len(node.args) == 1 and not node.keywords and not isinstance(node.args[0], ast.Starred):
                return ast.copy_location(ast.Subscript(value=node.args[0], slice=inner.args[0], ctx=ast.Load()), node)
            if hn == "methodcaller" and inner.args and isinstance(inner.args[0], ast.Constant) and isinstance(inner.args[0].value, str) and inner.args[0].value.isidentifier() \
                    and len(node.args) == 1 and not node.keywords and not isinstance(node.args[0], ast.Starred):
                return ast.copy_location(ast.Call(func=ast.Attribute(value=node.args[0], attr=inner.args[0].value, ctx=ast.Load()), args=list(inner.args[1:]),
                                                  keywords=list(inner.keywords)), node)
            if hn == "partial" and inner.args and not ({k.arg for k in inner.keywords} & {k.arg for k in node.keywords}):
                return self.visit_Call(ast.copy_location(ast.Call(func=inner.args[0], args=list(inner.args[1:]) + list(node.args),
                                                                  keywords=list(inner.keywords) + list(node.keywords)), node))
        # operator.is_not(a, b) -> a is not b   and friends
        if isinstance(node.func, (ast.Name, ast.Attribute)) and not node.keywords and not any(isinstance(a, ast.Starred) for a in node.args):
            on = f.split(".")[-1]
            if (f.startswith("operator.") or f.startswith("op.") or isinstance(node.func, ast.Name)) and on in _OPERATOR_CMP and len(node.args) == 2 \
                    and (f.startswith("operator.") or on in ("is_", "is_not")):
                return ast.copy_location(ast.Compare(left=node.args[0], ops=[_OPERATOR_CMP[on]()], comparators=[node.args[1]]), node)
            if f in ("operator.not_",) and len(node.args) == 1:
                return ast.copy_location(ast.UnaryOp(op=ast.Not(), operand=node.args[0]), node)
            if f in ("operator.getitem",) and len(node.args) == 2:
                return ast.copy_location(ast.Subscript(value=node.args[0], slice=node.args[1], ctx=ast.Load()), node)
            if f in ("operator.contains",) and len(node.args) == 2:
                return ast.copy_location(ast.Compare(left=node.args[1], ops=[ast.In()], comparators=[node.args[0]]), node)
        # filter(pred, xs) -> (x for x in xs if pred(x))        filter(None, xs) -> (x for x in xs if x)
        if f == "filter" and len(node.args) == 2 and not node.keywords and not any(isinstance(a, ast.Starred) for a in node.args) \
                and (norm._attr_chain(node.args[0]) is not None or isinstance(node.args[0], (ast.Call, ast.Lambda)) or (isinstance(node.args[0], ast.Constant) and node.args[0].value is None)):
            self._fresh[0] += 1
            v = f"f{self._fresh[0]}f_"
            pred = ast.Name(id=v, ctx=ast.Load()) if isinstance(node.args[0], ast.Constant) else \
                self.visit_Call(ast.Call(func=node.args[0], args=[ast.Name(id=v, ctx=ast.Load())], keywords=[]))
            return ast.copy_location(ast.GeneratorExp(elt=ast.Name(id=v, ctx=ast.Load()), generators=[
                ast.comprehension(target=ast.Name(id=v, ctx=ast.Store()), iter=node.args[1], ifs=[pred], is_async=0)]), node)
        # (lambda a, b: E)(x, y) -> E[a := x, b := y]    (simple arguments)
        if isinstance(node.func, ast.Lambda) and not node.keywords and not any(isinstance(a, ast.Starred) for a in node.args):
            la = node.func.args
            if not (la.vararg or la.kwarg or la.kwonlyargs or la.defaults or la.posonlyargs) and len(la.args) == len(node.args) \
                    and all(isinstance(a, ast.Constant) or norm._attr_chain(a) is not None or norm.is_reference(a) for a in node.args):
                return norm._Subst({p_.arg: a for p_, a in zip(la.args, node.args)}).visit(copy.deepcopy(node.func.body))
            # one computed argument whose parameter is read once, before anything else in the body is called: evaluated there instead
            if not (la.vararg or la.kwarg or la.kwonlyargs or la.defaults or la.posonlyargs) and len(la.args) == len(node.args):
                hard = [(p_.arg, a) for p_, a in zip(la.args, node.args) if not (isinstance(a, ast.Constant) or norm._attr_chain(a) is not None or norm.is_reference(a))]
                if len(hard) == 1:
                    pn = hard[0][0]
                    order = list(_completion_order(node.func.body))
                    occ = [i for i, n in enumerate(order) if isinstance(n, ast.Name) and n.id == pn]
                    if len(occ) == 1 and not any(isinstance(n, (ast.Call, ast.Lambda, ast.GeneratorExp, ast.ListComp, ast.SetComp, ast.DictComp, ast.IfExp, ast.BoolOp))
                                                 for n in order[:occ[0]]) and not any(isinstance(n, (ast.Lambda, ast.GeneratorExp, ast.ListComp, ast.SetComp, ast.DictComp, ast.IfExp, ast.BoolOp))
                                                                                        for n in ast.walk(node.func.body)):
                        return norm._Subst({p_.arg: a for p_, a in zip(la.args, node.args)}).visit(copy.deepcopy(node.func.body))
        # dict(((k1, v1), (k2, v2))) -> {k1: v1, k2: v2}
        if f == "dict" and len(node.args) == 1 and not node.keywords and isinstance(node.args[0], (ast.Tuple, ast.List)) \
                and all(isinstance(e, (ast.Tuple, ast.List)) and len(e.elts) == 2 and not any(isinstance(x, ast.Starred) for x in e.elts) for e in node.args[0].elts):
            return ast.copy_location(ast.Dict(keys=[e.elts[0] for e in node.args[0].elts], values=[e.elts[1] for e in node.args[0].elts]), node)
        # getattr(x, "name") -> x.name
        if f == "getattr" and len(node.args) == 2 and not node.keywords and isinstance(node.args[1], ast.Constant) and isinstance(node.args[1].value, str) \
                and node.args[1].value.isidentifier():
            return ast.copy_location(ast.Attribute(value=node.args[0], attr=node.args[1].value, ctx=ast.Load()), node)
        # struct layouts made of single bytes: pack -> bytes([..]), unpack_from(buf, k) -> (buf[k], buf[k + 1], ..)
        st = _struct_call(node)
        if st is not None:
            return ast.fix_missing_locations(ast.copy_location(self.visit(st), node))
        # (f if c else g)(args) -> f(args) if c else g(args)      (a callee picked by a condition; raise_(..) alternatives stay refusals)
        if isinstance(node.func, ast.IfExp) and all(norm.is_pure(a.value if isinstance(a, ast.Starred) else a) for a in node.args) \
                and all(norm.is_pure(k.value) for k in node.keywords):
            def push(fe):
                if isinstance(fe, ast.IfExp):
                    return ast.IfExp(test=fe.test, body=push(fe.body), orelse=push(fe.orelse))
                if isinstance(fe, ast.Call) and isinstance(fe.func, ast.Name) and fe.func.id == "raise_":
                    return fe
                return self.visit_Call(ast.Call(func=fe, args=copy.deepcopy(node.args), keywords=copy.deepcopy(node.keywords)))
            return ast.fix_missing_locations(ast.copy_location(push(node.func), node))
        # f(**{"a": x}) is f(a=x)
        if any(k.arg is None and isinstance(k.value, ast.Dict) for k in node.keywords):
            from .nf import _expand_dict_keywords
            node = _expand_dict_keywords(node)
        # typing.cast(T, x) is x
        if f in ("cast", "typing.cast") and len(node.args) == 2 and not node.keywords:
            return node.args[1]
        # chain.from_iterable(X) -> (y for x in X for y in x)
        if f in ("chain.from_iterable", "itertools.chain.from_iterable") and len(node.args) == 1 and not node.keywords:
            self._fresh[0] += 1
            a, b = f"f{self._fresh[0]}a_", f"f{self._fresh[0]}b_"
            return ast.copy_location(ast.GeneratorExp(elt=ast.Name(id=b, ctx=ast.Load()), generators=[
                ast.comprehension(target=ast.Name(id=a, ctx=ast.Store()), iter=node.args[0], ifs=[], is_async=0),
                ast.comprehension(target=ast.Name(id=b, ctx=ast.Store()), iter=ast.Name(id=a, ctx=ast.Load()), ifs=[], is_async=0)]), node)
        # m.group(k) -> m.groups()[k - 1]   (k >= 1: the k-th group of a match)
        if isinstance(node.func, ast.Attribute) and node.func.attr == "group" and len(node.args) == 1 and not node.keywords \
                and isinstance(node.args[0], ast.Constant) and type(node.args[0].value) is int and node.args[0].value >= 1:
            return ast.copy_location(ast.Subscript(value=ast.Call(func=ast.Attribute(value=node.func.value, attr="groups", ctx=ast.Load()), args=[], keywords=[]),
                                                   slice=ast.Constant(node.args[0].value - 1), ctx=ast.Load()), node)
        # next((True for .. if C), False) -> any(C for ..)
        if f == "next" and len(node.args) == 2 and not node.keywords and isinstance(node.args[0], ast.GeneratorExp) \
                and isinstance(node.args[0].elt, ast.Constant) and node.args[0].elt.value is True \
                and isinstance(node.args[1], ast.Constant) and node.args[1].value is False:
            g = copy.deepcopy(node.args[0])
            last = g.generators[-1]
            if last.ifs:
                g.elt = last.ifs[0] if len(last.ifs) == 1 else ast.BoolOp(op=ast.And(), values=list(last.ifs))
                last.ifs = []
                return self.visit_Call(ast.copy_location(ast.Call(func=ast.Name(id="any", ctx=ast.Load()), args=[g], keywords=[]), node))
        # any(not X for ..) -> not all(X for ..)   ;   all(not X for ..) -> not any(X for ..)
        if f in ("any", "all") and len(node.args) == 1 and not node.keywords and isinstance(node.args[0], (ast.GeneratorExp, ast.ListComp)) \
                and isinstance(node.args[0].elt, ast.UnaryOp) and isinstance(node.args[0].elt.op, ast.Not):
            g = node.args[0]
            g.elt = g.elt.operand
            dual = ast.Call(func=ast.Name(id="all" if f == "any" else "any", ctx=ast.Load()), args=[g], keywords=[])
            return ast.copy_location(ast.UnaryOp(op=ast.Not(), operand=self.visit_Call(ast.copy_location(dual, node))), node)
        # any(v == E for v in X) -> E in X   (membership is `==` against each element in turn)
        if f == "any" and len(node.args) == 1 and not node.keywords and isinstance(node.args[0], (ast.GeneratorExp, ast.ListComp)):
            g = node.args[0]
            if len(g.generators) == 1 and not g.generators[0].ifs and isinstance(g.generators[0].target, ast.Name) \
                    and isinstance(g.elt, ast.Compare) and len(g.elt.ops) == 1 and isinstance(g.elt.ops[0], ast.Eq):
                v = g.generators[0].target.id
                l, r = g.elt.left, g.elt.comparators[0]
                other = r if isinstance(l, ast.Name) and l.id == v else (l if isinstance(r, ast.Name) and r.id == v else None)
                if other is not None and not any(isinstance(n, ast.Name) and n.id == v for n in ast.walk(other)):
                    return ast.copy_location(ast.Compare(left=other, ops=[ast.In()], comparators=[g.generators[0].iter]), node)
        # f(*(a, *b)) -> f(a, *b)
        if any(isinstance(a, ast.Starred) and isinstance(a.value, (ast.Tuple, ast.List)) for a in node.args):
            args = []
            for a in node.args:
                if isinstance(a, ast.Starred) and isinstance(a.value, (ast.Tuple, ast.List)):
                    args += a.value.elts
                else:
                    args.append(a)
            node.args = args
        # inspect.getmembers(<module object>) -> sorted(vars(<module object>).items())   (the names of a module are those of its namespace)
        if f in ("inspect.getmembers", "getmembers") and len(node.args) == 1 and not node.keywords and isinstance(node.args[0], ast.Subscript) \
                and u(node.args[0].value) == "sys.modules":
            ns = ast.Call(func=ast.Name(id="vars", ctx=ast.Load()), args=[node.args[0]], keywords=[])
            items = ast.Call(func=ast.Attribute(value=ns, attr="items", ctx=ast.Load()), args=[], keywords=[])
            return ast.copy_location(ast.Call(func=ast.Name(id="sorted", ctx=ast.Load()), args=[items], keywords=[]), node)
        # inspect.getmembers(obj, pred) -> [(n, v) for n, v in inspect.getmembers(obj) if pred(v)]     (documented behaviour)
        if f in ("inspect.getmembers", "getmembers") and len(node.args) == 2 and not node.keywords and \
                (isinstance(node.args[1], ast.Lambda) or norm._attr_chain(node.args[1]) is not None or (
                    isinstance(node.args[1], ast.Call) and u(node.args[1].func).split(".")[-1] == "partial")):
            self._fresh[0] += 1
            a_, b_ = f"f{self._fresh[0]}n_", f"f{self._fresh[0]}v_"
            test = self.visit(ast.Call(func=node.args[1], args=[ast.Name(id=b_, ctx=ast.Load())], keywords=[]))
            comp = ast.ListComp(elt=ast.Tuple(elts=[ast.Name(id=a_, ctx=ast.Load()), ast.Name(id=b_, ctx=ast.Load())], ctx=ast.Load()), generators=[
                ast.comprehension(target=ast.Tuple(elts=[ast.Name(id=a_, ctx=ast.Store()), ast.Name(id=b_, ctx=ast.Store())], ctx=ast.Store()),
                                  iter=self.visit_Call(ast.Call(func=node.func, args=[node.args[0]], keywords=[])), ifs=[test], is_async=0)])
            return ast.copy_location(self._fuse(comp), node)
        # starmap(f, enumerate(xs)) -> (f(i, x) for i, x in enumerate(xs));   starmap(f, zip(a, b)) likewise;   starmap(f, ps) -> (f(*p) for p in ps)
        if f.split(".")[-1] == "starmap" and len(node.args) == 2 and not node.keywords and (norm._attr_chain(node.args[0]) is not None or (
                isinstance(node.args[0], ast.Call) and u(node.args[0].func).split(".")[-1] == "partial")):
            self._fresh[0] += 1
            src = node.args[1]
            k = 2 if isinstance(src, ast.Call) and u(src.func) == "enumerate" and len(src.args) == 1 and not src.keywords else (
                len(src.args) if isinstance(src, ast.Call) and u(src.func) == "zip" and src.args and not src.keywords and not any(isinstance(a, ast.Starred) for a in src.args) else 0)
            if k:
                names = [f"f{self._fresh[0]}s{j}_" for j in range(k)]
                tgt = ast.Tuple(elts=[ast.Name(id=n_, ctx=ast.Store()) for n_ in names], ctx=ast.Store())
                call = self.visit_Call(ast.Call(func=node.args[0], args=[ast.Name(id=n_, ctx=ast.Load()) for n_ in names], keywords=[]))
            else:
                v = f"f{self._fresh[0]}s_"
                tgt = ast.Name(id=v, ctx=ast.Store())
                call = self.visit_Call(ast.Call(func=node.args[0], args=[ast.Starred(value=ast.Name(id=v, ctx=ast.Load()), ctx=ast.Load())], keywords=[]))
            return ast.copy_location(ast.GeneratorExp(elt=call, generators=[ast.comprehension(target=tgt, iter=src, ifs=[], is_async=0)]), node)
        # map(f, xs) -> (f(x) for x in xs)      (f a plain callable reference)
        if f == "map" and len(node.args) == 2 and not node.keywords and (norm._attr_chain(node.args[0]) is not None or (
                isinstance(node.args[0], ast.Call) and u(node.args[0].func).split(".")[-1] in ("attrgetter", "itemgetter", "methodcaller", "partial"))):
            self._fresh[0] += 1
            v = f"f{self._fresh[0]}m_"
            call = self.visit_Call(ast.Call(func=node.args[0], args=[ast.Name(id=v, ctx=ast.Load())], keywords=[]))
            return ast.copy_location(ast.GeneratorExp(elt=call, generators=[ast.comprehension(target=ast.Name(id=v, ctx=ast.Store()), iter=node.args[1], ifs=[], is_async=0)]), node)
        # list(map(f, xs)) -> [f(x) for x in xs]
        if f == "list" and len(node.args) == 1 and not node.keywords and isinstance(node.args[0], ast.Call) and u(node.args[0].func) == "map" \
                and len(node.args[0].args) == 2:
            fn, xs = node.args[0].args
            v = ast.Name(id="c_", ctx=ast.Load())
            call = ast.Call(func=fn, args=[v], keywords=[])
            return ast.copy_location(ast.ListComp(elt=call, generators=[ast.comprehension(target=ast.Name(id="c_", ctx=ast.Store()), iter=xs, ifs=[], is_async=0)]), node)
        # list(<genexp>) -> [..]
        if f == "list" and len(node.args) == 1 and not node.keywords and isinstance(node.args[0], ast.GeneratorExp):
            g = node.args[0]
            return ast.copy_location(ast.ListComp(elt=g.elt, generators=g.generators), node)
        # dict(<genexp of pairs>) -> {k: v for ..}
        if f == "dict" and len(node.args) == 1 and not node.keywords and isinstance(node.args[0], (ast.GeneratorExp, ast.ListComp)) \
                and isinstance(node.args[0].elt, ast.Tuple) and len(node.args[0].elt.elts) == 2:
            g = node.args[0]
            return ast.copy_location(ast.DictComp(key=g.elt.elts[0], value=g.elt.elts[1], generators=g.generators), node)
        # consumers that only iterate their argument in order: a list comprehension and a generator are the same
        if len(node.args) == 1 and not node.keywords and isinstance(node.args[0], ast.ListComp) and \
                ((isinstance(node.func, ast.Attribute) and node.func.attr == "join") or f.split(".")[-1] in ("Counter", "sum", "any", "all", "sorted", "set", "frozenset", "min", "max", "dict", "tuple", "list")):
            node.args[0] = ast.copy_location(ast.GeneratorExp(elt=node.args[0].elt, generators=node.args[0].generators), node.args[0])
        # list(X) -> [*X], tuple(X) -> (*X,)
        if f in ("list", "tuple") and len(node.args) == 1 and not node.keywords and not isinstance(node.args[0], ast.Starred):
            st = ast.Starred(value=node.args[0], ctx=ast.Load())
            new = ast.List(elts=[st], ctx=ast.Load()) if f == "list" else ast.Tuple(elts=[st], ctx=ast.Load())
            return ast.copy_location(new, node)
        return node

    def visit_IfExp(self, node):
        self.generic_visit(node)
        node.test = _unbool(node.test)
        # negative tests swap the arms: a if x is None else b -> b if x is not None else a
        t = node.test
        flip = None
        if isinstance(t, ast.UnaryOp) and isinstance(t.op, ast.Not):
            flip = t.operand
        elif isinstance(t, ast.Compare) and len(t.ops) == 1:
            pos = {ast.IsNot: None, ast.Is: ast.IsNot, ast.NotEq: ast.Eq, ast.NotIn: ast.In}.get(type(t.ops[0]))
            if isinstance(t.ops[0], ast.Is) and not (isinstance(t.comparators[0], ast.Constant) and t.comparators[0].value is None):
                pos = None
            if pos is not None:
                flip = ast.Compare(left=t.left, ops=[pos()], comparators=t.comparators)
        if flip is not None:
            node = ast.copy_location(ast.IfExp(test=flip, body=node.orelse, orelse=node.body), node)
        # x if x else y  ->  x or y
        if u(node.test) == u(node.body) and norm.is_reference(node.test):
            return ast.copy_location(ast.BoolOp(op=ast.Or(), values=[node.body, node.orelse]), node)
        return node

    def visit_JoinedStr(self, node):
        self.generic_visit(node)
        # f"a{f'{x}'}b" -> f"a{x}b"
        vals = []
        for v in node.values:
            if isinstance(v, ast.FormattedValue) and v.conversion == -1 and v.format_spec is None and isinstance(v.value, ast.JoinedStr):
                vals += v.value.values
            elif isinstance(v, ast.FormattedValue) and v.conversion in (-1, 115) and v.format_spec is None and isinstance(v.value, ast.Call) \
                    and isinstance(v.value.func, ast.Name) and v.value.func.id == "str" and len(v.value.args) == 1 and not v.value.keywords:
                # f"{str(x)}" and f"{x!s}" are f"{x}"  (formatting with an empty spec is str() for everything that does not define __format__)
                vals.append(ast.FormattedValue(value=v.value.args[0], conversion=-1, format_spec=None))
            elif isinstance(v, ast.FormattedValue) and v.conversion == 115 and v.format_spec is None:
                vals.append(ast.FormattedValue(value=v.value, conversion=-1, format_spec=None))
            else:
                vals.append(v)
        node.values = vals
        return node

    def visit_BinOp(self, node):
        self.generic_visit(node)
        # n + isinstance(x, K)  ->  n + int(isinstance(x, K))      (a truth value used as a number is 0 / 1)
        if isinstance(node.op, (ast.Add, ast.Sub)):
            for side in ("left", "right"):
                v_ = getattr(node, side)
                if isinstance(v_, ast.Call) and isinstance(v_.func, ast.Name) and v_.func.id == "isinstance" and len(v_.args) == 2:
                    setattr(node, side, ast.copy_location(ast.Call(func=ast.Name(id="int", ctx=ast.Load()), args=[v_], keywords=[]), v_))
        # integer literals fold: 8 + 1 -> 9, 64 | 1 -> 65
        if isinstance(node.left, ast.Constant) and isinstance(node.right, ast.Constant) and type(node.left.value) is int and type(node.right.value) is int:
            a_, b_ = node.left.value, node.right.value
            ops_ = {ast.Add: lambda: a_ + b_, ast.Sub: lambda: a_ - b_, ast.Mult: lambda: a_ * b_, ast.BitOr: lambda: a_ | b_, ast.BitAnd: lambda: a_ & b_,
                    ast.BitXor: lambda: a_ ^ b_, ast.LShift: lambda: a_ << b_ if 0 <= b_ < 64 else None, ast.RShift: lambda: a_ >> b_ if 0 <= b_ < 64 else None}
            f_ = ops_.get(type(node.op))
            v_ = f_() if f_ else None
            if v_ is not None:
                return ast.copy_location(ast.Constant(v_), node)
        # counts re-associate to the left: a + (b - c) -> a + b - c ; a + (b + c) -> a + b + c ; a - (b + c) -> a - b - c ; a - (b - c) -> a - b + c
        if isinstance(node.op, (ast.Add, ast.Sub)) and isinstance(node.right, ast.BinOp) and isinstance(node.right.op, (ast.Add, ast.Sub)) \
                and norm.is_scalar(node.right) and _is_count(node):
            same = isinstance(node.op, ast.Add)
            inner = type(node.right.op)() if same else (ast.Sub() if isinstance(node.right.op, ast.Add) else ast.Add())
            left = self.visit_BinOp(ast.copy_location(ast.BinOp(left=node.left, op=node.op, right=node.right.left), node))
            return self.visit_BinOp(ast.copy_location(ast.BinOp(left=left, op=inner, right=node.right.right), node))
        # [a] + b  -> [a, *b]   (b a list expression);  [..] + [..] -> [.., ..]
        if isinstance(node.op, ast.Add) and isinstance(node.left, ast.List):
            if isinstance(node.right, ast.List):
                return ast.copy_location(ast.List(elts=node.left.elts + node.right.elts, ctx=ast.Load()), node)
            return ast.copy_location(ast.List(elts=node.left.elts + [ast.Starred(value=node.right, ctx=ast.Load())], ctx=ast.Load()), node)
        if isinstance(node.op, ast.Add) and isinstance(node.right, ast.List) and isinstance(node.left, (ast.ListComp,)):
            return ast.copy_location(ast.List(elts=[ast.Starred(value=node.left, ctx=ast.Load())] + node.right.elts, ctx=ast.Load()), node)
        # [comprehension] + b  ->  [*(comprehension), *b]     (b is a list where this evaluates at all)
        if isinstance(node.op, ast.Add) and isinstance(node.left, ast.ListComp):
            gen = ast.GeneratorExp(elt=node.left.elt, generators=node.left.generators)
            return ast.copy_location(ast.List(elts=[ast.Starred(value=gen, ctx=ast.Load()), ast.Starred(value=node.right, ctx=ast.Load())], ctx=ast.Load()), node)
        # {..} | {..} / a | b on dict displays -> {**a, **b}
        if isinstance(node.op, ast.BitOr) and (isinstance(node.left, ast.Dict) or isinstance(node.right, ast.Dict)):
            def parts(x):
                if isinstance(x, ast.Dict):
                    return list(zip(x.keys, x.values))
                return [(None, x)]
            kv = parts(node.left) + parts(node.right)
            return ast.copy_location(ast.Dict(keys=[k for k, _ in kv], values=[v for _, v in kv]), node)
        return node

    def visit_Attribute(self, node):
        self.generic_visit(node)
        # struct.Struct("BB").size -> 2
        if node.attr == "size" and isinstance(node.ctx, ast.Load) and _struct_of(node.value) is not None and _byte_format(_struct_of(node.value)) is not None:
            return ast.copy_location(ast.Constant(_byte_format(_struct_of(node.value))), node)
        return node

    def visit_Subscript(self, node):
        self.generic_visit(node)
        # {k1: v1, k2: v2}[x] -> v1 if x == k1 else v2 if x == k2 else raise_(KeyError(x))     (a dispatch table written out; keys constants / enum members)
        if isinstance(node.value, ast.Dict) and isinstance(node.ctx, ast.Load) and node.value.keys and norm.is_reference(node.slice) \
                and all(k is not None and (isinstance(k, ast.Constant) or norm._attr_chain(k) is not None) for k in node.value.keys) \
                and len({u(k) for k in node.value.keys}) == len(node.value.keys):
            e = ast.Call(func=ast.Name(id="raise_", ctx=ast.Load()), args=[ast.Call(func=ast.Name(id="KeyError", ctx=ast.Load()), args=[copy.deepcopy(node.slice)], keywords=[])], keywords=[])
            for k, v in reversed(list(zip(node.value.keys, node.value.values))):
                e = ast.IfExp(test=ast.Compare(left=copy.deepcopy(node.slice), ops=[ast.Eq()], comparators=[k]), body=v, orelse=e)
            return ast.fix_missing_locations(ast.copy_location(e, node))
        # m[a if c else b] -> m[a] if c else m[b]   (m a plain reference, load context)
        if isinstance(node.slice, ast.IfExp) and isinstance(node.ctx, ast.Load) and norm.is_reference(node.value):
            a = ast.Subscript(value=copy.deepcopy(node.value), slice=node.slice.body, ctx=ast.Load())
            b = ast.Subscript(value=copy.deepcopy(node.value), slice=node.slice.orelse, ctx=ast.Load())
            return ast.copy_location(ast.IfExp(test=node.slice.test, body=a, orelse=b), node)
        return node

    def visit_List(self, node):
        self.generic_visit(node)
        # [*[..], *x] -> [.., *x]
        elts = []
        for e in node.elts:
            if isinstance(e, ast.Starred) and isinstance(e.value, (ast.List, ast.Tuple)):
                elts += e.value.elts
            else:
                elts.append(e)
        node.elts = elts
        # [*(E for ..)] / [*[E for ..]] -> [E for ..]
        if len(elts) == 1 and isinstance(elts[0], ast.Starred) and isinstance(elts[0].value, (ast.GeneratorExp, ast.ListComp)) and isinstance(node.ctx, ast.Load):
            g = elts[0].value
            return ast.copy_location(ast.ListComp(elt=g.elt, generators=g.generators), node)
        return node

    _fresh = [0]

    def _fuse(self, node):
        """(f(v) for v in (g(w) for w in S if C) if D)  ->  (f(g(w)) for w in S if C if D[g(w)])   for a pure inner comprehension:
        a pipeline of generators / lists and the fused comprehension yield the same elements in the same order"""
        self.generic_visit(node)
        _drop_unused_enumerate(node)
        for g_ in node.generators:
            # for v in iter(X) is for v in X
            if isinstance(g_.iter, ast.Call) and isinstance(g_.iter.func, ast.Name) and g_.iter.func.id == "iter" and len(g_.iter.args) == 1 and not g_.iter.keywords:
                g_.iter = g_.iter.args[0]
        for g_ in node.generators:
            # `if a and b` filters like `if a if b`
            flat = []
            for c_ in g_.ifs:
                flat += list(c_.values) if isinstance(c_, ast.BoolOp) and isinstance(c_.op, ast.And) else [c_]
            g_.ifs = flat
        while True:
            g0 = node.generators[0]
            inner = g0.iter
            if not (isinstance(inner, (ast.GeneratorExp, ast.ListComp)) and not g0.is_async):
                return node
            if not norm.is_pure(inner, _PURE_EXT) and not (isinstance(inner, ast.GeneratorExp) and len(node.generators) == 1):
                # (a generator stage is evaluated on demand, element by element: fusing it runs exactly the same steps)
                # an inner pipeline stage with calls keeps its own order of evaluation; what moves is the outer stage: that is harmless
                # when it only computes from the element (constructors / builtins over the bound names, no reads of other objects)
                tn = {n.id for n in ast.walk(g0.target) if isinstance(n, ast.Name)}
                outer_parts = list(g0.ifs) + [getattr(node, f) for f in ("elt", "key", "value") if hasattr(node, f)]

                def element_only(e):
                    if not norm.is_pure(e, _PURE_EXT):
                        return False
                    callee_ids = {id(x) for c in ast.walk(e) if isinstance(c, ast.Call) for x in ast.walk(c.func)}
                    for n in ast.walk(e):
                        if isinstance(n, ast.Name) and isinstance(n.ctx, ast.Load) and n.id not in tn and id(n) not in callee_ids and n.id not in norm.PURE_FUNCS \
                                and not (n.id.startswith("__") and n.id.endswith("__")) and not n.id.isupper():
                            return False
                    return True
                if len(node.generators) != 1 or not all(element_only(e) for e in outer_parts):
                    return node
            tnames = [n.id for n in ast.walk(g0.target) if isinstance(n, ast.Name)]
            if isinstance(g0.target, ast.Name):
                mapping = {g0.target.id: inner.elt}
            elif isinstance(g0.target, ast.Tuple) and isinstance(inner.elt, ast.Tuple) and len(g0.target.elts) == len(inner.elt.elts) \
                    and all(isinstance(t, ast.Name) for t in g0.target.elts):
                mapping = {t.id: e for t, e in zip(g0.target.elts, inner.elt.elts)}
            else:
                return node
            # inner variables get fresh names so that nothing of the outer comprehension is captured
            ren = {}
            for g in inner.generators:
                for n in ast.walk(g.target):
                    if isinstance(n, ast.Name) and n.id not in ren:
                        self._fresh[0] += 1
                        ren[n.id] = f"f{self._fresh[0]}_"
            inner = norm._Rename(ren).visit(copy.deepcopy(inner))
            if isinstance(g0.target, ast.Name):
                mapping = {g0.target.id: inner.elt}
            else:
                mapping = {t.id: e for t, e in zip(g0.target.elts, inner.elt.elts)}
            sub = norm._Subst(mapping)
            gens = list(inner.generators)
            gens[-1].ifs = list(gens[-1].ifs) + [sub.visit(copy.deepcopy(c)) for c in g0.ifs]
            for g in node.generators[1:]:
                g.iter = sub.visit(g.iter)
                g.ifs = [sub.visit(c) for c in g.ifs]
                gens.append(g)
            node.generators = gens
            for f in ("elt", "key", "value"):
                if hasattr(node, f):
                    setattr(node, f, sub.visit(getattr(node, f)))
    visit_ListComp = visit_SetComp = visit_DictComp = visit_GeneratorExp = _fuse

    def visit_Starred(self, node):
        self.generic_visit(node)
        # *[comprehension] and *(generator) unpack the same elements in the same order
        if isinstance(node.value, ast.ListComp):
            node.value = ast.copy_location(ast.GeneratorExp(elt=node.value.elt, generators=node.value.generators), node.value)
        return node


class _PairTargets(ast.NodeTransformer):
    """[.. f(*kv, ..) .. for kv in M.items()]  ->  [.. f(k_, v_, ..) .. for k_, v_ in M.items()]   (items() yields pairs; kv used only
    unpacked or indexed by 0 / 1): the row and its two halves read the same"""
    def _comp(self, node):
        self.generic_visit(node)
        for g in node.generators:
            it = g.iter
            if isinstance(g.target, ast.Name) and isinstance(it, ast.Call) and isinstance(it.func, ast.Attribute) and it.func.attr == "items" and not it.args and not it.keywords:
                v = g.target.id
                parts = [getattr(node, f) for f in ("elt", "key", "value") if hasattr(node, f)] + list(g.ifs)
                uses = [n for p_ in parts for n in ast.walk(p_) if isinstance(n, ast.Name) and n.id == v]
                okay = {id(n.value) for p_ in parts for n in ast.walk(p_) if isinstance(n, ast.Starred) and isinstance(n.value, ast.Name)} | \
                    {id(n.value) for p_ in parts for n in ast.walk(p_) if isinstance(n, ast.Subscript) and isinstance(n.value, ast.Name) and isinstance(n.slice, ast.Constant) and n.slice.value in (0, 1)}
                if uses and all(id(n) in okay for n in uses) and not any(isinstance(n, ast.Name) and n.id in (v + "_k", v + "_v") for p_ in parts for n in ast.walk(p_)):
                    k_, v_ = v + "_k", v + "_v"

                    class R(ast.NodeTransformer):
                        def visit_Call(self, c):
                            self.generic_visit(c)
                            new = []
                            for a in c.args:
                                if isinstance(a, ast.Starred) and isinstance(a.value, ast.Name) and a.value.id == v:
                                    new += [ast.Name(id=k_, ctx=ast.Load()), ast.Name(id=v_, ctx=ast.Load())]
                                else:
                                    new.append(a)
                            c.args = new
                            return c

                        def visit_Tuple(self, t):
                            self.generic_visit(t)
                            new = []
                            for a in t.elts:
                                if isinstance(a, ast.Starred) and isinstance(a.value, ast.Name) and a.value.id == v:
                                    new += [ast.Name(id=k_, ctx=ast.Load()), ast.Name(id=v_, ctx=ast.Load())]
                                else:
                                    new.append(a)
                            t.elts = new
                            return t
                        visit_List = visit_Tuple

                        def visit_Subscript(self, n):
                            if isinstance(n.value, ast.Name) and n.value.id == v and isinstance(n.slice, ast.Constant) and n.slice.value in (0, 1):
                                return ast.copy_location(ast.Name(id=(k_, v_)[n.slice.value], ctx=ast.Load()), n)
                            return self.generic_visit(n)
                    for f in ("elt", "key", "value"):
                        if hasattr(node, f):
                            setattr(node, f, R().visit(getattr(node, f)))
                    g.ifs = [R().visit(x) for x in g.ifs]
                    g.target = ast.copy_location(ast.Tuple(elts=[ast.Name(id=k_, ctx=ast.Store()), ast.Name(id=v_, ctx=ast.Store())], ctx=ast.Store()), g.target)
        return ast.fix_missing_locations(node)
    visit_ListComp = visit_SetComp = visit_DictComp = visit_GeneratorExp = _comp


class _BoundVars(ast.NodeTransformer):
    """rename comprehension and lambda variables to c0, c1, .. (by nesting order)"""
    def __init__(self):
        self.depth = 0

    def _comp(self, node):
        # the first iterable belongs to the enclosing scope
        node.generators[0].iter = self.visit(node.generators[0].iter)
        ren = {}
        for g in node.generators:
            for n in ast.walk(g.target):
                if isinstance(n, ast.Name) and n.id not in ren:
                    ren[n.id] = f"c{self.depth}"
                    self.depth += 1
        r = norm._Rename(ren)
        for i, g in enumerate(node.generators):
            g.target = r.visit(g.target)
            if i:
                g.iter = r.visit(g.iter)
            g.ifs = [r.visit(x) for x in g.ifs]
        for f in ("elt", "key", "value"):
            if hasattr(node, f):
                setattr(node, f, r.visit(getattr(node, f)))
        # inner comprehensions
        for i, g in enumerate(node.generators):
            if i:
                g.iter = self.visit(g.iter)
            g.ifs = [self.visit(x) for x in g.ifs]
        for f in ("elt", "key", "value"):
            if hasattr(node, f):
                setattr(node, f, self.visit(getattr(node, f)))
        self.depth -= len(ren)
        return node

    visit_ListComp = visit_SetComp = visit_DictComp = visit_GeneratorExp = _comp

    def visit_Lambda(self, node):
        ren = {}
        for a in node.args.args:
            ren[a.arg] = f"c{self.depth}"
            self.depth += 1
            a.arg = ren[a.arg]
        node.body = self.visit(norm._Rename(ren).visit(node.body))
        self.depth -= len(ren)
        return node


# members (in definition order) of the private enumerations of the module being normalised (set by Canon.body)
_ENUM_MEMBERS: dict[str, list[str]] = {}


def _completion_order(e):
    """sub-expressions in the order their evaluation completes (operands before the operation, arguments left to right)"""
    for ch in ast.iter_child_nodes(e):
        if isinstance(ch, ast.expr):
            yield from _completion_order(ch)
        elif isinstance(ch, ast.keyword):
            yield from _completion_order(ch.value)
    yield e


class _FoldConst(ast.NodeTransformer):
    """comparisons of literals, conditional expressions with a literal test, a literal position of a display, a literal key of a
    dict display (the other entries pure): what a table written into the code evaluates to"""
    def visit_Compare(self, node):
        self.generic_visit(node)
        if len(node.ops) == 1 and isinstance(node.ops[0], (ast.Is, ast.IsNot)) and isinstance(node.comparators[0], ast.Constant) and node.comparators[0].value is None:
            if isinstance(node.left, ast.Constant) and node.left.value is None:
                return ast.copy_location(ast.Constant(isinstance(node.ops[0], ast.Is)), node)
            if norm._never_none(node.left, {}) and norm.is_pure(node.left, _PURE_EXT):
                return ast.copy_location(ast.Constant(isinstance(node.ops[0], ast.IsNot)), node)
        if len(node.ops) == 1 and isinstance(node.left, ast.Constant) and isinstance(node.comparators[0], ast.Constant) \
                and type(node.left.value) is type(node.comparators[0].value) and isinstance(node.left.value, (str, int, bytes)) and not isinstance(node.left.value, bool):
            a, b, op = node.left.value, node.comparators[0].value, node.ops[0]
            if isinstance(op, ast.Eq):
                return ast.copy_location(ast.Constant(a == b), node)
            if isinstance(op, ast.NotEq):
                return ast.copy_location(ast.Constant(a != b), node)
        return node

    def visit_IfExp(self, node):
        self.generic_visit(node)
        if isinstance(node.test, ast.Constant) and isinstance(node.test.value, bool):
            return node.body if node.test.value else node.orelse
        return node

    def visit_BoolOp(self, node):
        self.generic_visit(node)

        def booly(e):
            # certainly True / False (so that `e and True` IS e, not merely as truthy as e)
            if isinstance(e, ast.Constant):
                return isinstance(e.value, bool)
            if isinstance(e, ast.Compare):
                return True
            if isinstance(e, ast.UnaryOp) and isinstance(e.op, ast.Not):
                return True
            if isinstance(e, ast.Call) and isinstance(e.func, ast.Name) and e.func.id in ("isinstance", "issubclass", "bool", "any", "all", "callable", "hasattr"):
                return True
            if isinstance(e, ast.BoolOp):
                return all(booly(v) for v in e.values)
            return False
        if not all(booly(v) for v in node.values):
            return node
        vals = []
        for v in node.values:
            if isinstance(v, ast.Constant) and isinstance(v.value, bool):
                if isinstance(node.op, ast.And) and v.value is False or isinstance(node.op, ast.Or) and v.value is True:
                    # (operands before it are pure tests here only if they are: keep them when they may do something)
                    if all(norm.is_pure(x, _PURE_EXT) for x in vals):
                        return ast.copy_location(ast.Constant(v.value), node)
                    vals.append(v)
                    break
                continue            # neutral element
            vals.append(v)
        if not vals:
            return ast.copy_location(ast.Constant(isinstance(node.op, ast.And)), node)
        if len(vals) == 1:
            return vals[0]
        node.values = vals
        return node

    def _getattr(self, node):
        self.generic_visit(node)
        if isinstance(node.func, ast.Name) and node.func.id == "getattr" and len(node.args) == 2 and not node.keywords and isinstance(node.args[1], ast.Constant) \
                and isinstance(node.args[1].value, str) and node.args[1].value.isidentifier():
            return ast.copy_location(ast.Attribute(value=node.args[0], attr=node.args[1].value, ctx=ast.Load()), node)
        return node

    def visit_Call(self, node):
        node = self._getattr(node)
        if not isinstance(node, ast.Call):
            return node
        # the special methods spelled out: m.__getitem__(k) is m[k], m.__contains__(k) is k in m, m.__len__() is len(m)
        if isinstance(node.func, ast.Attribute) and not node.keywords and not any(isinstance(a, ast.Starred) for a in node.args) \
                and not (isinstance(node.func.value, ast.Call) and u(node.func.value.func) == "super") and not (isinstance(node.func.value, ast.Name) and node.func.value.id[:1].isupper()):
            if node.func.attr == "__getitem__" and len(node.args) == 1:
                return ast.copy_location(ast.Subscript(value=node.func.value, slice=node.args[0], ctx=ast.Load()), node)
            if node.func.attr == "__contains__" and len(node.args) == 1:
                return ast.copy_location(ast.Compare(left=node.args[0], ops=[ast.In()], comparators=[node.func.value]), node)
            if node.func.attr == "__len__" and not node.args:
                return ast.copy_location(ast.Call(func=ast.Name(id="len", ctx=ast.Load()), args=[node.func.value], keywords=[]), node)
        # next((E for ROW in <literal table> if C), D): the first row whose test holds, written out as a chain of conditional expressions
        if isinstance(node.func, ast.Name) and node.func.id == "isinstance" and len(node.args) == 2 and not node.keywords and u(node.args[1]) == "object" \
                and norm.is_pure(node.args[0], _PURE_EXT):
            return ast.copy_location(ast.Constant(True), node)        # everything is an object
        if isinstance(node.func, ast.Name) and node.func.id == "next" and len(node.args) in (1, 2) and not node.keywords and isinstance(node.args[0], ast.GeneratorExp) \
                and len(node.args[0].generators) == 1 and not node.args[0].generators[0].is_async:
            g = node.args[0].generators[0]
            orig = node
            if len(node.args) == 1 and isinstance(g.iter, (ast.Tuple, ast.List)):
                # no default: exhausted means StopIteration
                node = copy.copy(node)
                node.args = [node.args[0], ast.Call(func=ast.Name(id="raise_", ctx=ast.Load()), args=[ast.Call(func=ast.Name(id="StopIteration", ctx=ast.Load()), args=[], keywords=[])], keywords=[])]
            if len(node.args) == 2 and isinstance(g.iter, (ast.Tuple, ast.List)) and 1 <= len(g.iter.elts) <= 8 and _table_display(g.iter) \
                    and (norm.is_pure(node.args[1], _PURE_EXT) or (isinstance(node.args[1], ast.Call) and u(node.args[1].func) == "raise_")):
                rows = []
                for e in g.iter.elts:
                    mp = _destructure(g.target, e)
                    if mp is None:
                        return orig
                    rows.append(mp)
                out = node.args[1]
                for mp in reversed(rows):
                    elt = norm._Subst(dict(mp)).visit(copy.deepcopy(node.args[0].elt))
                    conds = [norm._Subst(dict(mp)).visit(copy.deepcopy(c)) for c in g.ifs]
                    if not conds:
                        out = elt
                        continue
                    test = conds[0] if len(conds) == 1 else ast.BoolOp(op=ast.And(), values=conds)
                    test = _FoldConst().visit(test)
                    if isinstance(test, ast.Constant) and test.value is True:
                        out = elt           # a row that always matches: what follows it is never reached
                        continue
                    out = ast.IfExp(test=test, body=elt, orelse=out)
                return ast.fix_missing_locations(ast.copy_location(out, node))
            node = orig
        return node

    def _unrolled(self, node):
        """a comprehension over a literal sequence of names / constants (at most 6, no filter): the display it builds"""
        self.generic_visit(node)
        if len(node.generators) != 1 or node.generators[0].ifs or node.generators[0].is_async:
            return node
        g = node.generators[0]
        rows = g.iter.elts if isinstance(g.iter, (ast.Tuple, ast.List)) else None
        it_ = g.iter
        if rows is None and isinstance(it_, ast.Call) and isinstance(it_.func, ast.Attribute) and it_.func.attr in ("items", "keys", "values") and not it_.args and not it_.keywords \
                and isinstance(it_.func.value, ast.Dict) and all(k_ is not None for k_ in it_.func.value.keys) \
                and len({u(k_) for k_ in it_.func.value.keys}) == len(it_.func.value.keys):
            d_ = it_.func.value
            rows = {"items": [ast.Tuple(elts=[k_, v_], ctx=ast.Load()) for k_, v_ in zip(d_.keys, d_.values)], "keys": list(d_.keys), "values": list(d_.values)}[it_.func.attr]
            # (rows holding computed values are written in once each: the element may read its row's value only once)
            if any(not _table_entry(v_) for v_ in d_.values):
                tn_ = [n.id for n in ast.walk(g.target) if isinstance(n, ast.Name)]
                parts_ = [getattr(node, f_) for f_ in ("elt", "key", "value") if hasattr(node, f_)]
                if any(sum(1 for p_ in parts_ for n in ast.walk(p_) if isinstance(n, ast.Name) and n.id == t_) > 1 for t_ in tn_[1:]) and \
                        not all(norm.is_pure(v_, _PURE_EXT) for v_ in d_.values):
                    return node
                return self._unrolled_rows(node, g, rows)
        if rows is None and isinstance(g.iter, ast.Name) and g.iter.id in _ENUM_MEMBERS:
            rows = [ast.Attribute(value=ast.Name(id=g.iter.id, ctx=ast.Load()), attr=m_, ctx=ast.Load()) for m_ in _ENUM_MEMBERS[g.iter.id]]
        if rows is None or not 1 <= len(rows) <= 6 or any(isinstance(e, ast.Starred) for e in rows):
            return node
        return self._unrolled_rows(node, g, rows, strict=True)

    def _unrolled_rows(self, node, g, rows, strict=False):
        if not 1 <= len(rows) <= 6:
            return node
        out = []
        for e in rows:
            mp = _destructure(g.target, e) if strict else _destructure_any(g.target, e)
            if mp is None:
                return node
            sub = norm._Subst(dict(mp))
            if isinstance(node, ast.DictComp):
                out.append((sub.visit(copy.deepcopy(node.key)), sub.visit(copy.deepcopy(node.value))))
            else:
                out.append(sub.visit(copy.deepcopy(node.elt)))
        if isinstance(node, ast.DictComp):
            if len({u(k) for k, _ in out}) != len(out):
                return node
            return ast.fix_missing_locations(ast.copy_location(ast.Dict(keys=[k for k, _ in out], values=[v for _, v in out]), node))
        if isinstance(node, ast.ListComp):
            return ast.fix_missing_locations(ast.copy_location(ast.List(elts=out, ctx=ast.Load()), node))
        return node
    visit_DictComp = visit_ListComp = _unrolled

    def visit_Subscript(self, node):
        self.generic_visit(node)
        if isinstance(node.ctx, ast.Load) and isinstance(node.value, ast.Dict) and norm._attr_chain(node.slice) is not None and node.value.keys \
                and all(k_ is not None and norm._attr_chain(k_) is not None for k_ in node.value.keys) and all(norm.is_pure(e, _PURE_EXT) for e in node.value.values):
            # keyed by names (enum members): the entry written under the same name
            hits = [e for k_, e in zip(node.value.keys, node.value.values) if u(k_) == u(node.slice)]
            if len(hits) == 1 and len({u(k_) for k_ in node.value.keys}) == len(node.value.keys):
                return hits[0]
        if isinstance(node.ctx, ast.Load) and isinstance(node.value, ast.Dict) and len(node.value.keys) == 2 \
                and all(isinstance(k_, ast.Constant) and isinstance(k_.value, bool) for k_ in node.value.keys) \
                and {k_.value for k_ in node.value.keys} == {True, False} and all(norm.is_pure(e, _PURE_EXT) for e in node.value.values):
            # {True: a, False: b}[<a truth value>]: the choice between the two
            sl = node.slice
            is_bool = (isinstance(sl, ast.Call) and isinstance(sl.func, ast.Name) and sl.func.id == "bool" and len(sl.args) == 1 and not sl.keywords) \
                or isinstance(sl, ast.Compare) or (isinstance(sl, ast.UnaryOp) and isinstance(sl.op, ast.Not))
            if is_bool:
                test = sl.args[0] if isinstance(sl, ast.Call) else sl
                by = {k_.value: e for k_, e in zip(node.value.keys, node.value.values)}
                return ast.fix_missing_locations(ast.copy_location(ast.IfExp(test=test, body=by[True], orelse=by[False]), node))
        if not isinstance(node.ctx, ast.Load) or not isinstance(node.slice, ast.Constant):
            return node
        v, k = node.value, node.slice.value
        if isinstance(v, (ast.Tuple, ast.List)) and type(k) is int and not any(isinstance(e, ast.Starred) for e in v.elts) and -len(v.elts) <= k < len(v.elts) \
                and all(norm.is_pure(e, _PURE_EXT) for e in v.elts):
            return v.elts[k]
        if isinstance(v, ast.Dict) and v.keys and all(isinstance(x, ast.Constant) for x in v.keys) and all(norm.is_pure(e, _PURE_EXT) for e in v.values):
            hits = [e for x, e in zip(v.keys, v.values) if type(x.value) is type(k) and x.value == k]
            if hits:
                return hits[-1]
        return node


def fold_constant_ifs(stmts):
    """if True: A else: B  ->  A      (a test folded to a literal: the branch not taken is no code at all)"""
    out = []
    for s_ in stmts:
        for fld in ("body", "orelse", "finalbody"):
            bb = getattr(s_, fld, None)
            if isinstance(bb, list) and bb and isinstance(bb[0], ast.stmt) and not isinstance(s_, (ast.FunctionDef, ast.AsyncFunctionDef, ast.ClassDef)):
                setattr(s_, fld, fold_constant_ifs(bb) or ([ast.Pass()] if fld == "body" else []))
        if isinstance(s_, ast.Try):
            for h in s_.handlers:
                h.body = fold_constant_ifs(h.body) or [ast.Pass()]
        if isinstance(s_, ast.If) and isinstance(s_.test, ast.Constant) and isinstance(s_.test.value, bool):
            out += [x for x in (s_.body if s_.test.value else s_.orelse) if not isinstance(x, ast.Pass)]
            continue
        out.append(s_)
    return out


def expr_norm(stmts):
    out = []
    for s in stmts:
        s = _ExprNorm().visit(s)
        s = _FoldConst().visit(s)
        s = _BoundVars().visit(s)
        out.append(s)
    return out


# ---------------------------------------------------------------------------------------
# 7  forward substitution: pure temporaries + adjacent single-use impure ones
def _ctor_like(f) -> bool:
    name = f.attr if isinstance(f, ast.Attribute) else (f.id if isinstance(f, ast.Name) else "")
    return bool(name) and name.lstrip("_")[:1].isupper()       # (private classes too: _SubPort(..))


def is_pure_ext(e, pure_calls=()) -> bool:
    for n in ast.walk(e):
        if isinstance(n, ast.Call):
            f = n.func
            if isinstance(f, ast.Name) and (f.id in norm.PURE_FUNCS or f.id in pure_calls):
                continue
            if isinstance(f, ast.Attribute) and (f.attr in norm.PURE_METHODS or f.attr in pure_calls):
                continue
            if _ctor_like(f):
                continue
            return False
        if isinstance(n, (ast.NamedExpr, ast.Await, ast.Yield, ast.YieldFrom)):
            return False
    return True


def _reads(stmts, name) -> int:
    return sum(1 for s in stmts for n in ast.walk(s) if isinstance(n, ast.Name) and n.id == name and isinstance(n.ctx, ast.Load))


def subst_single_use(stmts):
    """x = <impure E>; S  where S is the next statement, reads x exactly once (nowhere else in the function), and
    x is not inside a loop/comprehension/lambda of S  ->  S[x := E]"""
    def whole_reads(name):
        return _reads(stmts, name)

    def stores(name):
        return sum(1 for s in stmts for n in ast.walk(s) if isinstance(n, ast.Name) and n.id == name and isinstance(n.ctx, ast.Store))

    def paired(name):
        """the same temporary name used in several arms: every store of it is a plain assignment whose next statement holds its one
        read, and there are no other reads (so each read sees the assignment just before it)"""
        ok, n_st = [True], [0]

        def scan(block):
            for j, s_ in enumerate(block):
                t_ = s_.targets[0] if isinstance(s_, ast.Assign) and len(s_.targets) == 1 else None
                if isinstance(t_, ast.Name) and t_.id == name:
                    n_st[0] += 1
                    if j + 1 >= len(block) or _reads([block[j + 1]], name) != 1 or not _reads_at_top(block[j + 1], name) or _reads([s_], name):
                        ok[0] = False
                _recurse_blocks(s_, lambda b_: (scan(b_), b_)[1])
        scan(stmts)
        return ok[0] and n_st[0] >= 1 and whole_reads(name) == n_st[0] and stores(name) == n_st[0]

    def rec(block):
        block = list(block)
        i = 0
        out = []
        while i < len(block):
            s = block[i]
            if i + 1 < len(block) and isinstance(s, (ast.Assign, ast.AnnAssign)) and s.value is not None:
                t = s.targets[0] if isinstance(s, ast.Assign) and len(s.targets) == 1 else (s.target if isinstance(s, ast.AnnAssign) else None)
                if isinstance(t, ast.Name) and not is_pure_ext(s.value) and (
                        (whole_reads(t.id) == 1 and stores(t.id) == 1) or (_reads([block[i + 1]], t.id) == 1 and paired(t.id))):
                    nxt = block[i + 1]
                    if _reads_at_top(nxt, t.id):
                        block[i + 1] = norm._Subst({t.id: s.value}).visit(nxt)
                        i += 1
                        continue
            _recurse_blocks(s, rec)
            out.append(s)
            i += 1
        return out
    for _ in range(6):
        before = sum(1 for s_ in stmts for _n in ast.walk(s_))
        stmts = rec(stmts)
        if sum(1 for s_ in stmts for _n in ast.walk(s_)) == before:
            break
    return stmts


def _loop_level_jump(body) -> bool:
    """a break / continue that belongs to the loop whose body this is"""
    def walk(stmts):
        for s_ in stmts:
            if isinstance(s_, (ast.Break, ast.Continue)):
                return True
            if isinstance(s_, (ast.For, ast.While, ast.FunctionDef, ast.AsyncFunctionDef, ast.ClassDef)):
                if isinstance(s_, (ast.For, ast.While)) and walk(s_.orelse):
                    return True
                continue
            for fld in ("body", "orelse", "finalbody"):
                bb = getattr(s_, fld, None)
                if isinstance(bb, list) and bb and isinstance(bb[0], ast.stmt) and walk(bb):
                    return True
            if isinstance(s_, ast.Try) and any(walk(h.body) for h in s_.handlers):
                return True
        return False
    return walk(body)


def _reads_at_top(s, name) -> bool:
    """name is read in the header expression of s (not inside a nested block, comprehension element or lambda)"""
    if isinstance(s, (ast.If, ast.While)):
        roots = [s.test]
    elif isinstance(s, ast.For):
        roots = [s.iter]
    elif isinstance(s, (ast.Assign, ast.AnnAssign, ast.AugAssign, ast.Return, ast.Expr)):
        roots = [s.value] if s.value is not None else []
        if isinstance(s, ast.Assign):
            roots += s.targets
    elif isinstance(s, ast.Raise):
        roots = [x for x in (s.exc, s.cause) if x is not None]
    else:
        return False

    def walk(e, inside):
        if isinstance(e, ast.Name) and e.id == name and isinstance(e.ctx, ast.Load):
            return not inside
        if isinstance(e, ast.Lambda):
            return False
        if isinstance(e, (ast.ListComp, ast.SetComp, ast.DictComp, ast.GeneratorExp)):
            # only the first iterable is evaluated once, immediately
            return walk(e.generators[0].iter, inside)
        return any(walk(c, inside) for c in ast.iter_child_nodes(e))
    return any(walk(r, False) for r in roots)


# ---------------------------------------------------------------------------------------
_KNOWN = None


def known_defs() -> set[str]:
    """names of every function / method of the package at the time the rule tables were written (hv/known_defs.json);
    a private helper *not* in this set is unknown to the tables and is seen through by inlining"""
    global _KNOWN
    if _KNOWN is None:
        p = Path(__file__).with_name("known_defs.json")
        _KNOWN = set(json.loads(p.read_text())) if p.exists() else set()
    return _KNOWN


def split_dict_locals(stmts):
    """rows = {K1: V1, K2: V2}  with rows bound once and read only as rows[K1] / rows[K2] (the keys written the same way): one local per
    entry, bound in the order the display evaluates them"""
    uses = {}
    for s_ in stmts:
        for n in ast.walk(s_):
            if isinstance(n, ast.Name):
                uses.setdefault(n.id, []).append(n)
    out = list(stmts)
    for i, s_ in enumerate(stmts):
        if not (isinstance(s_, ast.Assign) and len(s_.targets) == 1 and isinstance(s_.targets[0], ast.Name) and isinstance(s_.value, ast.Dict) and s_.value.keys):
            continue
        x, d_ = s_.targets[0].id, s_.value
        if any(k is None or not (isinstance(k, ast.Constant) or norm._attr_chain(k) is not None) for k in d_.keys) or len({u(k) for k in d_.keys}) != len(d_.keys):
            continue
        if sum(1 for n in uses.get(x, []) if not isinstance(n.ctx, ast.Load)) != 1:
            continue
        keys = [u(k) for k in d_.keys]
        subs = {id(n.value): n for b_ in stmts for n in ast.walk(b_) if isinstance(n, ast.Subscript) and isinstance(n.value, ast.Name) and n.value.id == x}
        loads = [n for n in uses.get(x, []) if isinstance(n.ctx, ast.Load)]
        if not loads or not all(id(n) in subs and isinstance(subs[id(n)].ctx, ast.Load) and u(subs[id(n)].slice) in keys for n in loads):
            continue
        names = {k: f"{x}__{j}" for j, k in enumerate(keys)}

        class R(ast.NodeTransformer):
            def visit_Subscript(self, node):
                if isinstance(node.value, ast.Name) and node.value.id == x and isinstance(node.ctx, ast.Load) and u(node.slice) in names:
                    return ast.copy_location(ast.Name(id=names[u(node.slice)], ctx=ast.Load()), node)
                return self.generic_visit(node)
        binds = [ast.fix_missing_locations(ast.copy_location(ast.Assign(targets=[ast.Name(id=names[u(k)], ctx=ast.Store())], value=v), s_)) for k, v in zip(d_.keys, d_.values)]
        rest = [R().visit(b_) for b_ in out[i + 1:]]
        return split_dict_locals(out[:i] + binds + rest)
    return out


def inline_table_locals(stmts):
    """table = ((A, f), (B, g)); ..; for row in table: ..     with `table` bound once to a display of names / constants / lambdas and read
    once, as the iterable of a loop: the display is written there (the loop is then a literal one in both substitution modes)"""
    uses = {}
    for s_ in stmts:
        for n in ast.walk(s_):
            if isinstance(n, ast.Name):
                uses[n.id] = uses.get(n.id, 0) + 1
    tables = {}
    for s_ in stmts:
        for n in ast.walk(s_):
            if isinstance(n, ast.Assign) and len(n.targets) == 1 and isinstance(n.targets[0], ast.Name) and uses.get(n.targets[0].id) == 2 \
                    and isinstance(n.value, (ast.Tuple, ast.List, ast.Dict)) and _table_display(n.value):
                tables[n.targets[0].id] = n
    if not tables:
        return stmts
    hit = set()

    class R(ast.NodeTransformer):
        def visit_For(self, node):
            self.generic_visit(node)
            it = node.iter
            base = it.func.value if isinstance(it, ast.Call) and isinstance(it.func, ast.Attribute) and it.func.attr in ("items", "keys", "values") and not it.args else it
            if isinstance(base, ast.Name) and base.id in tables and base.id not in hit:
                hit.add(base.id)
                disp = copy.deepcopy(tables[base.id].value)
                if base is it:
                    node.iter = disp
                else:
                    it.func.value = disp
            return node
    out = [R().visit(s_) for s_ in stmts]
    if not hit:
        return stmts

    class D(ast.NodeTransformer):
        def visit_Assign(self, node):
            if len(node.targets) == 1 and isinstance(node.targets[0], ast.Name) and node.targets[0].id in hit and node is tables.get(node.targets[0].id):
                return None
            return node
    out = [x for x in (D().visit(s_) for s_ in out) if x is not None]
    for s_ in out:
        for fld in ("body", "orelse", "finalbody"):
            bb = getattr(s_, fld, None)
            if isinstance(bb, list) and not bb:
                setattr(s_, fld, [ast.Pass()] if fld == "body" else [])
        ast.fix_missing_locations(s_)
    return out


def _const_int(v, module, depth=0):
    """the integer a module-level expression evaluates to when it is arithmetic (+, -, *) over integer literals, other such constants of
    the module (bound once) and len(<bytes / str literal constant of the module>); None otherwise"""
    if depth > 4:
        return None
    if isinstance(v, ast.Constant) and type(v.value) is int:
        return v.value
    if isinstance(v, ast.UnaryOp) and isinstance(v.op, (ast.USub, ast.UAdd)):
        a = _const_int(v.operand, module, depth + 1)
        return None if a is None else (-a if isinstance(v.op, ast.USub) else a)
    if isinstance(v, ast.BinOp) and isinstance(v.op, (ast.Add, ast.Sub, ast.Mult)):
        a, b = _const_int(v.left, module, depth + 1), _const_int(v.right, module, depth + 1)
        if a is None or b is None:
            return None
        return a + b if isinstance(v.op, ast.Add) else (a - b if isinstance(v.op, ast.Sub) else a * b)
    stores = sum(1 for n in ast.walk(module.tree) if isinstance(n, ast.Name) and isinstance(n.ctx, (ast.Store, ast.Del)) and isinstance(v, (ast.Name, ast.Call))
                 and n.id == (v.id if isinstance(v, ast.Name) else (v.args[0].id if v.args and isinstance(v.args[0], ast.Name) else "")))
    if isinstance(v, ast.Name) and stores == 1 and v.id in module.assigns:
        return _const_int(module.assigns[v.id], module, depth + 1)
    if isinstance(v, ast.Call) and isinstance(v.func, ast.Name) and v.func.id == "len" and len(v.args) == 1 and not v.keywords and isinstance(v.args[0], ast.Name) and stores == 1:
        w = module.assigns.get(v.args[0].id)
        if isinstance(w, ast.Constant) and isinstance(w.value, (bytes, str)):
            return len(w.value)
    return None


def _destructure(t, e):
    """{name: entry} for a (nested) tuple target against a (nested) tuple row of a table display, None if the shapes differ"""
    if isinstance(t, ast.Name):
        return {t.id: e} if _table_entry(e) else None
    if isinstance(t, (ast.Tuple, ast.List)) and isinstance(e, (ast.Tuple, ast.List)) and len(t.elts) == len(e.elts) \
            and not any(isinstance(x, ast.Starred) for x in list(t.elts) + list(e.elts)):
        mp = {}
        for t2, e2 in zip(t.elts, e.elts):
            r_ = _destructure(t2, e2)
            if r_ is None:
                return None
            mp.update(r_)
        return mp
    return None


def _destructure_any(t, e):
    """like _destructure, the entries being any expressions"""
    if isinstance(t, ast.Name):
        return {t.id: e}
    if isinstance(t, (ast.Tuple, ast.List)) and isinstance(e, (ast.Tuple, ast.List)) and len(t.elts) == len(e.elts) \
            and not any(isinstance(x, ast.Starred) for x in list(t.elts) + list(e.elts)):
        mp = {}
        for t2, e2 in zip(t.elts, e.elts):
            r_ = _destructure_any(t2, e2)
            if r_ is None:
                return None
            mp.update(r_)
        return mp
    return None


def _table_display(e) -> bool:
    """a display of names / constants / lambdas (possibly nested tuples), at most 12 rows: a dispatch table written in the code"""
    if isinstance(e, ast.Dict):
        return 1 <= len(e.keys) <= 12 and all(k is not None and _table_entry(k) for k in e.keys) and all(_table_entry(v) for v in e.values)
    return isinstance(e, (ast.Tuple, ast.List)) and 1 <= len(e.elts) <= 12 and all(_table_entry(x) for x in e.elts)


def _table_entry(e) -> bool:
    if isinstance(e, ast.Tuple):
        return all(_table_entry(x) for x in e.elts)
    return isinstance(e, (ast.Constant, ast.Lambda)) or norm._attr_chain(e) is not None


class _StripAnn(ast.NodeTransformer):
    """`x: T = v` -> `x = v`; a bare declaration `x: T` disappears (annotations of locals have no run-time effect)"""
    def visit_AnnAssign(self, node):
        if not isinstance(node.target, ast.Name):
            return node
        if node.value is None:
            return ast.copy_location(ast.Pass(), node)
        return ast.copy_location(ast.Assign(targets=[node.target], value=node.value), node)

    def visit_ClassDef(self, node):
        return node


def strip_annotations(stmts):
    out = [_StripAnn().visit(s) for s in stmts]
    return [s for s in out if not isinstance(s, ast.Pass)] or out[:1]


class Canon:
    def __init__(self, prog):
        self.prog = prog
        self.cache: dict = {}
        self._keepalive: list = []
        norm.FINAL_ATTRS.clear()
        norm.FINAL_ATTRS.update(self._final_attrs())
        from . import paths as _paths
        fields: dict = {}
        for m_ in prog.modules.values():
            for c in m_.classes.values():
                plain = c.is_dataclass and c.find_method("__init__")[1] is None and c.find_method("__post_init__")[1] is None \
                    and not any(n_ in k_.methods for k_ in c.mro for n_ in ("__getattr__", "__getattribute__", "__new__"))
                names = [f.name for f in c.all_fields() if f.init] if plain else []
                other = {n_ for k_ in c.mro for n_ in list(k_.methods) + list(k_.class_assigns)} | ({"*"} if not plain else set())
                fields.setdefault(c.name, []).append((names, other - set(names)))
        _paths.CTOR_FIELDS.clear()
        _paths.CTOR_FIELDS.update({k: v for k, v in fields.items() if not any("*" in o for _, o in v)})

    def _sroa(self, stmts, module, look):
        """x = _Helper(args)  with _Helper a private plain class the tables do not know, x used only as x.m(..) / x.f and never handed
        on: the object is its fields.  The constructor's `self.f = E` become locals x__f, every method runs in place on those locals
        (scalar replacement).  Returns the statements and a lookup that resolves x.m(..) to the method over the locals."""
        known = known_defs()
        objs = {}
        for i, s_ in enumerate(stmts):
            if not (isinstance(s_, ast.Assign) and len(s_.targets) == 1 and isinstance(s_.targets[0], ast.Name) and isinstance(s_.value, ast.Call)
                    and isinstance(s_.value.func, ast.Name)):
                continue
            cname, x = s_.value.func.id, s_.targets[0].id
            c = module.classes.get(cname)
            if c is None and cname in module.imports:
                # a private helper class kept in a sibling module and imported: the same, its methods respelled in this module's names
                try:
                    from .model import Class as _Cls
                    r_ = module.resolve(s_.value.func)
                    c = r_ if isinstance(r_, _Cls) else None
                except Exception:
                    c = None
            if c is None or not cname.startswith("_") or f"class:{cname}" in known or c.is_dataclass \
                    or [b_ for b_ in c.node.bases if u(b_) != "object" and u(b_).split("[")[0].split(".")[-1] != "Generic"] \
                    or c.node.keywords or any(n_.startswith("__") and n_ not in ("__init__",) for n_ in c.methods) \
                    or any(m_.decorator_list for m_ in c.methods.values()):
                continue
            if sum(1 for b_ in stmts for n in ast.walk(b_) if isinstance(n, ast.Name) and n.id == x and not isinstance(n.ctx, ast.Load)) != 1:
                continue
            fields = set()
            ok = True
            for m_ in c.methods.values():
                sn = m_.args.args[0].arg if m_.args.args else None
                if sn is None or m_.args.vararg or m_.args.kwarg:
                    ok = False
                    break
                for n in ast.walk(m_):
                    if isinstance(n, ast.Attribute) and isinstance(n.value, ast.Name) and n.value.id == sn and n.attr not in c.methods:
                        fields.add(n.attr)
                # self used other than as self.f / self.m(..)
                attr_bases = {id(n.value) for n in ast.walk(m_) if isinstance(n, ast.Attribute)}
                if any(isinstance(n, ast.Name) and n.id == sn and id(n) not in attr_bases for n in ast.walk(m_)):
                    ok = False
                    break
            # the fields are rebound only by the constructor, which is a list of `self.f = E` (methods may change what a field holds,
            # not which object it is: a rebinding inside an inlined method would be taken for a local of that method)
            init = c.methods.get("__init__")
            for mn_, m_ in c.methods.items():
                sn = m_.args.args[0].arg
                stores = [n for n in ast.walk(m_) if isinstance(n, ast.Attribute) and isinstance(n.value, ast.Name) and n.value.id == sn and isinstance(n.ctx, (ast.Store, ast.Del))]
                if mn_ != "__init__" and stores:
                    ok = False
            if init is not None:
                for st in real_body(init):
                    tg = st.targets[0] if isinstance(st, ast.Assign) and len(st.targets) == 1 else (st.target if isinstance(st, ast.AnnAssign) else None)
                    if not (isinstance(tg, ast.Attribute) and isinstance(tg.value, ast.Name) and tg.value.id == init.args.args[0].arg) or getattr(st, "value", None) is None:
                        ok = False
                if norm.bind_call(init, s_.value, True) is None:
                    ok = False
            elif s_.value.args or s_.value.keywords:
                ok = False
            if not ok:
                continue
            # every use of x is x.m(..) or x.f
            uses_ok = True
            attr_of = {id(n.value): n for b_ in stmts for n in ast.walk(b_) if isinstance(n, ast.Attribute)}
            call_funcs = {id(n.func) for b_ in stmts for n in ast.walk(b_) if isinstance(n, ast.Call)}
            for b_ in stmts:
                for n in ast.walk(b_):
                    if isinstance(n, ast.Name) and n.id == x and isinstance(n.ctx, ast.Load):
                        a = attr_of.get(id(n))
                        if a is None or not ((a.attr in c.methods and id(a) in call_funcs and a.attr != "__init__") or (a.attr in fields and a.attr not in c.methods)):
                            uses_ok = False
            if not uses_ok:
                continue
            objs[x] = (c, i, fields)
        if not objs:
            return stmts, look
        stmts = list(stmts)

        def rewritten(x, c, m_):
            m2 = copy.deepcopy(m_)
            sn = m2.args.args[0].arg

            class F(ast.NodeTransformer):
                def visit_Attribute(self, node):
                    if isinstance(node.value, ast.Name) and node.value.id == sn and node.attr not in c.methods:
                        return ast.copy_location(ast.Name(id=f"{x}__{node.attr.strip('_')}", ctx=node.ctx), node)
                    return self.generic_visit(node)
            class A(ast.NodeTransformer):
                # self.f: T = E  is a plain store once the field is a local
                def visit_AnnAssign(self, node):
                    if isinstance(node.target, ast.Attribute) and isinstance(node.target.value, ast.Name) and node.target.value.id == sn:
                        if node.value is None:
                            return ast.copy_location(ast.Pass(), node)
                        return ast.copy_location(ast.Assign(targets=[node.target], value=node.value), node)
                    return node
            m2.body = [F().visit(A().visit(b_)) for b_ in m2.body]
            if c.module is not module:
                m2.body = self._respell(m2.body, c.module, module)
            ast.fix_missing_locations(m2)
            self._keepalive.append(m2)
            return m2
        table = {}
        for x, (c, i, fields) in objs.items():
            for mn, m_ in c.methods.items():
                table[(x, mn)] = rewritten(x, c, m_)

        def prep(body):
            return lift_walrus(lift_ifexp(lower_matches(body, self._match_args(module))))

        def look2(call):
            f = call.func
            if isinstance(f, ast.Attribute) and isinstance(f.value, ast.Name) and (f.value.id, f.attr) in table:
                return table[(f.value.id, f.attr)], True, prep
            return look(call)
        look2.context = getattr(look, "context", None)
        # the constructor call becomes the field initialisations
        splice = {}
        for x, (c, i, fields) in objs.items():
            call = stmts[i].value
            new = []
            if "__init__" in c.methods:
                init = c.methods["__init__"]
                binds = norm.bind_call(init, call, True)
                pre = []
                sub = {}
                for p_, a_ in binds.items():
                    if _simple_arg(a_):
                        sub[p_] = a_
                    else:
                        self._keepalive.append(a_)
                        nm = f"{x}__arg_{p_}"
                        pre.append(ast.Assign(targets=[ast.Name(id=nm, ctx=ast.Store())], value=a_))
                        sub[p_] = ast.Name(id=nm, ctx=ast.Load())
                new += pre
                for st in real_body(table[(x, "__init__")]):
                    st = norm._Subst(dict(sub)).visit(copy.deepcopy(st))
                    if not isinstance(st, ast.Pass):
                        new.append(st)
            for n_ in new:
                ast.copy_location(n_, stmts[i])
                ast.fix_missing_locations(n_)
            splice[i] = new
        stmts = [y for i, s_ in enumerate(stmts) for y in (splice[i] if i in splice else [s_])]

        # plain field reads x.f
        class R(ast.NodeTransformer):
            def visit_Attribute(self, node):
                if isinstance(node.value, ast.Name) and node.value.id in objs and node.attr in objs[node.value.id][2] and node.attr not in objs[node.value.id][0].methods:
                    return ast.copy_location(ast.Name(id=f"{node.value.id}__{node.attr.strip('_')}", ctx=node.ctx), node)
                return self.generic_visit(node)
        stmts = [R().visit(s_) for s_ in stmts]
        return stmts, look2

    def _record_ctors(self, module) -> frozenset:
        """private record classes of the module the tables do not know: NamedTuple / dataclass with the generated constructor only"""
        known = known_defs()
        out = set()
        for cname, c in module.classes.items():
            if not cname.startswith("_") or f"class:{cname}" in known:
                continue
            is_nt = any(u(b_).split(".")[-1] == "NamedTuple" for b_ in c.node.bases)
            if (is_nt or c.is_dataclass) and not any(n_ in c.methods for n_ in ("__init__", "__post_init__", "__new__", "__getattr__", "__getattribute__")):
                out.add(cname)
        return frozenset(out)

    def _project_records_multi(self, stmts, module):
        """a local that is only ever bound to constructor calls of one private record class (NamedTuple / plain dataclass the tables do not
        know), possibly in several branches, and only read as x.field / x[i]: the record is its fields, kept in locals x__field"""
        known = known_defs()
        recs = {cn: c for cn, c in module.classes.items() if cn in self._record_ctors(module)}
        if not recs:
            return stmts
        stores, loads = {}, {}
        parents = {}
        for s_ in stmts:
            for n in ast.walk(s_):
                for ch in ast.iter_child_nodes(n):
                    parents[id(ch)] = n
        for s_ in stmts:
            for n in ast.walk(s_):
                if isinstance(n, ast.Name):
                    (stores if isinstance(n.ctx, (ast.Store, ast.Del)) else loads).setdefault(n.id, []).append(n)
        todo = {}
        for x, ss in stores.items():
            cls_ = None
            ok = True
            for n in ss:
                a = parents.get(id(n))
                if not (isinstance(a, ast.Assign) and len(a.targets) == 1 and a.targets[0] is n and isinstance(a.value, ast.Call) and isinstance(a.value.func, ast.Name)
                        and a.value.func.id in recs and (cls_ is None or cls_ == a.value.func.id)):
                    ok = False
                    break
                cls_ = a.value.func.id
            if not ok or cls_ is None:
                continue
            c = recs[cls_]
            is_nt = any(u(b_).split(".")[-1] == "NamedTuple" for b_ in c.node.bases)
            params = [f.name for f in (c.fields if is_nt else c.all_fields()) if (is_nt or f.init) and not f.classvar]
            for n in loads.get(x, []):
                a = parents.get(id(n))
                if isinstance(a, ast.Attribute) and a.value is n and a.attr in params and isinstance(a.ctx, ast.Load):
                    continue
                if is_nt and isinstance(a, ast.Subscript) and a.value is n and isinstance(a.slice, ast.Constant) and type(a.slice.value) is int \
                        and 0 <= a.slice.value < len(params) and isinstance(a.ctx, ast.Load):
                    continue
                ok = False
                break
            if ok and loads.get(x):
                todo[x] = (c, params, is_nt)
        if not todo:
            return stmts

        class W(ast.NodeTransformer):
            def visit_Assign(self, node):
                self.generic_visit(node)
                if len(node.targets) == 1 and isinstance(node.targets[0], ast.Name) and node.targets[0].id in todo:
                    x = node.targets[0].id
                    c, params, is_nt = todo[x]
                    call = node.value
                    if not isinstance(call, ast.Call):
                        raise NoCanon("a store that is no constructor call")
                    if any(isinstance(a, ast.Starred) for a in call.args) or any(k.arg is None for k in call.keywords) or len(call.args) > len(params):
                        raise NoCanon("record constructor with unpacking")
                    vals = dict(zip(params, call.args))
                    vals.update({k.arg: k.value for k in call.keywords})
                    if set(vals) != set(params):
                        raise NoCanon("record constructor with defaults")
                    order = [p_ for p_ in params[:len(call.args)]] + [k.arg for k in call.keywords]
                    return [ast.copy_location(ast.Assign(targets=[ast.Name(id=f"{x}__{p_}", ctx=ast.Store())], value=vals[p_]), node) for p_ in order]
                return node

            def visit_Attribute(self, node):
                if isinstance(node.value, ast.Name) and node.value.id in todo and isinstance(node.ctx, ast.Load):
                    return ast.copy_location(ast.Name(id=f"{node.value.id}__{node.attr}", ctx=ast.Load()), node)
                return self.generic_visit(node)

            def visit_Subscript(self, node):
                if isinstance(node.value, ast.Name) and node.value.id in todo and isinstance(node.ctx, ast.Load) and isinstance(node.slice, ast.Constant):
                    return ast.copy_location(ast.Name(id=f"{node.value.id}__{todo[node.value.id][1][node.slice.value]}", ctx=ast.Load()), node)
                return self.generic_visit(node)
        try:
            new = []
            for s_ in copy.deepcopy(stmts):
                r = W().visit(s_)
                new += r if isinstance(r, list) else [r]
            for n_ in new:
                ast.fix_missing_locations(n_)
            return new
        except NoCanon:
            return stmts

    def _project_nested(self, stmts, module):
        """_project_helper_objects in every block"""
        stmts = self._project_helper_objects(stmts, module)
        for s_ in stmts:
            if not isinstance(s_, (ast.FunctionDef, ast.AsyncFunctionDef, ast.ClassDef)):
                _recurse_blocks(s_, lambda b_: self._project_nested(b_, module))
        return stmts

    def helper_object_views(self, stmts, module, cls):
        """self._p  with _p a private property the tables do not know whose body is `return <pure expression>`: the expression.
        _Helper(args).m(..)  with _Helper a private class of the module the tables do not know: `t = _Helper(args); t.m(..)` (the
        constructor only files pure arguments; the named object is then replaced by its fields where it is used)"""
        known = known_defs()
        hit = [False]

        def prop_value(name):
            if cls is None or not name.startswith("_") or name.startswith("__") or any(f"{b_.name}.{name}" in known for b_ in cls.mro):
                return None
            _, m = cls.find_method(name)
            if m is None or [u(d) for d in m.decorator_list] != ["property"] or len(m.args.args) != 1:
                return None
            b_ = real_body(m)
            if len(b_) != 1 or not isinstance(b_[0], ast.Return) or b_[0].value is None or not norm.is_pure(b_[0].value, _PURE_EXT):
                return None
            sn = m.args.args[0].arg
            e = copy.deepcopy(b_[0].value)
            return e if sn == "self" else norm._Rename({sn: "self"}).visit(e)

        class P(ast.NodeTransformer):
            def visit_Attribute(self, node):
                self.generic_visit(node)
                if isinstance(node.ctx, ast.Load) and isinstance(node.value, ast.Name) and node.value.id == "self":
                    v = prop_value(node.attr)
                    if v is not None:
                        hit[0] = True
                        return ast.fix_missing_locations(ast.copy_location(v, node))
                return node
        stmts = [P().visit(s_) for s_ in stmts]
        if not hit[0]:
            return stmts
        return self.name_helper_receivers(norm.split_parallel_assign(stmts), module)

    def run_on_fresh_records(self, stmts, module):
        """x = _Rec(a, b); x.m(c)    with _Rec a private NamedTuple / dataclass record the tables do not know and m a method that only
        runs statements over the fields (no value returned): m's body with the fields written in -- a "command object" applied on the
        spot.  The binding of x is dropped when nothing reads x before it is bound again."""
        known = known_defs()

        def record_fields(call):
            if not (isinstance(call, ast.Call) and isinstance(call.func, ast.Name)):
                return None, None
            c = module.classes.get(call.func.id)
            if c is None or not call.func.id.startswith("_") or f"class:{call.func.id}" in known \
                    or any(n_ in c.methods for n_ in ("__init__", "__post_init__", "__new__", "__getattr__", "__setattr__", "__getattribute__")):
                return None, None
            is_nt = any(u(b_).split(".")[-1] == "NamedTuple" for b_ in c.node.bases)
            if not (is_nt or c.is_dataclass):
                return None, None
            vals = self._record_fields(call, module, getattr(self, "_cur_cls", None)) if c.is_dataclass else None
            if is_nt:
                params = [f.name for f in c.fields if not f.classvar]
                if any(isinstance(a, ast.Starred) for a in call.args) or any(k.arg is None or k.arg not in params for k in call.keywords) or len(call.args) > len(params):
                    return None, None
                vals = dict(zip(params, call.args))
                vals.update({k.arg: k.value for k in call.keywords})
                for f in c.fields:
                    if f.name not in vals and f.node.value is not None and isinstance(f.node.value, ast.Constant):
                        vals[f.name] = f.node.value
                if set(vals) != set(params):
                    return None, None
            if vals is None or not all(norm.is_pure(v, _PURE_EXT) for v in vals.values()):
                return None, None
            return c, vals

        def block(b):
            b = list(b)
            for s_ in b:
                for fld in ("body", "orelse", "finalbody"):
                    bb = getattr(s_, fld, None)
                    if isinstance(bb, list) and bb and isinstance(bb[0], ast.stmt) and not isinstance(s_, (ast.FunctionDef, ast.AsyncFunctionDef, ast.ClassDef)):
                        setattr(s_, fld, block(bb))
                if isinstance(s_, ast.Try):
                    for h in s_.handlers:
                        h.body = block(h.body)
            i = 0
            while i + 1 < len(b):
                a_, e_ = b[i], b[i + 1]
                if isinstance(a_, ast.Assign) and len(a_.targets) == 1 and isinstance(a_.targets[0], ast.Name) and isinstance(e_, ast.Expr) \
                        and isinstance(e_.value, ast.Call) and isinstance(e_.value.func, ast.Attribute) and isinstance(e_.value.func.value, ast.Name) \
                        and e_.value.func.value.id == a_.targets[0].id and not e_.value.keywords and not any(isinstance(x, ast.Starred) for x in e_.value.args):
                    x = a_.targets[0].id
                    c, vals = record_fields(a_.value)
                    m = c.methods.get(e_.value.func.attr) if c is not None else None
                    if m is not None and not m.decorator_list and len(m.args.args) == len(e_.value.args) + 1 and not m.args.vararg and not m.args.kwarg \
                            and not _contains(m, (ast.Yield, ast.YieldFrom, ast.Await, ast.Return)) and all(norm.is_pure(v, _PURE_EXT) for v in e_.value.args):
                        sn = m.args.args[0].arg
                        sub = dict(zip([p_.arg for p_ in m.args.args[1:]], e_.value.args))
                        body = [copy.deepcopy(y) for y in real_body(m)]
                        ok = [True]

                        class F(ast.NodeTransformer):
                            def visit_Attribute(self, node):
                                if isinstance(node.value, ast.Name) and node.value.id == sn:
                                    if node.attr in vals and isinstance(node.ctx, ast.Load):
                                        return copy.deepcopy(vals[node.attr])
                                    ok[0] = False
                                    return node
                                return self.generic_visit(node)

                            def visit_Name(self, node):
                                if node.id == sn:
                                    ok[0] = False
                                return node
                        body = [F().visit(y) for y in body]
                        if ok[0] and not (norm._assigned_names(body) & ({x} | {n.id for v in list(vals.values()) + list(sub.values()) for n in ast.walk(v) if isinstance(n, ast.Name)})):
                            body = [norm._Subst(dict(sub)).visit(y) for y in body] if sub else body
                            # is x read again before it is bound again?
                            later = b[i + 2:]
                            read_first = False
                            for y in later:
                                loads = any(isinstance(n, ast.Name) and n.id == x and isinstance(n.ctx, ast.Load) for n in ast.walk(y))
                                if loads:
                                    read_first = True
                                    break
                                if isinstance(y, ast.Assign) and len(y.targets) == 1 and isinstance(y.targets[0], ast.Name) and y.targets[0].id == x:
                                    break
                                if x in norm._assigned_names([y]):
                                    read_first = True       # (bound somewhere inside: be careful)
                                    break
                            for y in body:
                                ast.copy_location(y, e_)
                                ast.fix_missing_locations(y)
                            b[i:i + 2] = ([a_] if read_first else []) + body
                            continue
                i += 1
            return b
        return block(stmts)

    def name_helper_receivers(self, stmts, module):
        """_Helper(args).m(..)  with _Helper a private class of the module the tables do not know: `t = _Helper(args); t.m(..)`"""
        known = known_defs()
        self._nhr = getattr(self, "_nhr", 0)
        counter = [self._nhr]

        def helper_ctor(e):
            return isinstance(e, ast.Call) and isinstance(e.func, ast.Name) and e.func.id.startswith("_") and e.func.id in module.classes \
                and f"class:{e.func.id}" not in known and norm.is_pure(e, _PURE_EXT)

        def block(b):
            out = []
            for s_ in b:
                for fld in ("body", "orelse", "finalbody"):
                    bb = getattr(s_, fld, None)
                    if isinstance(bb, list) and bb and isinstance(bb[0], ast.stmt) and not isinstance(s_, (ast.FunctionDef, ast.AsyncFunctionDef, ast.ClassDef)):
                        setattr(s_, fld, block(bb))
                if isinstance(s_, ast.Try):
                    for h in s_.handlers:
                        h.body = block(h.body)
                if isinstance(s_, (ast.Expr, ast.Return, ast.Assign, ast.AugAssign, ast.AnnAssign, ast.Delete)):
                    pre = []

                    class R(ast.NodeTransformer):
                        def visit_Lambda(self, node):
                            return node

                        def visit_Attribute(self, node):
                            self.generic_visit(node)
                            if helper_ctor(node.value):
                                counter[0] += 1
                                t = f"{node.value.func.id.lstrip('_').lower()}{counter[0]}_"
                                pre.append(ast.fix_missing_locations(ast.copy_location(ast.Assign(targets=[ast.Name(id=t, ctx=ast.Store())], value=node.value), s_)))
                                node.value = ast.copy_location(ast.Name(id=t, ctx=ast.Load()), node.value)
                            return node
                    if not any(isinstance(n, (ast.GeneratorExp, ast.ListComp, ast.SetComp, ast.DictComp, ast.IfExp, ast.BoolOp)) for n in ast.walk(s_)):
                        s_ = R().visit(s_)
                        out += pre
                out.append(s_)
            return out
        res = block(stmts)
        self._nhr = counter[0]
        return res

    def _project_helper_objects(self, stmts, module, whole=None):
        """x = _Helper(a, b)  with _Helper a private dataclass the tables do not know (a record introduced by a refactoring):
        x.field is the constructor argument, x[k] / x.m(k) the one-line accessor with the fields written in.  All or nothing: if x is
        used in any other way the statements are left alone."""
        known = known_defs()
        stmts = list(stmts)
        for i, s_ in enumerate(stmts):
            if not (isinstance(s_, ast.Assign) and len(s_.targets) == 1 and isinstance(s_.targets[0], ast.Name) and isinstance(s_.value, ast.Call)
                    and isinstance(s_.value.func, ast.Name)):
                continue
            cname, x = s_.value.func.id, s_.targets[0].id
            c = module.classes.get(cname)
            if c is None or not cname.startswith("_") or f"class:{cname}" in known \
                    or any(n_ in c.methods for n_ in ("__post_init__", "__new__", "__getattr__", "__setattr__", "__getattribute__")):
                continue
            call = s_.value
            if any(isinstance(a, ast.Starred) for a in call.args) or any(k.arg is None for k in call.keywords):
                continue
            is_nt = any(u(b_).split(".")[-1] == "NamedTuple" for b_ in c.node.bases) and "__new__" not in c.methods and "__init__" not in c.methods
            if (c.is_dataclass and "__init__" not in c.methods) or is_nt:
                params = [f.name for f in (c.fields if is_nt else c.all_fields()) if (is_nt or f.init) and not f.classvar]
                if len(call.args) > len(params):
                    continue
                vals = dict(zip(params, call.args))
                vals.update({k.arg: k.value for k in call.keywords if k.arg in params})
                if set(vals) != set(params):
                    vals = None if is_nt else self._record_fields(call, module, getattr(self, "_cur_cls", None))       # (defaults filled in)
                    if vals is None:
                        continue
            elif not c.is_dataclass and "__init__" in c.methods and not [b_ for b_ in c.node.bases if u(b_) not in ("object",)]:
                # a plain class whose constructor only files its arguments: self.f = param
                init = c.methods["__init__"]
                binds = norm.bind_call(init, call, True)
                ib = real_body(init)
                sn = init.args.args[0].arg if init.args.args else None
                if binds is None or sn is None or init.args.vararg or init.args.kwarg or not ib or not all(
                        isinstance(x, (ast.Assign, ast.AnnAssign)) and isinstance(x.value, ast.Name) and x.value.id in binds
                        and isinstance(t_ := (x.targets[0] if isinstance(x, ast.Assign) else x.target), ast.Attribute)
                        and isinstance(t_.value, ast.Name) and t_.value.id == sn for x in ib):
                    continue
                vals = {(x.targets[0] if isinstance(x, ast.Assign) else x.target).attr: binds[x.value.id] for x in ib}
                # no method stores to the fields
                if any(isinstance(n, ast.Attribute) and isinstance(n.ctx, (ast.Store, ast.Del)) for mn_, m_ in c.methods.items() if mn_ != "__init__" for n in ast.walk(m_)):
                    continue
            else:
                continue
            if not all(norm.is_pure(v, _PURE_EXT) for v in vals.values()):
                # a part computed by a call that only computes (hv/effects.py) may be written where it is read, if it is read once
                # and nothing from here on changes what it reads
                eff = self.effects()
                names_ = {n.id for b_ in stmts for n in ast.walk(b_) if isinstance(n, ast.Name)}
                roots_ = eff.bind_roots(stmts[i + 1:], {n_: {n_} for n_ in names_})
                w_ = eff.stmts_effects(stmts[i + 1:], roots_, getattr(self, "_cur_cls", None), module)
                fine = w_ is not None
                for f_, v in vals.items():
                    if fine and not norm.is_pure(v, _PURE_EXT):
                        e_ = eff.expr_effects(v, roots_, getattr(self, "_cur_cls", None), module)
                        nread = sum(1 for b_ in stmts[i + 1:] for n in ast.walk(b_) if isinstance(n, ast.Attribute) and isinstance(n.value, ast.Name) and n.value.id == x and n.attr == f_)
                        fine = e_ is not None and not e_ and nread <= 1 and not (w_ & eff.reads(v, roots_))
                if not fine:
                    continue
            if sum(1 for b_ in stmts for n in ast.walk(b_) if isinstance(n, ast.Name) and n.id == x and not isinstance(n.ctx, ast.Load)) != 1:
                continue
            ok = [True]
            canon = self

            depth = [0]

            def accessor_body(mname, args):
                m = c.methods.get(mname)
                if m is None or m.decorator_list:
                    return None
                b_ = real_body(m)
                ps = [a.arg for a in m.args.args]
                if len(ps) != len(args) + 1:
                    return None
                class Pre(ast.NodeTransformer):
                    def visit_Call(self, node):
                        # one accessor asking another of the same record
                        if isinstance(node.func, ast.Attribute) and isinstance(node.func.value, ast.Name) and node.func.value.id == ps[0] and not node.keywords \
                                and node.func.attr in c.methods and node.func.attr != mname and depth[0] < 3:
                            depth[0] += 1
                            inner = accessor_body(node.func.attr, [self.visit(a) for a in node.args])
                            depth[0] -= 1
                            if inner is not None:
                                return inner
                        return self.generic_visit(node)
                if any(isinstance(n, ast.Call) and isinstance(n.func, ast.Attribute) and isinstance(n.func.value, ast.Name) and n.func.value.id == ps[0] for x in b_ for n in ast.walk(x)):
                    b_ = [Pre().visit(copy.deepcopy(x)) for x in b_]
                if len(b_) == 1 and isinstance(b_[0], ast.Return) and b_[0].value is not None:
                    e = copy.deepcopy(b_[0].value)
                else:
                    # temporaries and guard clauses: the value as a conditional expression
                    if _contains(m, (ast.Raise, ast.For, ast.While, ast.Try, ast.With, ast.Yield, ast.YieldFrom)):
                        return None
                    e = Inliner(lambda call_: None)._body_expr([copy.deepcopy(x) for x in b_], {}, 0)
                if e is None:
                    return None
                if not norm.is_pure(e, _PURE_EXT):
                    # an accessor that calls something: still one expression evaluated where the accessor was called; its arguments are
                    # written in, so each must be readable as often as its parameter occurs
                    for p_, a_ in zip(ps[1:], args):
                        occ = sum(1 for n in ast.walk(e) if isinstance(n, ast.Name) and n.id == p_)
                        if occ > 1 and not (isinstance(a_, ast.Constant) or norm.is_reference(a_) or norm.is_scalar(a_)):
                            return None
                        if occ <= 1 and not norm.is_pure(a_, _PURE_EXT):
                            return None

                # (the record's own receiver gets a name of its own: the values written in may mention the caller's `self`)
                rself = "rec_self__"
                e = norm._Rename({ps[0]: rself}).visit(e)

                class SelfProj(ast.NodeTransformer):
                    def visit_Attribute(self, node):
                        if isinstance(node.value, ast.Name) and node.value.id == rself and node.attr in vals and isinstance(node.ctx, ast.Load):
                            return copy.deepcopy(vals[node.attr])
                        return self.generic_visit(node)

                e = SelfProj().visit(e)
                if any(isinstance(n, ast.Name) and n.id == rself for n in ast.walk(e)):
                    return None
                return norm._Subst(dict(zip(ps[1:], args))).visit(e)

            class P(ast.NodeTransformer):
                def visit_Attribute(self, node):
                    if isinstance(node.value, ast.Name) and node.value.id == x and isinstance(node.ctx, ast.Load):
                        if node.attr in vals:
                            return copy.deepcopy(vals[node.attr])
                        ok[0] = False
                        return node
                    return self.generic_visit(node)

                def visit_Subscript(self, node):
                    if isinstance(node.value, ast.Name) and node.value.id == x and isinstance(node.ctx, ast.Load):
                        if is_nt and isinstance(node.slice, ast.Constant) and type(node.slice.value) is int and -len(params) <= node.slice.value < len(params):
                            return copy.deepcopy(vals[params[node.slice.value]])
                        e = accessor_body("__getitem__", [self.visit(node.slice)])
                        if e is not None:
                            return e
                        ok[0] = False
                        return node
                    return self.generic_visit(node)

                def visit_Call(self, node):
                    if isinstance(node.func, ast.Attribute) and isinstance(node.func.value, ast.Name) and node.func.value.id == x and not node.keywords:
                        e = accessor_body(node.func.attr, [self.visit(a) for a in node.args])
                        if e is not None:
                            return e
                        ok[0] = False
                        return node
                    return self.generic_visit(node)

                def visit_Name(self, node):
                    if node.id == x and isinstance(node.ctx, ast.Load):
                        ok[0] = False
                    return node
            rest = [P().visit(copy.deepcopy(b_)) for b_ in stmts[i + 1:]]
            if ok[0]:
                new = stmts[:i] + rest
                for n_ in new:
                    ast.fix_missing_locations(n_)
                return self._project_helper_objects(new, module, None if whole is None else whole)
        # records filed inside a branch: where the branch ends the function (nothing of them flows out of it), or where the record's
        # name is written once in the whole function and read only after that in the same branch
        whole = whole if whole is not None else stmts

        def local_to(bb, x, i):
            loads = sum(1 for b_ in whole for n in ast.walk(b_) if isinstance(n, ast.Name) and n.id == x and isinstance(n.ctx, ast.Load))
            stores = sum(1 for b_ in whole for n in ast.walk(b_) if isinstance(n, ast.Name) and n.id == x and not isinstance(n.ctx, ast.Load))
            here = sum(1 for b_ in bb[i + 1:] for n in ast.walk(b_) if isinstance(n, ast.Name) and n.id == x and isinstance(n.ctx, ast.Load))
            return stores == 1 and loads == here
        for s_ in stmts:
            if isinstance(s_, (ast.For, ast.While, ast.With)) and s_.body:
                # (a loop / with body is a statement list of its own: a record bound in it lives one round)
                s_.body = self._project_helper_objects(s_.body, module, whole)
            if isinstance(s_, ast.If):
                for fld in ("body", "orelse"):
                    bb = getattr(s_, fld)
                    if not bb:
                        continue
                    if norm._leaves_function(bb) or (len(bb) == 1 and isinstance(bb[0], ast.If)) or all(
                            local_to(bb, x_.targets[0].id, i_) for i_, x_ in enumerate(bb) if isinstance(x_, ast.Assign) and len(x_.targets) == 1
                            and isinstance(x_.targets[0], ast.Name) and isinstance(x_.value, ast.Call) and isinstance(x_.value.func, ast.Name)
                            and x_.value.func.id in module.classes and x_.value.func.id.startswith("_")):
                        setattr(s_, fld, self._project_helper_objects(bb, module, whole))
        return stmts

    def _inline_class_constants(self, stmts, cls):
        """self.NAME / cls.NAME / Class.NAME with NAME a private class-level literal (constant, table of names / constants) that the tables
        do not know and nothing assigns outside the class body: its reads are replaced by the literal"""
        if cls is None:
            return stmts
        known = known_defs()
        consts = {}
        for k_ in cls.mro:
            # (annotated class-level literals too, unless the class is a dataclass, where they are instance fields)
            level = dict(k_.class_assigns)
            if not k_.is_dataclass:
                level.update({f.name: f.node.value for f in k_.fields if f.node.value is not None})
            else:
                level.update({f.name: f.node.value for f in k_.fields if f.node.value is not None and f.classvar})      # ClassVar: not a field
            for name, v in level.items():
                if name in consts or not (name.startswith("_") and not name.startswith("__")) or any(f"{b_.name}.{name}" in known for b_ in cls.mro) \
                        or any(f"cconst:{b_.name}.{name}" in known for b_ in cls.mro):
                    continue
                if isinstance(v, ast.Constant) and isinstance(v.value, (int, str, bytes)) and not isinstance(v.value, bool):
                    consts[name] = v
                elif isinstance(v, (ast.Tuple, ast.List)) and 1 <= len(v.elts) <= 8 and all(_table_entry(e) for e in v.elts):
                    consts[name] = v
                elif isinstance(v, ast.Dict) and 1 <= len(v.keys) <= 12 and all(k is not None and (isinstance(k, ast.Constant) or norm._attr_chain(k) is not None) for k in v.keys) \
                        and all(_table_entry(e) for e in v.values):
                    consts[name] = v
        if not consts:
            return stmts
        # never stored as an attribute anywhere in the program
        stored = {n.attr for m_ in self.prog.modules.values() for n in ast.walk(m_.tree) if isinstance(n, ast.Attribute) and isinstance(n.ctx, (ast.Store, ast.Del))}
        consts = {k: v for k, v in consts.items() if k not in stored}
        names = {"self", "cls"} | {k_.name for k_ in cls.mro}

        class C(ast.NodeTransformer):
            def visit_Attribute(self, node):
                if isinstance(node.ctx, ast.Load) and node.attr in consts and isinstance(node.value, ast.Name) and node.value.id in names:
                    return ast.copy_location(copy.deepcopy(consts[node.attr]), node)
                return self.generic_visit(node)
        return [ast.fix_missing_locations(C().visit(s_)) for s_ in stmts] if consts else stmts

    def _inline_unknown_constants(self, stmts, module, fn):
        """a private module-level literal the rule tables do not know (`_FLAG_ZSTD = 0b1`, added after they were written) is seen
        through like an unknown helper: its reads are replaced by the literal"""
        known = known_defs()
        consts = {}
        for name, v in module.assigns.items():
            if not (name.startswith("_") and not name.startswith("__") and f"const:{name}" not in known):
                continue
            if isinstance(v, ast.Constant) and isinstance(v.value, (int, str, bytes)) and not isinstance(v.value, bool):
                consts[name] = v
            elif isinstance(v, (ast.Tuple, ast.List)) and 1 <= len(v.elts) <= 8 and all(_table_entry(e) for e in v.elts):
                consts[name] = v            # a dispatch table: rows of names / constants / lambdas
            elif isinstance(v, ast.Dict) and 1 <= len(v.keys) <= 12 and all(k is not None and (isinstance(k, ast.Constant) or norm._attr_chain(k) is not None) for k in v.keys) \
                    and all(_table_entry(e) for e in v.values):
                consts[name] = v            # .. keyed by constants / enum members
            elif isinstance(v, ast.Call) and u(v.func) in ("struct.Struct", "Struct") and len(v.args) == 1 and isinstance(v.args[0], ast.Constant) and not v.keywords:
                consts[name] = v            # a compiled struct layout: as good as its format string
            elif isinstance(v, ast.Call) and u(v.func).split(".")[-1] in ("attrgetter", "itemgetter", "methodcaller") and v.args and not v.keywords \
                    and all(isinstance(a_, ast.Constant) for a_ in v.args):
                consts[name] = v            # a named accessor: as good as the attribute / item / method it names
            elif isinstance(v, ast.Call) and u(v.func).split(".")[-1] == "partial" and v.args and not any(isinstance(a_, ast.Starred) for a_ in v.args) \
                    and all(k_.arg is not None for k_ in v.keywords) and all(isinstance(a_, ast.Constant) or (
                        norm._attr_chain(a_) is not None and norm._attr_chain(a_)[0] in module.imports) for a_ in list(v.args) + [k_.value for k_ in v.keywords]):
                consts[name] = v            # a library function with some arguments filled in by constants
            else:
                k_ = _const_int(v, module)
                if k_ is not None:
                    # integer arithmetic over literals and lengths of literal constants (a negative one as the parser writes it: -N)
                    consts[name] = ast.copy_location(ast.Constant(k_) if k_ >= 0 else ast.UnaryOp(op=ast.USub(), operand=ast.Constant(-k_)), v)
        # members of a private IntFlag / IntEnum class the tables do not know: the integers they are
        members = {}
        for cname, c in module.classes.items():
            if cname.startswith("_") and f"class:{cname}" not in known and any(u(b_).split(".")[-1] in ("IntFlag", "IntEnum") for b_ in c.node.bases):
                for k_, v_ in c.class_assigns.items():
                    if isinstance(v_, ast.Constant) and type(v_.value) is int:
                        members[(cname, k_)] = v_
        # .value of a member of any private enumeration the tables do not know: the literal it was given
        values = {}
        for cname, c in module.classes.items():
            if cname.startswith("_") and f"class:{cname}" not in known and any(u(b_).split(".")[-1] in ("Enum", "IntEnum", "StrEnum", "Flag", "IntFlag") for b_ in c.node.bases):
                for k_, v_ in c.class_assigns.items():
                    if isinstance(v_, ast.Constant) and isinstance(v_.value, (int, str)) and not isinstance(v_.value, bool):
                        values[(cname, k_)] = v_
        if members or values:
            class M(ast.NodeTransformer):
                def visit_Attribute(self, node):
                    if isinstance(node.value, ast.Name) and (node.value.id, node.attr) in members and isinstance(node.ctx, ast.Load):
                        return ast.copy_location(copy.deepcopy(members[(node.value.id, node.attr)]), node)
                    if node.attr == "value" and isinstance(node.value, ast.Attribute) and isinstance(node.value.value, ast.Name) \
                            and (node.value.value.id, node.value.attr) in values and isinstance(node.ctx, ast.Load):
                        return ast.copy_location(copy.deepcopy(values[(node.value.value.id, node.value.attr)]), node)
                    return self.generic_visit(node)
            stmts = [M().visit(s_) for s_ in stmts]
        if not consts:
            return stmts
        local = norm._assigned_names(stmts) | {a.arg for a in fn.args.posonlyargs + fn.args.args + fn.args.kwonlyargs}
        consts = {k: v for k, v in consts.items() if k not in local}
        return [norm._Subst(dict(consts)).visit(s_) for s_ in stmts] if consts else stmts

    def _fold_constant_lengths(self, stmts, module, fn):
        """len(NAME) with NAME a module-level bytes / str literal (or a display without unpacking) that the function does not rebind"""
        if not any(isinstance(n, ast.Call) and isinstance(n.func, ast.Name) and n.func.id == "len" for s_ in stmts for n in ast.walk(s_)):
            return stmts
        local = norm._assigned_names(stmts) | {a.arg for a in fn.args.posonlyargs + fn.args.args + fn.args.kwonlyargs}
        stores = {}
        for n in ast.walk(module.tree):
            if isinstance(n, ast.Name) and isinstance(n.ctx, (ast.Store, ast.Del)):
                stores[n.id] = stores.get(n.id, 0) + 1
            elif isinstance(n, ast.Global):
                for g in n.names:
                    stores[g] = stores.get(g, 0) + 2

        class L(ast.NodeTransformer):
            def visit_Call(self, node):
                self.generic_visit(node)
                if isinstance(node.func, ast.Name) and node.func.id == "len" and len(node.args) == 1 and not node.keywords and isinstance(node.args[0], ast.Name):
                    nm = node.args[0].id
                    v = module.assigns.get(nm)
                    if nm not in local and stores.get(nm, 0) == 1 and v is not None:
                        if isinstance(v, ast.Constant) and isinstance(v.value, (bytes, str)):
                            return ast.copy_location(ast.Constant(len(v.value)), node)
                        if isinstance(v, (ast.Tuple, ast.List)) and not any(isinstance(e, ast.Starred) for e in v.elts) and isinstance(v, ast.Tuple):
                            return ast.copy_location(ast.Constant(len(v.elts)), node)
                return node
        return [L().visit(s_) for s_ in stmts]

    def _final_attrs(self) -> set[str]:
        """attribute names stored (anywhere in the program) only inside __init__ / __post_init__ / __new__: a method call on
        an object cannot rebind them, it can only change what the attribute's value contains"""
        ctor, other = set(), set()

        def scan(node, in_ctor, fresh=frozenset()):
            for ch in ast.iter_child_nodes(node):
                if isinstance(ch, (ast.FunctionDef, ast.AsyncFunctionDef)):
                    # an alternative constructor fills in an object it has just made with X.__new__(X): those stores build, they do not rebind
                    made = frozenset(n.targets[0].id for n in ast.walk(ch) if isinstance(n, ast.Assign) and len(n.targets) == 1 and isinstance(n.targets[0], ast.Name)
                                     and isinstance(n.value, ast.Call) and isinstance(n.value.func, ast.Attribute) and n.value.func.attr == "__new__")
                    made = frozenset(x for x in made if sum(1 for n in ast.walk(ch) if isinstance(n, ast.Name) and n.id == x and isinstance(n.ctx, ast.Store)) == 1)
                    scan(ch, ch.name in ("__init__", "__post_init__", "__new__"), made)
                    continue
                if isinstance(ch, ast.Attribute) and isinstance(ch.ctx, (ast.Store, ast.Del)):
                    built = in_ctor or (isinstance(ch.value, ast.Name) and ch.value.id in fresh and isinstance(ch.ctx, ast.Store))
                    (ctor if built else other).add(ch.attr)
                if isinstance(ch, ast.Call) and u(ch.func) in ("setattr", "object.__setattr__", "delattr"):
                    a = ch.args[1] if len(ch.args) > 1 else None
                    other.add(a.value if isinstance(a, ast.Constant) and isinstance(a.value, str) else "*")
                scan(ch, in_ctor, fresh)
        for m in self.prog.modules.values():
            scan(m.tree, False)
        return set() if "*" in other else ctor - other

    def _final_for_class(self, cls, attr: str) -> bool:
        """is `self.<attr>` of an instance of cls bound by constructors only?  Every store to an attribute of that name in the program is
        `self.<attr> = ..` inside a method of some class; none of the classes that store it outside a constructor is related to cls."""
        if cls is None:
            return False
        if not hasattr(self, "_attr_store_sites"):
            sites: dict[str, list] = {}
            for m_ in self.prog.modules.values():
                owner = {}
                for c_ in m_.classes.values():
                    for f_ in c_.methods.values():
                        for n in ast.walk(f_):
                            owner[id(n)] = (c_, f_)
                for n in ast.walk(m_.tree):
                    if isinstance(n, ast.Attribute) and isinstance(n.ctx, (ast.Store, ast.Del)):
                        cf = owner.get(id(n))
                        is_self = cf is not None and isinstance(n.value, ast.Name) and cf[1].args.args and n.value.id == cf[1].args.args[0].arg
                        # (an alternative constructor fills in the object it has just made with X.__new__(X))
                        made = cf is not None and isinstance(n.value, ast.Name) and any(
                            isinstance(k, ast.Assign) and len(k.targets) == 1 and isinstance(k.targets[0], ast.Name) and k.targets[0].id == n.value.id
                            and isinstance(k.value, ast.Call) and isinstance(k.value.func, ast.Attribute) and k.value.func.attr == "__new__" for k in ast.walk(cf[1]))
                        if made:
                            sites.setdefault(n.attr, []).append((cf[0], "__new__"))
                            continue
                        sites.setdefault(n.attr, []).append((cf[0] if is_self else None, cf[1].name if cf else None))
                    if isinstance(n, ast.Call) and u(n.func) in ("setattr", "object.__setattr__", "delattr"):
                        sites.setdefault("*", []).append((None, None))
            self._attr_store_sites = sites
        sites = self._attr_store_sites
        if "*" in sites:
            return False
        for k_, fname in sites.get(attr, []):
            if k_ is None:
                return False
            if fname in ("__init__", "__post_init__", "__new__"):
                continue
            if k_ in cls.mro or cls in k_.mro:
                return False
        return True

    def explicit_base_init(self, stmts, module, cls):
        """Base.__init__(self, a, f=b) with Base a dataclass of the receiver's MRO whose constructor is the generated one:
        the field assignments it performs (self.f = value, in field order; defaults for the fields not passed)"""
        if cls is None:
            return stmts
        out = []
        for s_ in stmts:
            new = None
            c_ = s_.value if isinstance(s_, ast.Expr) and isinstance(s_.value, ast.Call) else None
            if c_ is not None and isinstance(c_.func, ast.Attribute) and c_.func.attr == "__init__" and isinstance(c_.func.value, (ast.Name, ast.Attribute)) \
                    and c_.args and isinstance(c_.args[0], ast.Name) and c_.args[0].id == "self" \
                    and not any(isinstance(a, ast.Starred) for a in c_.args) and not any(k.arg is None for k in c_.keywords):
                base = module.resolve(c_.func.value)
                if isinstance(base, Class) and base in cls.mro and base.is_dataclass and base.find_method("__init__")[1] is None \
                        and base.find_method("__post_init__")[1] is None:
                    fs = [f for f in base.all_fields() if f.init]
                    names = [f.name for f in fs]
                    vals = dict(zip(names, c_.args[1:]))
                    ok = len(c_.args) - 1 <= len(names)
                    for k in c_.keywords:
                        if k.arg in names and k.arg not in vals:
                            vals[k.arg] = k.value
                        else:
                            ok = False
                    assigns = []
                    for f in fs:
                        v = vals.get(f.name)
                        if v is None and f.default is not None:
                            v = copy.deepcopy(f.default)
                        elif v is None and f.default_factory is not None:
                            v = ast.Call(func=copy.deepcopy(f.default_factory), args=[], keywords=[])
                        elif v is None:
                            ok = False
                            break
                        assigns.append(ast.copy_location(ast.Assign(targets=[ast.Attribute(value=ast.Name(id="self", ctx=ast.Load()), attr=f.name, ctx=ast.Store())], value=v), s_))
                    # (arguments are evaluated before any assignment: only pure arguments keep the order irrelevant)
                    if ok and all(norm.is_pure(a, _PURE_EXT) for a in vals.values()):
                        new = [ast.fix_missing_locations(a) for a in assigns]
            if new is None:
                _recurse_blocks(s_, lambda b_: self.explicit_base_init(b_, module, cls))
                out.append(s_)
            else:
                out += new
        return out

    def thread_sentinels(self, stmts, module):
        """try: x = E  except Exc: x = S      followed by      if x is S: A else: B
        with S a private module-level sentinel `S = object()` (only this module can name it, E does not): which branch of the `if`
        runs is decided by how the try ended, so  try: x = E  except Exc: A  else: B.   Same for `if c: x = E else: x = S`."""
        sentinels = {n for n, v in module.assigns.items() if n.startswith("_") and isinstance(v, ast.Call) and u(v.func) == "object" and not v.args and not v.keywords}
        if not sentinels and not any(isinstance(n, ast.Try) for s_ in stmts for n in ast.walk(s_)):
            return stmts

        def some(e):
            # certainly not None: a display, a number, .. or what a class (spelled with a capital) constructs
            if norm._never_none(e, {}):
                return True
            if isinstance(e, ast.Call):
                f_ = e.func
                nm_ = f_.id if isinstance(f_, ast.Name) else (f_.attr if isinstance(f_, ast.Attribute) else "")
                return nm_.lstrip("_")[:1].isupper()
            return False

        def last_assign(block):
            """(name, value) assigned by the last statement of a block that falls through"""
            if not block:
                return None
            st = block[-1]
            if isinstance(st, ast.Assign) and len(st.targets) == 1 and isinstance(st.targets[0], ast.Name):
                return st.targets[0].id, st.value
            return None

        def mentions(e, names):
            return any(isinstance(n, ast.Name) and n.id in names for n in ast.walk(e))

        def block(b):
            b = list(b)
            for s_ in b:
                _recurse_blocks(s_, block)
                if isinstance(s_, ast.Try):
                    for h in s_.handlers:
                        h.body = block(h.body)
            out = []
            i = 0
            while i < len(b):
                s1 = b[i]
                s2 = b[i + 1] if i + 1 < len(b) else None
                done = False
                if isinstance(s2, ast.If) and isinstance(s2.test, ast.Compare) and len(s2.test.ops) == 1 and isinstance(s2.test.ops[0], (ast.Is, ast.IsNot)) \
                        and isinstance(s2.test.left, ast.Name) and (
                            (isinstance(s2.test.comparators[0], ast.Name) and s2.test.comparators[0].id in sentinels)
                            or (isinstance(s1, ast.Try) and isinstance(s2.test.comparators[0], ast.Constant) and s2.test.comparators[0].value is None)):
                    # (None is a sentinel when what the other arm files certainly is not None; if / else on None: norm.thread_none_flags)
                    x = s2.test.left.id
                    S = s2.test.comparators[0].id if isinstance(s2.test.comparators[0], ast.Name) else None
                    is_s, not_s = (s2.body, s2.orelse) if isinstance(s2.test.ops[0], ast.Is) else (s2.orelse, s2.body)
                    arms = None
                    if isinstance(s1, ast.Try) and not s1.finalbody and s1.handlers:
                        arms = [s1.orelse or s1.body] + [h.body for h in s1.handlers]
                    elif isinstance(s1, ast.If) and s1.orelse:
                        arms = [s1.body, s1.orelse]
                    if arms is not None:
                        kinds = []
                        for a in arms:
                            if _terminates(a):
                                kinds.append("end")
                                continue
                            la = last_assign(a)
                            if la is None or la[0] != x:
                                kinds = None
                                break
                            if S is None:
                                if isinstance(la[1], ast.Constant) and la[1].value is None:
                                    kinds.append("S")
                                elif some(la[1]):
                                    kinds.append("V")
                                else:
                                    kinds = None
                                    break
                            elif isinstance(la[1], ast.Name) and la[1].id == S:
                                kinds.append("S")
                            elif not mentions(la[1], sentinels):
                                kinds.append("V")
                            else:
                                kinds = None
                                break
                        if kinds and "S" in kinds and "V" in kinds:
                            def cont(k):
                                c_ = copy.deepcopy(is_s if k == "S" else not_s) or []
                                if k == "S":
                                    # (the local is the sentinel there: reads of it name the sentinel, its assignment is dropped)
                                    if x not in norm._assigned_names(c_):
                                        c_ = [norm._Subst({x: ast.Name(id=S, ctx=ast.Load()) if S is not None else ast.Constant(None)}).visit(y) for y in c_]
                                return c_
                            if isinstance(s1, ast.Try):
                                if kinds[0] == "V" and all(k in ("S", "end") for k in kinds[1:]):
                                    for h, k in zip(s1.handlers, kinds[1:]):
                                        if k == "S":
                                            c_s = cont("S")
                                            later = not _terminates(c_s) and any(isinstance(n, ast.Name) and n.id == x for y in b[i + 2:] for n in ast.walk(y))
                                            h.body = (h.body if later else h.body[:-1]) + c_s
                                    s1.orelse = (s1.orelse + cont("V")) or [ast.copy_location(ast.Pass(), s1)]
                                    done = True
                            else:
                                s1.body = s1.body + (cont(kinds[0]) if kinds[0] != "end" else [])
                                s1.orelse = s1.orelse + (cont(kinds[1]) if kinds[1] != "end" else [])
                                done = True
                if done:
                    ast.fix_missing_locations(s1)
                    out.append(s1)
                    i += 2
                    continue
                out.append(s1)
                i += 1
            # try .. except: <terminates> else: REST   ==   try .. except: <terminates> ; REST     (canonical: after the try)
            flat = []
            for s_ in out:
                if isinstance(s_, ast.Try) and s_.orelse and not s_.finalbody and s_.handlers and all(_terminates(h.body) for h in s_.handlers):
                    rest, s_.orelse = s_.orelse, []
                    flat.append(s_)
                    flat += [x_ for x_ in rest if not isinstance(x_, ast.Pass)]
                else:
                    flat.append(s_)
            return flat
        return block(stmts)

    def inline_callable_aliases(self, stmts, module, fn):
        """x = M.f  (M an imported module)   /   x = r.m  (m a method of the program's classes, never stored as an instance attribute)
        bound once to a local that is only ever CALLED or passed on: a function of a module and a method of an object do not change,
        so the local is the attribute expression, wherever it is read (r not rebound in the function)."""
        cand = {}
        refs = {}
        stores = {}
        for s_ in stmts:
            for n in ast.walk(s_):
                if isinstance(n, ast.Name) and isinstance(n.ctx, (ast.Store, ast.Del)):
                    stores[n.id] = stores.get(n.id, 0) + 1
        params = {a.arg for a in fn.args.posonlyargs + fn.args.args + fn.args.kwonlyargs} | ({fn.args.vararg.arg} if fn.args.vararg else set()) | \
            ({fn.args.kwarg.arg} if fn.args.kwarg else set())
        if not hasattr(self, "_method_names"):
            names, stored = set(), set()
            for m_ in self.prog.modules.values():
                for c_ in m_.classes.values():
                    names |= set(c_.methods)
                for n in ast.walk(m_.tree):
                    if isinstance(n, ast.Attribute) and isinstance(n.ctx, (ast.Store, ast.Del)):
                        stored.add(n.attr)
            self._method_names = names - stored
        def root_ok(root, s_):
            if stores.get(root, 0) == 0:
                return True
            top_bind = [i_ for i_, t_ in enumerate(stmts) if isinstance(t_, (ast.Assign, ast.AnnAssign)) and any(
                isinstance(k_, ast.Name) and k_.id == root for k_ in (t_.targets if isinstance(t_, ast.Assign) else [t_.target]))]
            top_alias = [i_ for i_, t_ in enumerate(stmts) if t_ is s_]
            return stores.get(root, 0) == 1 and root not in params and len(top_bind) == 1 and len(top_alias) == 1 and top_bind[0] < top_alias[0]
        built = False
        for s_ in stmts:
            # x = partial(r.m, k=CONST) / attrgetter("a") / methodcaller("m", ..): a callable built from things that do not change
            if isinstance(s_, ast.Assign) and len(s_.targets) == 1 and isinstance(s_.targets[0], ast.Name) and isinstance(s_.value, ast.Call) \
                    and u(s_.value.func).split(".")[-1] in ("partial", "attrgetter", "itemgetter", "methodcaller") \
                    and not any(isinstance(a_, ast.Starred) for a_ in s_.value.args) and all(k_.arg is not None for k_ in s_.value.keywords):
                x = s_.targets[0].id
                parts = list(s_.value.args) + [k_.value for k_ in s_.value.keywords]
                fine = stores.get(x, 0) == 1 and x not in params
                for a_ in parts:
                    ch_ = norm._attr_chain(a_)
                    if isinstance(a_, ast.Constant):
                        continue
                    if ch_ is None or not root_ok(ch_[0], s_):
                        fine = False
                    elif len(ch_) > 1 and not (ch_[0] in module.imports or ch_[0] in module.classes or ch_[-1] in self._method_names or ch_[-1].isupper() or ch_[-2][:1].isupper()):
                        fine = False        # (an attribute that may be reassigned between building the callable and calling it)
                if fine:
                    cand[x] = s_
                    built = True
        for s_ in ast.walk(ast.Module(body=list(stmts), type_ignores=[])):
            if isinstance(s_, ast.Assign) and len(s_.targets) == 1 and isinstance(s_.targets[0], ast.Name) and isinstance(s_.value, ast.Attribute):
                x = s_.targets[0].id
                ch = norm._attr_chain(s_.value)
                if ch is None or stores.get(x, 0) != 1 or x in params:
                    continue
                root = ch[0] if isinstance(ch, (list, tuple)) else u(s_.value).split(".")[0]
                if stores.get(root, 0) > 0:
                    # a local bound once, at the top level of the function, before the alias is taken there too
                    top_bind = [i_ for i_, t_ in enumerate(stmts) if isinstance(t_, (ast.Assign, ast.AnnAssign)) and any(
                        isinstance(k_, ast.Name) and k_.id == root for k_ in (t_.targets if isinstance(t_, ast.Assign) else [t_.target]))]
                    top_alias = [i_ for i_, t_ in enumerate(stmts) if t_ is s_]
                    if not (stores.get(root, 0) == 1 and root not in params and len(top_bind) == 1 and len(top_alias) == 1 and top_bind[0] < top_alias[0]):
                        continue
                is_mod = (root in module.imports or (root in module.assigns and root.isupper())) and root not in params        # (a module, or a module-level CONSTANT object)
                is_meth = s_.value.attr in self._method_names and not s_.value.attr.startswith("__")
                if is_mod or is_meth:
                    cand[x] = s_
                elif len(ch) == 2 and fn.name not in ("__init__", "__post_init__", "__new__"):
                    # x = r.a  with `a` bound only by constructors anywhere in the program: no call can rebind it, x IS r.a
                    if not hasattr(self, "_final_attr_names"):
                        self._final_attr_names = self._final_attrs()
                    if s_.value.attr in self._final_attr_names or (root == "self" and self._final_for_class(getattr(self, "_cur_cls", None), s_.value.attr)):
                        refs[x] = s_
        if not cand and not refs:
            return stmts
        # the alias is only called or handed on (never compared, stored into a structure that outlives .., rebound)
        ok = dict(cand)
        mod_ = ast.Module(body=list(stmts), type_ignores=[])
        par = {}
        for n in ast.walk(mod_):
            for ch_ in ast.iter_child_nodes(n):
                par[id(ch_)] = n
        for n in ast.walk(mod_):
            if isinstance(n, ast.Name) and isinstance(n.ctx, ast.Load) and n.id in ok:
                p_ = par.get(id(n))
                if not (isinstance(p_, ast.Call) and (p_.func is n or n in p_.args)) and not isinstance(p_, ast.keyword):
                    ok.pop(n.id, None)
        # (read before its binding in a loop / closure: leave alone when a nested function reads it)
        for n in ast.walk(mod_):
            if isinstance(n, (ast.FunctionDef, ast.AsyncFunctionDef, ast.Lambda)):
                for k in ast.walk(n):
                    if isinstance(k, ast.Name) and k.id in ok and isinstance(k.ctx, ast.Load):
                        ok.pop(k.id, None)       # (read by a closure, which is looked up in the source as written)
        # (object aliases may be read in any position; not when a closure reads them)
        for n in ast.walk(mod_):
            if isinstance(n, (ast.FunctionDef, ast.AsyncFunctionDef, ast.Lambda)):
                for k in ast.walk(n):
                    if isinstance(k, ast.Name) and k.id in refs and isinstance(k.ctx, ast.Load):
                        refs.pop(k.id, None)
        ok.update(refs)
        if not ok:
            return stmts
        sub = {x: a.value for x, a in ok.items()}
        drop = {id(a) for a in ok.values()}

        class R(ast.NodeTransformer):
            def visit_Assign(self, node):
                if id(node) in drop:
                    return None
                return self.generic_visit(node)

            def visit_Name(self, node):
                if isinstance(node.ctx, ast.Load) and node.id in sub:
                    return ast.copy_location(copy.deepcopy(sub[node.id]), node)
                return node
        out = []
        for s_ in stmts:
            r_ = R().visit(s_)
            if r_ is not None:
                out.append(ast.fix_missing_locations(r_))
        if built:
            out = [ast.fix_missing_locations(_ExprNorm().visit(s_)) for s_ in out]
        for s_ in out:
            for fld in ("body", "orelse", "finalbody"):
                for n in ast.walk(s_):
                    bb = getattr(n, fld, None)
                    if isinstance(bb, list) and not bb and fld == "body" and isinstance(n, (ast.If, ast.For, ast.While, ast.With, ast.Try)):
                        n.body = [ast.Pass()]
        return out

    def records_out_of_try(self, stmts, module):
        """try: ..; x = _Rec(E)  except Exc: <leaves>          try: ..; x__1 = E  except Exc: <leaves>
                                                        ->     x = _Rec(x__1)
        filing values in a private record (dataclass / NamedTuple without code of its own) cannot fail: only computing them is what
        the try protects"""
        known = known_defs()

        def plain_record(e):
            if not (isinstance(e, ast.Call) and isinstance(e.func, ast.Name) and e.func.id.startswith("_") and f"class:{e.func.id}" not in known):
                return False
            c = module.classes.get(e.func.id)
            if c is None or any(n_ in c.methods for n_ in ("__init__", "__post_init__", "__new__", "__setattr__")):
                return False
            if any(isinstance(a, ast.Starred) for a in e.args) or any(k.arg is None for k in e.keywords):
                return False
            is_nt = any(u(b_).split(".")[-1] == "NamedTuple" for b_ in c.node.bases)
            if not (is_nt or (c.is_dataclass and all(k_.is_dataclass or k_.name == "object" for k_ in c.mro[1:] if isinstance(k_, Class)))):
                return False
            # (the call fits the fields: no TypeError either)
            params = [f.name for f in (c.fields if is_nt else c.all_fields()) if (is_nt or f.init) and not f.classvar]
            given = params[:len(e.args)] + [k.arg for k in e.keywords]
            return len(e.args) <= len(params) and len(set(given)) == len(given) and set(given) <= set(params) and \
                all(f.name in given or f.has_default for f in (c.fields if is_nt else c.all_fields()) if f.name in params)

        cnt = [0]

        def block(b):
            out = []
            for s_ in b:
                _recurse_blocks(s_, block)
                if isinstance(s_, ast.Try):
                    for h in s_.handlers:
                        h.body = block(h.body)
                out.append(s_)
                if isinstance(s_, ast.Try) and s_.body and not s_.orelse and not s_.finalbody and s_.handlers and all(_terminates(h.body) for h in s_.handlers):
                    st = s_.body[-1]
                    if isinstance(st, ast.Assign) and len(st.targets) == 1 and isinstance(st.targets[0], ast.Name) and plain_record(st.value):
                        call = copy.deepcopy(st.value)
                        pre = []
                        slots = [(call.args, i_) for i_ in range(len(call.args))] + [(k, None) for k in call.keywords]
                        for holder, i_ in slots:
                            v = holder[i_] if i_ is not None else holder.value
                            if isinstance(v, (ast.Name, ast.Constant)):
                                continue
                            cnt[0] += 1
                            nm = f"{st.targets[0].id}__t{cnt[0]}"
                            pre.append(ast.copy_location(ast.Assign(targets=[ast.Name(id=nm, ctx=ast.Store())], value=v), st))
                            if i_ is not None:
                                holder[i_] = ast.Name(id=nm, ctx=ast.Load())
                            else:
                                holder.value = ast.Name(id=nm, ctx=ast.Load())
                        if pre:
                            s_.body = s_.body[:-1] + pre
                            out.append(ast.copy_location(ast.Assign(targets=[st.targets[0]], value=call), st))
            return out
        if not any(isinstance(n, ast.Try) for s_ in stmts for n in ast.walk(s_)):
            return stmts
        return block(stmts)

    def keys_to_items(self, stmts, module, cls):
        """{k: f(M[k]) for k in M}  ->  {k: f(v) for k, v in M.items()}    for a local M that certainly is a dict: bound once, to a dict display /
        comprehension / dict(..) or to a call of a function of the program annotated `-> dict[..]`; M is not written in between"""
        defs = {}
        for s_ in stmts:
            for n in ast.walk(s_):
                if isinstance(n, ast.Name) and isinstance(n.ctx, (ast.Store, ast.Del)):
                    defs[n.id] = defs.get(n.id, 0) + 1
        dicts = {}
        for s_ in stmts:
            if isinstance(s_, ast.Assign) and len(s_.targets) == 1 and isinstance(s_.targets[0], ast.Name) and defs.get(s_.targets[0].id) == 1:
                v = s_.value
                is_dict = isinstance(v, (ast.Dict, ast.DictComp)) or (isinstance(v, ast.Call) and u(v.func) in ("dict", "vars"))
                if not is_dict and isinstance(v, ast.Call):
                    callee = None
                    if isinstance(v.func, ast.Attribute) and isinstance(v.func.value, ast.Name) and v.func.value.id == "self" and cls is not None:
                        callee = cls.find_method(v.func.attr)[1]
                    elif isinstance(v.func, ast.Name):
                        callee = module.functions.get(v.func.id)
                    if callee is not None and callee.returns is not None and u(callee.returns).split("[")[0].split(".")[-1] in ("dict", "Dict", "defaultdict", "OrderedDict"):
                        is_dict = True
                if is_dict:
                    dicts[s_.targets[0].id] = s_
        if not dicts:
            return stmts
        counter = [0]

        class K(ast.NodeTransformer):
            def _comp(self, node):
                self.generic_visit(node)
                g = node.generators[0]
                # (for k in sorted(M): keys are unique, so sorting the items sorts by key)
                srt = isinstance(g.iter, ast.Call) and isinstance(g.iter.func, ast.Name) and g.iter.func.id == "sorted" and len(g.iter.args) == 1 and not g.iter.keywords
                it_ = g.iter.args[0] if srt else g.iter
                if isinstance(g.target, ast.Name) and isinstance(it_, ast.Name) and it_.id in dicts and not g.is_async:
                    k, m_ = g.target.id, it_.id
                    parts = list(g.ifs) + [x for g2 in node.generators[1:] for x in [g2.iter, *g2.ifs]] + [getattr(node, f) for f in ("elt", "key", "value") if hasattr(node, f)]
                    hits = [n for e in parts for n in ast.walk(e) if isinstance(n, ast.Subscript) and isinstance(n.value, ast.Name) and n.value.id == m_
                            and isinstance(n.slice, ast.Name) and n.slice.id == k and isinstance(n.ctx, ast.Load)]
                    others = [n for e in parts for n in ast.walk(e) if isinstance(n, ast.Name) and n.id == m_]
                    if hits and len(others) == len(hits):
                        counter[0] += 1
                        v = f"kv{counter[0]}_"
                        ids = {id(h) for h in hits}

                        class S(ast.NodeTransformer):
                            def visit_Subscript(self, n):
                                if id(n) in ids:
                                    return ast.copy_location(ast.Name(id=v, ctx=ast.Load()), n)
                                return self.generic_visit(n)
                        for f in ("elt", "key", "value"):
                            if hasattr(node, f):
                                setattr(node, f, S().visit(getattr(node, f)))
                        g.ifs = [S().visit(x) for x in g.ifs]
                        for g2 in node.generators[1:]:
                            g2.iter = S().visit(g2.iter)
                            g2.ifs = [S().visit(x) for x in g2.ifs]
                        g.target = ast.Tuple(elts=[ast.Name(id=k, ctx=ast.Store()), ast.Name(id=v, ctx=ast.Store())], ctx=ast.Store())
                        g.iter = ast.Call(func=ast.Attribute(value=ast.Name(id=m_, ctx=ast.Load()), attr="items", ctx=ast.Load()), args=[], keywords=[])
                        if srt:
                            g.iter = ast.Call(func=ast.Name(id="sorted", ctx=ast.Load()), args=[g.iter], keywords=[])
                return node
            visit_ListComp = visit_SetComp = visit_DictComp = visit_GeneratorExp = _comp
        return [ast.fix_missing_locations(K().visit(s_)) for s_ in stmts]

    def match_object_indexing(self, stmts):
        """m[k] on a local bound (once) to the result of .match / .fullmatch / .search is m.group(k), i.e. m.groups()[k - 1] for k >= 1"""
        defs, cnt = {}, {}
        for s_ in stmts:
            for n in ast.walk(s_):
                if isinstance(n, ast.Name) and isinstance(n.ctx, (ast.Store, ast.Del)):
                    cnt[n.id] = cnt.get(n.id, 0) + 1
                if isinstance(n, (ast.Assign, ast.NamedExpr)):
                    tg = n.targets[0] if isinstance(n, ast.Assign) and len(n.targets) == 1 else (n.target if isinstance(n, ast.NamedExpr) else None)
                    if isinstance(tg, ast.Name) and isinstance(n.value, ast.Call) and (
                            (isinstance(n.value.func, ast.Attribute) and n.value.func.attr in ("match", "fullmatch", "search"))):
                        defs[tg.id] = n.value
        ms = {k for k in defs if cnt.get(k) == 1}
        if not ms:
            return stmts

        class G(ast.NodeTransformer):
            def visit_Subscript(self, node):
                self.generic_visit(node)
                if isinstance(node.value, ast.Name) and node.value.id in ms and isinstance(node.ctx, ast.Load) and isinstance(node.slice, ast.Constant) \
                        and type(node.slice.value) is int and node.slice.value >= 1:
                    return ast.copy_location(ast.Subscript(value=ast.Call(func=ast.Attribute(value=node.value, attr="groups", ctx=ast.Load()), args=[], keywords=[]),
                                                           slice=ast.Constant(node.slice.value - 1), ctx=ast.Load()), node)
                return node
        return [ast.fix_missing_locations(G().visit(s_)) for s_ in stmts]

    def mapping_mixins(self, stmts, module, cls):
        """inside a class that derives from (Mutable)Mapping without defining `get`, whose __getitem__ is `return self.A[key]`:
        self.get(k[, d]) is the mixin `try: return self[k] except KeyError: return d`, i.e. self.A.get(k[, d])"""
        if cls is None or not any(u(b_).split("[")[0].split(".")[-1] in ("Mapping", "MutableMapping") for k_ in cls.mro for b_ in k_.node.bases):
            return stmts
        # iterating the views the mixin provides: values() is (self[k] for k in self), items() is ((k, self[k]) for k in self), keys() is self
        if cls.find_method("__iter__")[1] is not None and cls.find_method("__getitem__")[1] is not None:
            canon_ = self

            def view(it):
                if isinstance(it, ast.Call) and isinstance(it.func, ast.Attribute) and isinstance(it.func.value, ast.Name) and it.func.value.id == "self" \
                        and not it.args and not it.keywords and it.func.attr in ("values", "items", "keys") and cls.find_method(it.func.attr)[1] is None:
                    if it.func.attr == "keys":
                        return ast.copy_location(ast.Name(id="self", ctx=ast.Load()), it)
                    canon_._mm = getattr(canon_, "_mm", 0) + 1
                    k_ = ast.Name(id=f"mk{canon_._mm}_", ctx=ast.Load())
                    at = ast.Subscript(value=ast.Name(id="self", ctx=ast.Load()), slice=k_, ctx=ast.Load())
                    elt = at if it.func.attr == "values" else ast.Tuple(elts=[copy.deepcopy(k_), at], ctx=ast.Load())
                    return ast.fix_missing_locations(ast.copy_location(ast.GeneratorExp(elt=elt, generators=[ast.comprehension(
                        target=ast.Name(id=k_.id, ctx=ast.Store()), iter=ast.Name(id="self", ctx=ast.Load()), ifs=[], is_async=0)]), it))
                return it

            class V(ast.NodeTransformer):
                def visit_For(self, node):
                    self.generic_visit(node)
                    node.iter = view(node.iter)
                    return node

                def visit_comprehension(self, node):
                    self.generic_visit(node)
                    node.iter = view(node.iter)
                    return node
            stmts = [ast.fix_missing_locations(V().visit(s_)) for s_ in stmts]
        if cls.find_method("get")[1] is not None:
            return stmts
        _, gi = cls.find_method("__getitem__")
        if gi is None or gi.decorator_list or len(gi.args.args) != 2:
            return stmts
        gb = real_body(gi)
        sn, kn = gi.args.args[0].arg, gi.args.args[1].arg
        if not (len(gb) == 1 and isinstance(gb[0], ast.Return) and isinstance(gb[0].value, ast.Subscript) and isinstance(gb[0].value.slice, ast.Name)
                and gb[0].value.slice.id == kn and isinstance(gb[0].value.value, ast.Attribute) and isinstance(gb[0].value.value.value, ast.Name)
                and gb[0].value.value.value.id == sn):
            return stmts
        attr = gb[0].value.value.attr

        class G(ast.NodeTransformer):
            def visit_Call(self, node):
                self.generic_visit(node)
                f = node.func
                if isinstance(f, ast.Attribute) and f.attr == "get" and isinstance(f.value, ast.Name) and f.value.id == "self" and 1 <= len(node.args) <= 2 \
                        and not node.keywords and not any(isinstance(a, ast.Starred) for a in node.args):
                    args = list(node.args)
                    if len(args) == 2 and isinstance(args[1], ast.Constant) and args[1].value is None:
                        args = args[:1]
                    return ast.copy_location(ast.Call(func=ast.Attribute(value=ast.Attribute(value=ast.Name(id="self", ctx=ast.Load()), attr=attr, ctx=ast.Load()),
                                                                         attr="get", ctx=ast.Load()), args=args, keywords=[]), node)
                return node
        return [ast.fix_missing_locations(G().visit(s_)) for s_ in stmts]

    def sroa_value_records(self, stmts, module):
        """a local that only ever holds K(..) for one frozen (value) dataclass K of the program and is rebound inside a loop -- a cursor
        like `p = _SubPort(port); while ..: p = _SubPort(p.port, p.sub_offset + 1)` -- is its fields: locals x__f, with K(x__f..)
        written where the whole value is used (equal and hash-equal to it: K compares by fields)"""
        if not any(isinstance(n, (ast.While, ast.For)) for s_ in stmts for n in ast.walk(s_)):
            return stmts
        parents = {}
        for s_ in stmts:
            for n in ast.walk(s_):
                for ch in ast.iter_child_nodes(n):
                    parents[id(ch)] = n
        stores = {}
        for s_ in stmts:
            for n in ast.walk(s_):
                if isinstance(n, ast.Name) and isinstance(n.ctx, (ast.Store, ast.Del)):
                    stores.setdefault(n.id, []).append(n)
        in_loop = set()
        for s_ in stmts:
            for lp in ast.walk(s_):
                if isinstance(lp, (ast.While, ast.For)):
                    for b_ in lp.body:
                        for n in ast.walk(b_):
                            if isinstance(n, ast.Name) and isinstance(n.ctx, ast.Store):
                                in_loop.add(n.id)
        todo = {}
        for x, ss in stores.items():
            if x not in in_loop or len(ss) < 2:
                continue
            k_ = None
            ok = True
            for n in ss:
                a = parents.get(id(n))
                if not (isinstance(a, ast.Assign) and len(a.targets) == 1 and a.targets[0] is n and isinstance(a.value, ast.Call) and isinstance(a.value.func, ast.Name)):
                    ok = False
                    break
                c = module.resolve(a.value.func)
                if not (isinstance(c, Class) and c.is_dataclass and c.dataclass_kwargs.get("frozen") is True and c.dataclass_kwargs.get("eq", True) is True
                        and c.find_method("__init__")[1] is None and c.find_method("__post_init__")[1] is None and c.find_method("__eq__")[1] is None
                        and c.find_method("__hash__")[1] is None and (k_ is None or k_ is c)):
                    ok = False
                    break
                k_ = c
            if ok and k_ is not None:
                todo[x] = k_
        if not todo:
            return stmts

        def fields_of(c, call):
            if not (isinstance(call, ast.Call) and isinstance(call.func, ast.Name) and call.func.id == c.name):
                return None         # (a store the scan did not see as a constructor call: shared nodes)
            fs = [f for f in c.all_fields() if f.init]
            names = [f.name for f in fs]
            if any(isinstance(a, ast.Starred) for a in call.args) or any(k.arg is None for k in call.keywords) or len(call.args) > len(names):
                return None
            vals = dict(zip(names, call.args))
            for k in call.keywords:
                if k.arg not in names or k.arg in vals:
                    return None
                vals[k.arg] = k.value
            for f in fs:
                if f.name not in vals:
                    if isinstance(f.default, ast.Constant):
                        vals[f.name] = copy.deepcopy(f.default)
                    else:
                        return None
            return names, vals

        class W(ast.NodeTransformer):
            def visit_Assign(self, node):
                if len(node.targets) == 1 and isinstance(node.targets[0], ast.Name) and node.targets[0].id in todo:
                    x = node.targets[0].id
                    fv = fields_of(todo[x], node.value)
                    if fv is None:
                        raise NoCanon("value record constructor")
                    names, vals = fv
                    vals = {f: self.visit(v) for f, v in vals.items()}
                    # components that keep their value are left out
                    keep = [f for f in names if not (isinstance(vals[f], ast.Name) and vals[f].id == f"{x}__{f}")]
                    if not keep:
                        return ast.copy_location(ast.Pass(), node)
                    if len(keep) == 1:
                        return ast.copy_location(ast.Assign(targets=[ast.Name(id=f"{x}__{keep[0]}", ctx=ast.Store())], value=vals[keep[0]]), node)
                    return ast.copy_location(ast.Assign(targets=[ast.Tuple(elts=[ast.Name(id=f"{x}__{f}", ctx=ast.Store()) for f in keep], ctx=ast.Store())],
                                                        value=ast.Tuple(elts=[vals[f] for f in keep], ctx=ast.Load())), node)
                return self.generic_visit(node)

            def visit_Attribute(self, node):
                if isinstance(node.value, ast.Name) and node.value.id in todo and isinstance(node.ctx, ast.Load) \
                        and node.attr in [f.name for f in todo[node.value.id].all_fields() if f.init]:
                    return ast.copy_location(ast.Name(id=f"{node.value.id}__{node.attr}", ctx=ast.Load()), node)
                return self.generic_visit(node)

            def visit_Name(self, node):
                if node.id in todo and isinstance(node.ctx, ast.Load):
                    c = todo[node.id]
                    return ast.copy_location(ast.Call(func=ast.Name(id=c.name, ctx=ast.Load()),
                                                      args=[ast.Name(id=f"{node.id}__{f.name}", ctx=ast.Load()) for f in c.all_fields() if f.init], keywords=[]), node)
                return node
        try:
            new = [ast.fix_missing_locations(W().visit(copy.deepcopy(s_))) for s_ in stmts]
        except NoCanon:
            return stmts
        return [x for x in new if not isinstance(x, ast.Pass)] or new

    def expand_replace(self, stmts, module):
        """dataclasses.replace(K(a, b), f=v) is K(a, b) with field f given as v;  replace(x, f=v, g=w) on an object of the only dataclass
        that has fields f and g (no subclasses) is K(<the other fields read from x>, f=v, g=w) when x is then evaluated once"""
        if not any(isinstance(n, ast.Call) and u(n.func) in ("replace", "dataclasses.replace") for s_ in stmts for n in ast.walk(s_)):
            return stmts
        prog = self.prog
        dcs = [c for m_ in prog.modules.values() for c in m_.classes.values() if c.is_dataclass and c.find_method("__init__")[1] is None
               and c.find_method("__post_init__")[1] is None]

        def spelled(c):
            # the class as this module names it
            if c.name in module.classes and module.classes[c.name] is c:
                return ast.Name(id=c.name, ctx=ast.Load())
            for alias, dotted in module.imports.items():
                if dotted == c.qualname:
                    return ast.Name(id=alias, ctx=ast.Load())
            return None

        class R(ast.NodeTransformer):
            def visit_Call(self, node):
                self.generic_visit(node)
                if u(node.func) not in ("replace", "dataclasses.replace") or len(node.args) != 1 or any(k.arg is None for k in node.keywords) or not node.keywords:
                    return node
                x = node.args[0]
                over = {k.arg: k.value for k in node.keywords}
                if isinstance(x, ast.Call) and isinstance(x.func, (ast.Name, ast.Attribute)):
                    c = module.resolve(x.func)
                    if isinstance(c, Class) and c in dcs and not any(isinstance(a, ast.Starred) for a in x.args) and not any(k.arg is None for k in x.keywords):
                        names = [f.name for f in c.all_fields() if f.init]
                        if len(x.args) <= len(names) and set(over) <= set(names):
                            given = dict(zip(names, x.args))
                            given.update({k.arg: k.value for k in x.keywords})
                            if all(norm.is_pure(given[f_], _PURE_EXT) for f_ in over if f_ in given):
                                given.update(over)
                                return ast.copy_location(ast.Call(func=x.func, args=[], keywords=[ast.keyword(arg=f_, value=given[f_]) for f_ in names if f_ in given]), node)
                    return node
                cands = [c for c in dcs if set(over) <= {f.name for f in c.all_fields() if f.init}]
                if len(cands) == 1 and not prog.subclasses(cands[0]) and spelled(cands[0]) is not None:
                    c = cands[0]
                    names = [f.name for f in c.all_fields() if f.init]
                    rest = [f_ for f_ in names if f_ not in over]
                    if len(rest) <= 1 or norm.is_reference(x):
                        kws = [ast.keyword(arg=f_, value=over[f_] if f_ in over else ast.Attribute(value=copy.deepcopy(x), attr=f_, ctx=ast.Load())) for f_ in names]
                        # (the object is read before the new values are computed, as replace() does)
                        if rest and not norm.is_reference(x) and names.index(rest[0]) != 0 and not all(norm.is_pure(v, _PURE_EXT) for v in over.values()):
                            return node
                        return ast.copy_location(ast.Call(func=spelled(c), args=[], keywords=kws), node)
                return node
        return [ast.fix_missing_locations(R().visit(s_)) for s_ in stmts]

    def fold_enum_tests(self, stmts, module):
        """E.A == E.B between two members of one Enum class of the program (distinct literal values) is a constant; an `if` /
        conditional expression on a constant keeps the branch taken"""
        def member(e):
            if not (isinstance(e, ast.Attribute) and isinstance(e.value, (ast.Name, ast.Attribute))):
                return None
            c = module.resolve(e.value)
            if not isinstance(c, Class) or not any(u(b).split(".")[-1] in ("Enum", "IntEnum", "StrEnum", "Flag") for b in c.node.bases):
                return None
            vals = {k: v.value for k, v in c.class_assigns.items() if isinstance(v, ast.Constant)}
            autos = {k for k, v in c.class_assigns.items() if isinstance(v, ast.Call) and u(v.func).split(".")[-1] == "auto" and not v.args}
            if autos and not vals and e.attr in autos:
                return c.qualname, e.attr          # (auto() numbers every member differently)
            if e.attr not in vals or len(set(map(repr, vals.values()))) != len(vals) or autos:
                return None
            return c.qualname, e.attr
        self._enum_member_key = member

        class F(ast.NodeTransformer):
            def visit_Compare(self, node):
                self.generic_visit(node)
                if len(node.ops) == 1 and isinstance(node.ops[0], (ast.Eq, ast.NotEq, ast.Is, ast.IsNot)):
                    a, b = member(node.left), member(node.comparators[0])
                    if a is not None and b is not None and a[0] == b[0]:
                        return ast.copy_location(ast.Constant((a[1] == b[1]) == isinstance(node.ops[0], (ast.Eq, ast.Is))), node)
                return node

            def visit_IfExp(self, node):
                self.generic_visit(node)
                if isinstance(node.test, ast.Constant) and isinstance(node.test.value, bool):
                    return node.body if node.test.value else node.orelse
                return node

            def visit_FunctionDef(self, node):
                return node

        def block(b):
            out = []
            for s_ in b:
                if not isinstance(s_, (ast.FunctionDef, ast.AsyncFunctionDef, ast.ClassDef)):
                    s_ = F().visit(s_)
                    _recurse_blocks(s_, block)
                if isinstance(s_, ast.If) and isinstance(s_.test, ast.Constant) and isinstance(s_.test.value, bool):
                    out += [x for x in (s_.body if s_.test.value else s_.orelse)]
                    continue
                out.append(s_)
            return out
        if not any(isinstance(n, ast.Compare) for s_ in stmts for n in ast.walk(s_)):
            return stmts
        return block(stmts)

    # ---- class knowledge for match lowering
    def _match_args(self, module, fn=None):
        # names imported inside the function body (`from hugr.ext import ExplicitBound`)
        local_imports: dict[str, tuple[str, str]] = {}
        if fn is not None:
            for n in ast.walk(fn):
                if isinstance(n, ast.ImportFrom) and n.module and n.level == 0:
                    for a in n.names:
                        local_imports[a.asname or a.name] = (n.module, a.name)

        def alias_of_builtin(cls_expr):
            # PortOffset = int  (possibly imported): a class pattern on it matches the subject itself
            name = u(cls_expr).split(".")[-1]
            seen = 0
            mod = module
            while seen < 4:
                seen += 1
                if name in mod.assigns and isinstance(mod.assigns[name], ast.Name):
                    tgt = mod.assigns[name].id
                    if tgt in BUILTIN_SELF_MATCH:
                        return True
                    name = tgt
                    continue
                if name in mod.imports:
                    dotted = mod.imports[name]
                    mn, _, nm = dotted.rpartition(".")
                    if mn in self.prog.modules:
                        mod, name = self.prog.modules[mn], nm
                        continue
                return False
            return False

        def resolve(cls_expr):
            if alias_of_builtin(cls_expr):
                return "self"
            try:
                r = module.resolve(cls_expr)
            except Exception:
                r = None
            c = None
            if r is not None and hasattr(r, "init_params"):
                c = r
            if c is None and isinstance(cls_expr, ast.Name) and cls_expr.id in local_imports:
                mn, nm = local_imports[cls_expr.id]
                if mn in self.prog.modules:
                    c = self.prog.modules[mn].classes.get(nm)
            if c is None:
                name = u(cls_expr).split(".")[-1]
                cands = [k for m in self.prog.modules.values() for k in m.classes.values() if k.name == name]
                if len(cands) == 1:
                    c = cands[0]
            if c is None:
                return None
            for k in c.mro:
                for st in k.node.body:
                    if isinstance(st, ast.Assign) and u(st.targets[0]) == "__match_args__" and isinstance(st.value, (ast.Tuple, ast.List)):
                        return [e.value for e in st.value.elts if isinstance(e, ast.Constant)]
            try:
                return list(c.init_params())
            except Exception:
                return None
        return resolve

    @staticmethod
    def unknown_helper(cls, name: str) -> bool:
        """a private method the rule tables do not know (added after they were written): canonical bodies see through it at
        every call site, so rules about entry points need not (and must not) judge it on its own"""
        known = known_defs()
        return name.startswith("_") and not name.startswith("__") and not any(f"{b_.name}.{name}" in known for b_ in cls.mro)

    def _lookup(self, module, cls, fn, inline: set[str], keep: set[str], accessors: bool = False, supers: bool = False):
        known = known_defs()
        nested = {n.name: n for n in ast.walk(fn) if isinstance(n, ast.FunctionDef) and n is not fn}

        def prep(body):
            # (tables the helper loops over are written in and the loop unrolled: a `return` inside it is then an ordinary one)
            body = self._inline_class_constants(body, cls)
            body = [ast.fix_missing_locations(_ExprNorm().visit(copy.deepcopy(s_))) for s_ in body]      # (map(f, xs) in a helper: f is then seen)
            if any(isinstance(n, ast.For) and isinstance(n.iter, (ast.Tuple, ast.List)) for s_ in body for n in ast.walk(s_)):
                body = norm.unroll_literal_loops(body)
            body = lower_matches(body, self._match_args(module, fn))
            return norm.first_match_to_next(lift_walrus(lift_ifexp(body)))

        local_types = self._local_types(real_body(fn), module, cls, fn)

        def accessor(m) -> bool:
            """a method that only reads: one `return <pure expression>` (seen through like a private helper, whatever its name)"""
            b_ = real_body(m)
            return len(b_) == 1 and isinstance(b_[0], ast.Return) and b_[0].value is not None and norm.is_pure(b_[0].value, _PURE_EXT) \
                and not m.decorator_list and not m.args.vararg and not m.args.kwarg and not any(isinstance(n, (ast.Yield, ast.YieldFrom)) for n in ast.walk(m))

        local_imports = {}
        for n in ast.walk(fn):
            if isinstance(n, ast.ImportFrom) and n.level == 0 and n.module:
                for a_ in n.names:
                    local_imports[a_.asname or a_.name] = (n.module, a_.name)
        foreign_cache = {}

        def foreign(r, src_name):
            """a function of another module with its names respelled the way this module writes them"""
            src = self.prog.modules.get(src_name)
            if src is None or src is module:
                return r
            if id(r) not in foreign_cache:
                r2 = copy.deepcopy(r)
                r2.body = self._respell(r2.body, src, module)
                ast.fix_missing_locations(r2)
                self._keepalive.append(r2)
                foreign_cache[id(r)] = r2
            return foreign_cache[id(r)]

        def single_dispatcher(base):
            """@singledispatch def f(x, ..): DEFAULT  +  @f.register(T) def _(x, ..): IMPL   as one function:
            `if isinstance(x, T): IMPL else: DEFAULT` (at most two registered classes, unrelated or bool / int in that order)"""
            if [u(d_).split(".")[-1] for d_ in base.decorator_list] != ["singledispatch"] or not base.args.args or base.args.vararg or base.args.kwarg:
                return None
            key_ = ("sd", id(base))
            if key_ in foreign_cache:
                return foreign_cache[key_]
            regs = []
            for n_ in module.tree.body:
                if isinstance(n_, ast.FunctionDef) and len(n_.decorator_list) == 1:
                    d_ = n_.decorator_list[0]
                    if isinstance(d_, ast.Call) and u(d_.func) == f"{base.name}.register" and len(d_.args) == 1 and not d_.keywords:
                        regs.append((d_.args[0], n_))
                    elif u(d_) == f"{base.name}.register" and n_.args.args and n_.args.args[0].annotation is not None:
                        regs.append((n_.args.args[0].annotation, n_))
            if not 1 <= len(regs) <= 2 or any(len(r_.args.args) != len(base.args.args) or r_.args.vararg or r_.args.kwarg for _, r_ in regs):
                foreign_cache[key_] = None
                return None
            names_ = [u(t_) for t_, _ in regs]
            if len(regs) == 2 and not (set(names_) <= {"int", "bool", "str", "bytes", "float", "list", "tuple", "dict", "set"}):
                foreign_cache[key_] = None
                return None
            regs.sort(key=lambda tr: 0 if u(tr[0]) == "bool" else 1)        # bool is an int: asked first
            params = [a_.arg for a_ in base.args.args]
            tail = [copy.deepcopy(x) for x in real_body(base)] or [ast.Return(value=ast.Constant(None))]
            if not _terminates(tail):
                tail = tail + [ast.Return(value=ast.Constant(None))]
            for t_, r_ in reversed(regs):
                ren = {a_.arg: p_ for a_, p_ in zip(r_.args.args, params) if a_.arg != p_}
                body_ = [copy.deepcopy(x) for x in real_body(r_)] or [ast.Pass()]
                if ren:
                    if norm._assigned_names(body_) & set(ren.values()):
                        foreign_cache[key_] = None
                        return None
                    body_ = [norm._Rename(ren).visit(x) for x in body_]
                if not _terminates(body_):
                    body_ = body_ + [ast.Return(value=ast.Constant(None))]
                test = ast.Call(func=ast.Name(id="isinstance", ctx=ast.Load()), args=[ast.Name(id=params[0], ctx=ast.Load()), copy.deepcopy(t_)], keywords=[])
                tail = [ast.If(test=test, body=body_, orelse=tail)]
            new_ = ast.FunctionDef(name=base.name, args=copy.deepcopy(base.args), body=tail, decorator_list=[], returns=None, type_comment=None, type_params=[])
            ast.copy_location(new_, base)
            ast.fix_missing_locations(new_)
            self._keepalive.append(new_)
            foreign_cache[key_] = new_
            return new_

        def explicit_super(m_, k_):
            """m_ (defined in class k_) with its zero-argument super() calls written out as super(k_, <its receiver>): they ascend
            from ITS class along the receiver's MRO, wherever the body ends up after inlining"""
            if not any(isinstance(n, ast.Call) and u(n.func) == "super" and not n.args for n in ast.walk(m_)) or not m_.args.args:
                return m_
            m2 = copy.deepcopy(m_)
            sn = m2.args.args[0].arg
            for n in ast.walk(m2):
                if isinstance(n, ast.Call) and u(n.func) == "super" and not n.args:
                    n.args = [ast.Name(id=k_.name, ctx=ast.Load()), ast.Name(id=sn, ctx=ast.Load())]
            ast.fix_missing_locations(m2)
            self._keepalive.append(m2)
            return m2

        def lookup(call):
            f = call.func
            if isinstance(f, ast.Attribute) and isinstance(f.value, ast.Call) and u(f.value.func) == "super" \
                    and (not f.value.args or (len(f.value.args) == 2 and all(isinstance(a_, ast.Name) for a_ in f.value.args))):
                # super().m(..) inside a method defined in class D: the next definition of m after D along the receiver's MRO.
                # (inside an inlined body the defining class and the receiver are written out: super(D, r), see explicit_super)
                sa = f.value.args
                recv = sa[1].id if sa else "self"
                rk = cls if recv == "self" else local_types.get(recv)
                if sa:
                    pool = rk.mro if rk is not None else [c_ for m_ in self.prog.modules.values() for c_ in m_.classes.values()]
                    named = [k_ for k_ in pool if k_.name == sa[0].id]
                    owner = named[0] if len(named) == 1 else None
                else:
                    owner = next((k_ for k_ in cls.mro if fn in k_.methods.values()), None) if cls is not None else None
                if owner is None:
                    return None
                mro = rk.mro if rk is not None and owner in rk.mro else owner.mro        # (statically: the receiver is an instance of the class that spelled the call)
                name = f.attr
                unknown_private = name.startswith("_") and not name.startswith("__") and name not in keep and not any(f"{b_.name}.{name}" in known for b_ in mro)
                if not unknown_private and not (supers and recv == "self" and cls is not None):
                    return None
                for k_ in mro[mro.index(owner) + 1:]:
                    if name in k_.methods:
                        m_ = k_.methods[name]
                        if not any(u(d) in ("property", "staticmethod", "classmethod", "cached_property") for d in m_.decorator_list):
                            return explicit_super(m_, k_), True, prep
                        break
                return None
            def private_class(nm):
                """the private class (of this module, or imported from a sibling one) the name stands for"""
                if not nm.startswith("_") or f"class:{nm}" in known or nm in local_types:
                    return None
                if nm in module.classes:
                    return module.classes[nm]
                try:
                    r_ = module.resolve(ast.Name(id=nm, ctx=ast.Load()))
                except Exception:
                    return None
                from .model import Class as _Class
                return r_ if isinstance(r_, _Class) and r_.name == nm else None
            if isinstance(f, ast.Attribute) and isinstance(f.value, ast.Name) and f.attr not in keep and private_class(f.value.id) is not None:
                # _Helper.make(..): a class / static method of a private class the tables do not know (the receiver written as the class)
                k_ = private_class(f.value.id)
                kd, m = k_.find_method(f.attr)
                decos = [u(d) for d in m.decorator_list] if m is not None else []
                if decos == ["classmethod"]:
                    return m, True, prep
                if decos == ["staticmethod"]:
                    return m, False, prep
                if m is None or decos:
                    return None
            if isinstance(f, ast.Attribute) and isinstance(f.value, ast.Name) and f.value.id not in local_types and f.value.id not in ("self", "cls") \
                    and f.attr.startswith("_") and not f.attr.startswith("__") and f.attr not in keep and call.args \
                    and not isinstance(call.args[0], ast.Starred) and f.value.id.lstrip("_")[:1].isupper():
                # K._m(r, ..): the definition K sees, run for r (the receiver written as an argument); _m a private method the tables
                # do not know
                try:
                    k_ = module.resolve(f.value)
                except Exception:
                    k_ = None
                from .model import Class as _Class
                if isinstance(k_, _Class):
                    kd, m = k_.find_method(f.attr)
                    if m is not None and not m.decorator_list and not any(f"{b_.name}.{f.attr}" in known for b_ in k_.mro):
                        return explicit_super(m, kd), False, prep
                    return None
            if isinstance(f, ast.Attribute) and isinstance(f.value, ast.Subscript) and isinstance(f.value.value, ast.Name) and f.value.value.id == "self" \
                    and cls is not None and f.attr.startswith("_") and not f.attr.startswith("__") and f.attr not in keep and norm.is_pure(f.value.slice, _PURE_EXT):
                # self[k]._m(..): the element class is the one __getitem__ is annotated to return; _m a private method of it the tables
                # do not know
                _, gi_ = cls.find_method("__getitem__")
                try:
                    ek = module.resolve(gi_.returns) if gi_ is not None and gi_.returns is not None else None
                except Exception:
                    ek = None
                from .model import Class as _Class
                if isinstance(ek, _Class):
                    kd, m = ek.find_method(f.attr)
                    if m is not None and not m.decorator_list and not any(f"{b_.name}.{f.attr}" in known for b_ in ek.mro):
                        return explicit_super(m, kd), True, prep
                    return None
            if isinstance(f, ast.Attribute) and isinstance(f.value, ast.Attribute) and isinstance(f.value.value, ast.Name) and f.attr not in keep \
                    and private_class(f.value.value.id) is not None:
                # _Enum.MEMBER.m(..): a method of a private enumeration the tables do not know, run for that member
                k_ = private_class(f.value.value.id)
                if any(u(b_).split(".")[-1] in ("Enum", "IntEnum", "StrEnum", "Flag", "IntFlag") for b_ in k_.node.bases) and f.value.attr in k_.class_assigns:
                    kd, m = k_.find_method(f.attr)
                    if m is not None and not m.decorator_list:
                        return m, True, prep
                    return None
            in_classmethod = any(u(d_) == "classmethod" for d_ in fn.decorator_list) and fn.args.args and fn.args.args[0].arg == "cls"
            if isinstance(f, ast.Attribute) and isinstance(f.value, ast.Name) and (
                    (f.value.id == "self" and cls is not None) or f.value.id in local_types or (f.value.id == "cls" and cls is not None and in_classmethod)):
                k = cls if f.value.id in ("self", "cls") and f.value.id not in local_types else local_types[f.value.id]
                name = f.attr
                if name in keep:
                    return None
                kd, m = k.find_method(name)
                if m is None:
                    return None
                if not (name in inline or (name.startswith("_") and not name.startswith("__") and f"{k.name}.{name}" not in known
                                           and not any(f"{b_.name}.{name}" in known for b_ in k.mro))
                        or (accessors and f.value.id != "self" and not name.startswith("__") and accessor(m))):
                    return None
                if any(u(d) in ("property", "staticmethod", "classmethod", "cached_property") for d in m.decorator_list):
                    if any(u(d) == "staticmethod" for d in m.decorator_list):
                        return m, False, prep
                    if [u(d) for d in m.decorator_list] == ["classmethod"] and f.value.id == "cls" and in_classmethod:
                        return explicit_super(m, kd), True, prep      # a hook classmethod called on the class the classmethod runs for
                    return None
                if m.decorator_list:
                    # wrapped by something else: what the wrapper makes of it (a private decorator of the program), or not seen through
                    m_u = self.undecorated(m, kd.module, kd)
                    if m_u is m:
                        return None
                    m = m_u
                return explicit_super(m, kd), True, prep
            if isinstance(f, ast.Attribute) and norm.is_reference(f.value) and f.attr.startswith("_") and not f.attr.startswith("__") and f.attr not in keep:
                # r._m(..) with _m a private method no table knows, defined by a few classes of the program: whatever r is, the call
                # runs the definition of r's class: `if isinstance(r, A): <A._m> elif isinstance(r, B): <B._m> ..` (devirtualised)
                # (a classmethod binds the receiver itself only when the receiver is a class: it is tested with issubclass here)
                scope = getattr(lookup, "context", None) or [fn]
                names = {u(f.value)}
                for s_ in scope:        # one step of aliasing: `model = candidate` binds the element a generator helper yields
                    for n in ast.walk(s_):
                        if isinstance(n, ast.Assign) and len(n.targets) == 1 and isinstance(n.targets[0], ast.Name) and isinstance(n.value, ast.Name) \
                                and (n.targets[0].id in names or n.value.id in names):
                            names |= {n.targets[0].id, n.value.id}
                        if isinstance(n, ast.For) and isinstance(n.target, ast.Name) and isinstance(n.iter, (ast.GeneratorExp, ast.ListComp)) \
                                and isinstance(n.iter.elt, ast.Name) and (n.target.id in names or n.iter.elt.id in names):
                            names |= {n.target.id, n.iter.elt.id}
                recv_is_class = any(isinstance(n, ast.Call) and u(n.func) == "issubclass" and n.args and u(n.args[0]) in names for s_ in scope for n in ast.walk(s_))
                d = self._dispatcher(f.attr, module, known, recv_is_class)
                if d is not None:
                    return d, True, prep
            if isinstance(f, ast.Attribute) and isinstance(f.value, ast.Name) and f.value.id in module.imports and f.value.id not in local_types \
                    and f.attr.startswith("_") and not f.attr.startswith("__") and f.attr not in keep and (f.attr in inline or f"fn:{f.attr}" not in known):
                # alias._helper(..): a private function of another module of the program, reached through the module's name
                try:
                    r = module.resolve(f)
                except Exception:
                    r = None
                if isinstance(r, ast.FunctionDef) and not r.decorator_list:
                    src_m = next((m_ for m_ in self.prog.modules.values() if r in m_.functions.values()), None)
                    if src_m is not None:
                        return foreign(r, src_m.name), False, prep
            if isinstance(f, ast.Name):
                name = f.id
                if name in keep:
                    return None
                if name in nested and (name in inline or f"fn:{name}" not in known):
                    return (nested[name], False, prep) if not nested[name].decorator_list else None
                if name in module.functions and (name in inline or (name.startswith("_") and f"fn:{name}" not in known)):
                    target = module.functions[name]
                    if target.decorator_list:
                        # a decorated function is what its decorator makes of it: functools.singledispatch is a chain of isinstance
                        # tests on the first argument; anything else is not seen through here
                        target = single_dispatcher(target)
                        if target is None:
                            return None
                    return target, False, prep
                if name in module.imports and (name in inline or (name.startswith("_") and not name.startswith("__") and f"fn:{name}" not in known)):
                    try:
                        r = module.resolve(f)
                    except Exception:
                        r = None
                    if isinstance(r, ast.FunctionDef) and not r.decorator_list:
                        return foreign(r, module.imports[name].rpartition(".")[0]), False, prep
                if name in local_imports and (name in inline or (name.startswith("_") and not name.startswith("__") and f"fn:{local_imports[name][1]}" not in known)):
                    # imported inside the function (to break an import cycle): the function of that module, spelled as this module spells things
                    src = self.prog.modules.get(local_imports[name][0])
                    r = src.functions.get(local_imports[name][1]) if src is not None else None
                    if isinstance(r, ast.FunctionDef) and not r.decorator_list:
                        return foreign(r, src.name), False, prep
            return None
        return lookup

    def _dispatcher(self, name, module, known, recv_is_class=False):
        key = (name, module.name, recv_is_class)
        cache = self.__dict__.setdefault("_dispatchers", {})
        if key in cache:
            return cache[key]
        cache[key] = None
        definers = [(c, c.methods[name], m_) for m_ in self.prog.modules.values() for c in m_.classes.values() if name in c.methods]
        if not definers or len(definers) > 4 or any(k_.endswith("." + name) for k_ in known if not k_.startswith(("fn:", "class:", "const:", "cconst:"))):
            return None
        sigs = set()
        for c, m, _ in definers:
            a = m.args
            decos = [u(d_) for d_ in m.decorator_list]
            if decos and not (recv_is_class and decos == ["classmethod"] and len(definers) == 1):
                return None
            if a.vararg or a.kwarg or a.kwonlyargs or a.posonlyargs or not a.args or _contains(m, (ast.Yield, ast.YieldFrom, ast.Await)):
                return None
            if any(isinstance(n, ast.Call) and u(n.func) == "super" for n in ast.walk(m)):
                return None
            sigs.add((len(a.args), len(a.defaults)))
        if len(sigs) != 1:
            return None
        # subclasses before their bases (isinstance is tested in order)
        definers.sort(key=lambda t: -len(t[0].mro))
        first = definers[0][1]
        params = [a.arg for a in first.args.args]
        arms = []
        for c, m, m_ in definers:
            ren = {a.arg: p_ for a, p_ in zip(m.args.args, params) if a.arg != p_}
            body = [copy.deepcopy(x) for x in real_body(m)]
            if ren:
                if norm._assigned_names(body) & set(ren.values()):
                    return None
                body = [norm._Rename(ren).visit(x) for x in body]
            body = self._respell(body, m_, module)
            if not _terminates(body):
                body = body + [ast.Return(value=None)]
            arms.append((c, body))
        if len(arms) == 1:
            body = arms[0][1]
        else:
            tail = [ast.Raise(exc=ast.Call(func=ast.Name(id="AttributeError", ctx=ast.Load()), args=[ast.Constant(name)], keywords=[]), cause=None)]
            for c, b_ in reversed(arms):
                test = ast.Call(func=ast.Name(id="isinstance", ctx=ast.Load()), args=[ast.Name(id=params[0], ctx=ast.Load()), ast.Name(id=c.name, ctx=ast.Load())], keywords=[])
                tail = [ast.If(test=test, body=b_, orelse=tail)]
            body = tail
        if not recv_is_class and any(u(d_) == "classmethod" for _, m, _ in definers for d_ in m.decorator_list):
            return None
        d = ast.FunctionDef(name=name, args=copy.deepcopy(first.args), body=body, decorator_list=[], returns=None, type_comment=None, type_params=[])
        ast.copy_location(d, first)
        ast.fix_missing_locations(d)
        self._keepalive.append(d)
        cache[key] = d
        return d

    def _respell(self, body, src, dst):
        """names of a body written in module src, as module dst spells them (`tys.TypeBound` read inside hugr.tys is `TypeBound`)"""
        if src is dst:
            return body
        back = {}
        for alias, dotted in dst.imports.items():
            back.setdefault(dotted, alias)

        class R(ast.NodeTransformer):
            def visit_Attribute(self, node):
                ch = norm._attr_chain(node)
                if ch is not None and ch[0] in src.imports and isinstance(node.ctx, ast.Load):
                    dotted = src.imports[ch[0]]
                    if dotted == dst.name and len(ch) >= 2 and (ch[1] in dst.classes or ch[1] in dst.functions or ch[1] in dst.assigns):
                        e = ast.Name(id=ch[1], ctx=ast.Load())
                        for a_ in ch[2:]:
                            e = ast.Attribute(value=e, attr=a_, ctx=ast.Load())
                        return ast.copy_location(e, node)
                    if dotted in back and back[dotted] != ch[0]:
                        e = ast.Name(id=back[dotted], ctx=ast.Load())
                        for a_ in ch[1:]:
                            e = ast.Attribute(value=e, attr=a_, ctx=ast.Load())
                        return ast.copy_location(e, node)
                    return node
                return self.generic_visit(node)

            def visit_Name(self, node):
                if not isinstance(node.ctx, ast.Load):
                    return node
                if node.id in src.imports:
                    dotted = src.imports[node.id]
                    mn, _, nm = dotted.rpartition(".")
                    if mn == dst.name:
                        return ast.copy_location(ast.Name(id=nm, ctx=ast.Load()), node)
                    if dotted in back and back[dotted] != node.id:
                        return ast.copy_location(ast.Name(id=back[dotted], ctx=ast.Load()), node)
                elif node.id in src.classes or node.id in src.functions:
                    dotted = f"{src.name}.{node.id}"
                    if dotted in back:
                        return ast.copy_location(ast.Name(id=back[dotted], ctx=ast.Load()), node)
                    if src.name in back:
                        return ast.copy_location(ast.Attribute(value=ast.Name(id=back[src.name], ctx=ast.Load()), attr=node.id, ctx=ast.Load()), node)
                return node
        return [ast.fix_missing_locations(R().visit(x)) for x in body]

    # ---- call layout ---------------------------------------------------------------------
    def _sig_index(self):
        if getattr(self, "_sigs", None) is None:
            idx: dict[str, set] = {}
            for m in self.prog.modules.values():
                for f in m.functions.values():
                    idx.setdefault(f.name, set()).add(_sig_of(f, False))
                for c in m.classes.values():
                    for f in c.methods.values():
                        deco = [u(d) for d in f.decorator_list]
                        idx.setdefault(f.name, set()).add(_sig_of(f, "staticmethod" not in deco))
            self._sigs = idx
        return self._sigs

    def _local_types(self, stmts, module, cls, fn=None):
        from .model import Class
        out = {}
        # parameters annotated with a class of the program (`hugr: Hugr`, `other: "Hugr | None"`)
        if fn is not None:
            for a in fn.args.posonlyargs + fn.args.args + fn.args.kwonlyargs:
                ann = a.annotation
                if isinstance(ann, ast.Constant) and isinstance(ann.value, str):
                    try:
                        ann = ast.parse(ann.value, mode="eval").body
                    except SyntaxError:
                        ann = None
                if isinstance(ann, ast.BinOp) and isinstance(ann.op, ast.BitOr):
                    parts = [x for x in (ann.left, ann.right) if not (isinstance(x, ast.Constant) and x.value is None)]
                    ann = parts[0] if len(parts) == 1 else None
                if isinstance(ann, (ast.Name, ast.Attribute)) and a.arg not in ("self", "cls"):
                    try:
                        r = module.resolve(ann)
                    except Exception:
                        r = None
                    if isinstance(r, Class):
                        out[a.arg] = r
        for s_ in stmts:
            for n in ast.walk(s_):
                if isinstance(n, ast.Assign) and len(n.targets) == 1 and isinstance(n.targets[0], ast.Name) and isinstance(n.value, ast.Call):
                    f = u(n.value.func)
                    if f in ("cls.__new__", "cls") and cls is not None:
                        out[n.targets[0].id] = cls
                    elif isinstance(n.value.func, ast.Attribute) and n.value.func.attr == "__new__" and isinstance(module.resolve(n.value.func.value), Class):
                        out[n.targets[0].id] = module.resolve(n.value.func.value)
                    else:
                        r = module.resolve(n.value.func) if isinstance(n.value.func, (ast.Name, ast.Attribute)) else None
                        if isinstance(r, Class):
                            out[n.targets[0].id] = r
        return out

    def _callee_sig(self, call: ast.Call, module, cls, local_types=None):
        """(positional parameter names, kw-only names) of the callee, or None when it cannot be determined"""
        f = call.func
        from .model import Class
        try:
            if isinstance(f, ast.Attribute):
                recv = f.value
                k = None
                if isinstance(recv, ast.Name) and recv.id in ("self", "cls") and cls is not None:
                    k = cls
                elif isinstance(recv, ast.Name) and local_types and recv.id in local_types:
                    k = local_types[recv.id]
                elif isinstance(recv, ast.Call) and u(recv.func) == "super" and cls is not None and len(cls.mro) > 1:
                    for b in cls.mro[1:]:
                        if f.attr in b.methods:
                            return _sig_of(b.methods[f.attr], True)
                    return None
                else:
                    r = module.resolve(recv) if isinstance(recv, (ast.Name, ast.Attribute)) else None
                    if isinstance(r, Class):
                        k = r
                if k is not None:
                    _, m = k.find_method(f.attr)
                    if m is not None:
                        deco = [u(d) for d in m.decorator_list]
                        if "property" in deco:
                            return None
                        return _sig_of(m, "staticmethod" not in deco)
                    return None
                r = module.resolve(f)
                if isinstance(r, Class):
                    return (tuple(r.init_positional()), tuple(x for x in r.init_params() if x not in r.init_positional()))
                if isinstance(r, ast.FunctionDef):
                    return _sig_of(r, False)
                cands = self._sig_index().get(f.attr, set())
                if len(cands) == 1:
                    return next(iter(cands))
                return None
            if isinstance(f, ast.Name):
                r = module.resolve(f)
                if isinstance(r, Class):
                    return (tuple(r.init_positional()), tuple(x for x in r.init_params() if x not in r.init_positional()))
                if isinstance(r, ast.FunctionDef):
                    return _sig_of(r, False)
        except Exception:
            return None
        return None

    def _ctor_defaults(self, call: ast.Call, module):
        """{field: text of its default} for a call of a dataclass (no __init__/__post_init__ of its own) of the program; fresh empty
        containers for default_factory=list/dict/set"""
        from .model import Class
        try:
            r = module.resolve(call.func) if isinstance(call.func, (ast.Name, ast.Attribute)) else None
        except Exception:
            r = None
        if not isinstance(r, Class) or not r.is_dataclass or any(k_.methods.get(n_) for k_ in r.mro for n_ in ("__init__", "__post_init__", "__new__")):
            return {}
        out = {}
        for f in r.all_fields():
            if f.classvar or not f.init:
                continue
            if f.default_factory is not None and u(f.default_factory) in ("list", "dict", "set"):
                out[f.name] = {"list": "[]", "dict": "{}", "set": "set()"}[u(f.default_factory)]
            elif isinstance(f.default, ast.Constant) and not isinstance(f.default.value, (float, complex)):
                out[f.name] = u(f.default)
        return out

    def _record_fields(self, call, module, cls=None):
        """{field: value} for a construction of a private dataclass of the module that the tables do not know (defaults filled in; at most
        one value that is not pure), else None"""
        known = known_defs()
        if not (isinstance(call, ast.Call) and isinstance(call.func, ast.Name)):
            return None
        c = module.classes.get(call.func.id)
        is_nt = c is not None and any(u(b_).split(".")[-1] == "NamedTuple" for b_ in c.node.bases)
        if c is None or not call.func.id.startswith("_") or f"class:{call.func.id}" in known or not (c.is_dataclass or is_nt) \
                or any(n_ in c.methods for n_ in ("__init__", "__post_init__", "__new__", "__getattr__", "__setattr__", "__getattribute__")) \
                or any(isinstance(a, ast.Starred) for a in call.args) or any(k.arg is None for k in call.keywords):
            return None
        fields = [f for f in (c.fields if is_nt else c.all_fields()) if (is_nt or f.init) and not f.classvar]
        params = [f.name for f in fields]
        if len(call.args) > len(params) or any(k.arg not in params for k in call.keywords):
            return None
        vals = dict(zip(params, call.args))
        vals.update({k.arg: k.value for k in call.keywords})
        for f in fields:
            if f.name in vals:
                continue
            if f.default_factory is not None and u(f.default_factory) in ("list", "dict", "set"):
                vals[f.name] = ast.parse({"list": "[]", "dict": "{}", "set": "set()"}[u(f.default_factory)], mode="eval").body
            elif isinstance(f.default, ast.Constant) or (isinstance(f.default, ast.Tuple) and all(isinstance(e_, ast.Constant) for e_ in f.default.elts)):
                vals[f.name] = copy.deepcopy(f.default)
            else:
                return None
        # (one part may be computed by a call: with everything else pure, where in the tail it is evaluated makes no difference)
        def computes_only(v):
            if norm.is_pure(v, _PURE_EXT):
                return True
            names = {n.id for n in ast.walk(v) if isinstance(n, ast.Name)}
            e_ = self.effects().expr_effects(v, {n_: {n_} for n_ in names}, cls, module)
            return e_ is not None and not e_
        if sum(1 for v in vals.values() if not computes_only(v)) > 1:
            return None
        return vals


    def undecorated(self, fn, module, cls):
        """a method wrapped by a private decorator of the program the tables do not know,

            def _deco(p..):                      @_deco(a..)
                def decorate(f):                 def m(self, ..): BODY
                    @wraps(f)
                    def wrapper(self, ..): W
                    return wrapper
                return decorate

        is the wrapper: a function named m with the wrapper's parameters and body W, in which f is m's own body (kept as a nested
        function, inlined like any other) and the decorator's parameters are its arguments; a function of the class body handed to the
        decorator and called with the receiver first is the method call.  (the argument-less form `def _deco(f): .. return wrapper` too.)
        Anything else is left as it is."""
        if len(fn.decorator_list) != 1:
            return fn
        cache = self.__dict__.setdefault("_undeco", {})
        if id(fn) in cache:
            return cache[id(fn)]
        cache[id(fn)] = fn
        d = fn.decorator_list[0]
        known = known_defs()
        head = d.func if isinstance(d, ast.Call) else d
        if not isinstance(head, ast.Name) or not head.id.startswith("_") or f"fn:{head.id}" in known:
            return fn
        fac = module.functions.get(head.id)
        if fac is None and head.id in module.imports:
            try:
                fac = module.resolve(head)
            except Exception:
                fac = None
        if not isinstance(fac, ast.FunctionDef) or fac.decorator_list:
            return fn

        def closure_of(f_):
            """(inner def, its parameter list names) when f_ is `def f_(..): def inner(..): ..; return inner`"""
            b_ = real_body(f_)
            if len(b_) == 2 and isinstance(b_[0], ast.FunctionDef) and isinstance(b_[1], ast.Return) and isinstance(b_[1].value, ast.Name) and b_[1].value.id == b_[0].name:
                return b_[0]
            return None
        if isinstance(d, ast.Call):
            dec = closure_of(fac)
            if dec is None or len(dec.args.args) != 1 or dec.decorator_list:
                return fn
            binds = norm.bind_call(fac, d, False)
            if binds is None:
                return fn
            wrapper, fparam = closure_of(dec), dec.args.args[0].arg
        else:
            if len(fac.args.args) != 1:
                return fn
            binds, wrapper, fparam = {}, closure_of(fac), fac.args.args[0].arg
        if wrapper is None or any(u(x.func if isinstance(x, ast.Call) else x).split(".")[-1] != "wraps" for x in wrapper.decorator_list):
            return fn
        if not wrapper.args.args or _contains(wrapper, (ast.Yield, ast.YieldFrom, ast.Await, ast.Global, ast.Nonlocal)):
            return fn
        recv = wrapper.args.args[0].arg
        inner = copy.deepcopy(fn)
        inner.decorator_list = []
        inner_name = f"{fparam}_wrapped_" if fparam == fn.name else fparam        # (not the method's own name: that reads as recursion)
        inner.name = inner_name
        if cls is not None:
            kd = next((k_ for k_ in cls.mro if fn in k_.methods.values()), None)
            sn = inner.args.args[0].arg if inner.args.args else None
            if kd is not None and sn is not None:
                for n in ast.walk(inner):
                    if isinstance(n, ast.Call) and u(n.func) == "super" and not n.args:
                        n.args = [ast.Name(id=kd.name, ctx=ast.Load()), ast.Name(id=sn, ctx=ast.Load())]
        body = [copy.deepcopy(x) for x in real_body(wrapper)]
        if binds:
            if norm._assigned_names(body) & set(binds):
                return fn
            body = [norm._Subst({k: copy.deepcopy(v) for k, v in binds.items()}).visit(x) for x in body]
        methods = set()
        if cls is not None:
            for k_ in cls.mro:
                methods |= set(k_.methods)

        class M(ast.NodeTransformer):
            # g(self, a..) with g a function of the class body: self.g(a..)
            def visit_Call(self, node):
                self.generic_visit(node)
                if isinstance(node.func, ast.Name) and node.func.id in methods and node.func.id != fparam and node.args and isinstance(node.args[0], ast.Name) \
                        and node.args[0].id == recv and not any(isinstance(a, ast.Starred) for a in node.args[:1]):
                    return ast.copy_location(ast.Call(func=ast.Attribute(value=ast.Name(id=recv, ctx=ast.Load()), attr=node.func.id, ctx=ast.Load()),
                                                      args=node.args[1:], keywords=node.keywords), node)
                return node
        body = [M().visit(x) for x in body]
        if inner_name != fparam:
            if inner_name in {n.id for x in body for n in ast.walk(x) if isinstance(n, ast.Name)}:
                return fn
            body = [norm._Rename({fparam: inner_name}).visit(x) for x in body]
        new = ast.FunctionDef(name=fn.name, args=copy.deepcopy(wrapper.args), body=[inner] + body, decorator_list=[], returns=fn.returns, type_comment=None, type_params=[])
        ast.copy_location(new, fn)
        ast.fix_missing_locations(new)
        self._keepalive.append(new)
        cache[id(fn)] = new
        return new

    def effects(self):
        if getattr(self, "_effects", None) is None:
            from .effects import Effects
            self._effects = Effects(self.prog)
        return self._effects

    def fuse_eager_loops(self, stmts, module, cls, fn):
        """for x in [E(c) for c in X]: BODY     (also  (*(E(c) for c in X),)  /  tuple(..) / list(..))
              ->   for c in X: x = E(c); BODY
        when building the values changes nothing (hv/effects.py: E only computes) and BODY changes nothing E or X read: each value is
        then the same whether it is built before the loop starts or when its turn comes"""
        if not any(isinstance(n, ast.For) for s_ in stmts for n in ast.walk(s_)):
            return stmts
        eff = self.effects()
        params = [a.arg for a in fn.args.posonlyargs + fn.args.args + fn.args.kwonlyargs] if fn is not None else []
        roots = eff.bind_roots(stmts, {p_: {p_} for p_ in params}, own=True)
        counter = [0]

        def eager(it):
            g = None
            if isinstance(it, ast.ListComp):
                g = it
            elif isinstance(it, (ast.Tuple, ast.List)) and len(it.elts) == 1 and isinstance(it.elts[0], ast.Starred) and isinstance(it.elts[0].value, (ast.GeneratorExp, ast.ListComp)):
                g = it.elts[0].value
            elif isinstance(it, ast.Call) and isinstance(it.func, ast.Name) and it.func.id in ("tuple", "list") and len(it.args) == 1 and not it.keywords \
                    and isinstance(it.args[0], (ast.GeneratorExp, ast.ListComp)):
                g = it.args[0]
            if g is None or len(g.generators) != 1 or g.generators[0].is_async:
                return None
            return g

        def block(b):
            out = []
            for s_ in b:
                for fld in ("body", "orelse", "finalbody"):
                    bb = getattr(s_, fld, None)
                    if isinstance(bb, list) and bb and isinstance(bb[0], ast.stmt) and not isinstance(s_, (ast.FunctionDef, ast.AsyncFunctionDef, ast.ClassDef)):
                        setattr(s_, fld, block(bb))
                if isinstance(s_, ast.Try):
                    for h in s_.handlers:
                        h.body = block(h.body)
                g = eager(s_.iter) if isinstance(s_, ast.For) else None
                if g is not None and not norm.is_pure(g.elt, _PURE_EXT):       # (pure elements are fused elsewhere)
                    gen = g.generators[0]
                    inner = dict(roots)
                    for t in ast.walk(gen.target):
                        if isinstance(t, ast.Name):
                            inner[t.id] = eff.roots_of(gen.iter, roots) | {t.id}
                    built = [g.elt, *gen.ifs]
                    e_elt = [eff.expr_effects(x, inner, cls, module) for x in [*built, gen.iter]]
                    w_body = eff.stmts_effects(s_.body, roots, cls, module)
                    rd = set().union(*[eff.reads(x, inner) for x in [*built, gen.iter]])
                    tnames = {n.id for n in ast.walk(gen.target) if isinstance(n, ast.Name)}
                    used = {n.id for x in s_.body for n in ast.walk(x) if isinstance(n, ast.Name)} | {n.id for n in ast.walk(s_.target) if isinstance(n, ast.Name)}
                    if all(e_ is not None and not e_ for e_ in e_elt) and w_body is not None and not (w_body & rd) \
                            and not (norm._assigned_names(s_.body) & {n.id for x in [*built, gen.iter] for n in ast.walk(x) if isinstance(n, ast.Name)}) \
                            and not _loop_level_jump(s_.body):
                        ren = {}
                        for t in sorted(tnames):
                            if t in used:
                                counter[0] += 1
                                ren[t] = f"{t}_e{counter[0]}"
                        tgt, elt, ifs = copy.deepcopy(gen.target), copy.deepcopy(g.elt), [copy.deepcopy(x) for x in gen.ifs]
                        if ren:
                            tgt = norm._Rename(ren).visit(tgt)
                            elt = norm._Rename(ren).visit(elt)
                            ifs = [norm._Rename(ren).visit(x) for x in ifs]
                        body = [ast.Assign(targets=[copy.deepcopy(s_.target)], value=elt), *s_.body]
                        for c_ in reversed(ifs):
                            body = [ast.If(test=c_, body=body, orelse=[])]
                        new = ast.For(target=tgt, iter=copy.deepcopy(gen.iter), body=body, orelse=s_.orelse, type_comment=None)
                        out.append(ast.fix_missing_locations(ast.copy_location(new, s_)))
                        continue
                out.append(s_)
            return out
        return block(list(stmts))

    def fuse_producer_consumer(self, stmts, module, cls, fn):
        """L = []                                           for T in X:
           for T in X: P; L.append(E)             ->            P; x = E; BODY
           for x in L: BODY
        when L is used nowhere else, the producing statements only compute (hv/effects.py) and BODY changes nothing they read: each
        element is then the same whether it is built in a first pass or when its turn comes"""
        eff = self.effects()
        params = [a.arg for a in fn.args.posonlyargs + fn.args.args + fn.args.kwonlyargs] if fn is not None else []

        def block(b):
            b = list(b)
            for s_ in b:
                for fld in ("body", "orelse", "finalbody"):
                    bb = getattr(s_, fld, None)
                    if isinstance(bb, list) and bb and isinstance(bb[0], ast.stmt) and not isinstance(s_, (ast.FunctionDef, ast.AsyncFunctionDef, ast.ClassDef)):
                        setattr(s_, fld, block(bb))
            i = 0
            while i + 1 < len(b):
                p_, c_ = b[i], b[i + 1]
                if isinstance(p_, ast.For) and isinstance(c_, ast.For) and not p_.orelse and not c_.orelse and isinstance(c_.iter, ast.Name) and p_.body \
                        and isinstance(p_.body[-1], ast.Expr) and isinstance(p_.body[-1].value, ast.Call) and u(p_.body[-1].value.func) == f"{c_.iter.id}.append" \
                        and len(p_.body[-1].value.args) == 1 and not p_.body[-1].value.keywords:
                    L = c_.iter.id
                    init = [j for j, x in enumerate(b[:i]) if isinstance(x, ast.Assign) and len(x.targets) == 1 and u(x.targets[0]) == L and u(x.value) == "[]"]
                    uses = sum(1 for x in stmts for n in ast.walk(x) if isinstance(n, ast.Name) and n.id == L)
                    prod, elt = p_.body[:-1], p_.body[-1].value.args[0]
                    roots = eff.bind_roots(stmts, {q: {q} for q in params}, own=True)
                    w_prod = eff.stmts_effects(prod, roots, cls, module) if prod else set()
                    e_elt = eff.expr_effects(elt, roots, cls, module)
                    e_it = eff.expr_effects(p_.iter, roots, cls, module)
                    w_body = eff.stmts_effects(c_.body, roots, cls, module)
                    plocals = norm._assigned_names(prod) | {n.id for n in ast.walk(p_.target) if isinstance(n, ast.Name)}
                    rd = set().union(*[eff.reads(x, roots) for x in [*prod, elt, p_.iter]]) if True else set()
                    cnames = {n.id for x in c_.body for n in ast.walk(x) if isinstance(n, ast.Name)} | {n.id for n in ast.walk(c_.target) if isinstance(n, ast.Name)}
                    # the producer's locals hold fresh values (their own roots): only what they share with the outside matters
                    rd_outside = {r for r in rd if r not in plocals}
                    import os
                    if os.environ.get("HV_FUSE_DEBUG"):
                        print("FUSE", L, len(init), uses, w_prod, plocals, e_elt, e_it, w_body, rd_outside, plocals & cnames, _loop_level_jump(prod), _loop_level_jump(c_.body))
                    if len(init) == 1 and uses == 3 and w_prod is not None and not (w_prod - plocals) and e_elt is not None and not e_elt and e_it is not None and not e_it \
                            and w_body is not None and not (w_body & rd_outside) and not (plocals & cnames) and not _loop_level_jump(prod) and not _loop_level_jump(c_.body) \
                            and not (norm._assigned_names(c_.body) & {n.id for x in [*prod, elt, p_.iter] for n in ast.walk(x) if isinstance(n, ast.Name)}):
                        new = ast.For(target=p_.target, iter=p_.iter, body=[*prod, ast.Assign(targets=[c_.target], value=elt), *c_.body], orelse=[], type_comment=None)
                        ast.fix_missing_locations(ast.copy_location(new, p_))
                        b[i:i + 2] = [new]
                        del b[init[0]]
                        i -= 1
                        continue
                i += 1
            return b
        return block(stmts)

    def fold_own_bodies(self, stmts, module, cls, fn, early=False):
        """self._b(self._a(X, Y), Z)  where a method m of the class is defined as exactly `self._b(self._a(p, q), r)` (in its parameters)
        and _a, _b are private helpers the tables do not know: the call is m(X, Y, Z) -- the way back from a method that was split in
        two halves to the one call the split left in its place"""
        if cls is None:
            return stmts
        known = known_defs()
        pats = []
        for k_ in cls.mro:
            for name, m in k_.methods.items():
                if m.decorator_list or not m.args.args or m.args.vararg or m.args.kwarg or m.args.kwonlyargs:
                    continue
                rb = real_body(m)
                if len(rb) != 1 or not isinstance(rb[0], (ast.Expr, ast.Return)) or not isinstance(rb[0].value, ast.Call):
                    continue
                e = rb[0].value
                sn = m.args.args[0].arg
                ps = [a.arg for a in m.args.args[1:]]
                # an outer call of an unknown private helper of self with an inner one among its arguments; every parameter used once
                f = e.func
                if not (isinstance(f, ast.Attribute) and isinstance(f.value, ast.Name) and f.value.id == sn and self.unknown_helper(k_, f.attr)):
                    continue
                inner = [a for a in e.args if isinstance(a, ast.Call) and isinstance(a.func, ast.Attribute) and isinstance(a.func.value, ast.Name)
                         and a.func.value.id == sn and self.unknown_helper(k_, a.func.attr)]
                if len(inner) != 1 or e.keywords or inner[0].keywords:
                    continue
                names = [n.id for n in ast.walk(e) if isinstance(n, ast.Name) and n.id != sn]
                if sorted(names) != sorted(ps) or not all(isinstance(a, ast.Name) or a is inner[0] for a in e.args) or not all(isinstance(a, ast.Name) for a in inner[0].args):
                    continue
                if cls.find_method(name)[1] is not m:
                    continue
                if early and fn is not None and m is fn:
                    continue            # (the method's own definition is not a call of itself; calls its halves make later on are)
                # (no subclass in the program gives the method another body: `self.m(..)` then runs this one)
                if any(k2 is not k_ and k_ in k2.mro and name in k2.methods for m2 in self.prog.modules.values() for k2 in m2.classes.values()):
                    continue
                pats.append((name, sn, ps, e, inner[0]))
        if not pats:
            return stmts

        class F(ast.NodeTransformer):
            def visit_Call(self, node):
                self.generic_visit(node)
                for name, sn, ps, e, inner in pats:
                    if fn is not None and False:
                        continue
                    f = node.func
                    if not (isinstance(f, ast.Attribute) and isinstance(f.value, ast.Name) and f.value.id == "self" and f.attr == e.func.attr
                            and len(node.args) == len(e.args) and not node.keywords):
                        continue
                    bind = {}
                    ok = True
                    for a_pat, a_act in zip(e.args, node.args):
                        if a_pat is inner:
                            if not (isinstance(a_act, ast.Call) and isinstance(a_act.func, ast.Attribute) and isinstance(a_act.func.value, ast.Name)
                                    and a_act.func.value.id == "self" and a_act.func.attr == inner.func.attr and len(a_act.args) == len(inner.args) and not a_act.keywords):
                                ok = False
                                break
                            for p2, a2 in zip(inner.args, a_act.args):
                                bind[p2.id] = a2
                        else:
                            bind[a_pat.id] = a_act
                    if ok and set(bind) == set(ps):
                        return ast.copy_location(ast.Call(func=ast.Attribute(value=ast.Name(id="self", ctx=ast.Load()), attr=name, ctx=ast.Load()),
                                                          args=[bind[p_] for p_ in ps], keywords=[]), node)
                return node
        return [ast.fix_missing_locations(F().visit(s_)) for s_ in stmts]

    def thread_record_flags(self, stmts, module, cls=None):
        """if C: ..; v = _Rec(.., f=<certainly non-empty here>)  else: ..; v = _Rec(..)          if C: ..; v = _Rec(..); A
           if v.f: A  else: B                                                             ->    else: ..; v = _Rec(..); B
        a decision recorded in whether a field of a private record is empty and asked again straight afterwards is the decision itself
        (as norm.thread_none_flags does for `v is None`): each arm of the second test moves to the branches that make it true"""
        fresh = [0]
        eff = self.effects()
        names = {n.id for s_ in stmts for n in ast.walk(s_) if isinstance(n, ast.Name)}
        own = {n_: {n_} for n_ in names}

        def stable(t, blk):
            """asking t again after blk gives the same answer: t only computes, and blk changes nothing"""
            if norm.is_pure(t, _PURE_EXT):
                return True
            et = eff.expr_effects(t, own, cls, module)
            eb = eff.stmts_effects(blk, own, cls, module)
            return et is not None and not et and eb is not None and not eb

        def truth(e, facts):
            """True / False / None: the truth value of e given the (text -> bool) facts the enclosing tests established"""
            if isinstance(e, ast.Constant):
                return bool(e.value)
            if isinstance(e, (ast.Tuple, ast.List, ast.Set)):
                if not e.elts:
                    return False
                ts = [True if not isinstance(x, ast.Starred) else truth(x.value, facts) for x in e.elts]
                if any(t is True for t in ts):
                    return True
                return False if all(t is False for t in ts) else None
            if isinstance(e, (ast.GeneratorExp, ast.ListComp, ast.SetComp)) and len(e.generators) == 1 and not e.generators[0].ifs:
                return truth(e.generators[0].iter, facts)        # as many elements as the iterable has
            if isinstance(e, ast.Call) and isinstance(e.func, ast.Name) and e.func.id in ("tuple", "list", "set", "frozenset", "sorted") and len(e.args) == 1 and not e.keywords:
                return truth(e.args[0], facts)
            if u(e) in facts:
                return facts[u(e)]
            return None

        def leaves(block, v, facts):
            """[(leaf block, facts there)] for the ways the block falls through with v assigned last in that leaf; None if unknown"""
            if _terminates(block):
                return []
            if not block:
                return None
            last = block[-1]
            if isinstance(last, ast.If) and last.orelse and v in norm._assigned_names([last]):
                t, neg = last.test, False
                while isinstance(t, ast.UnaryOp) and isinstance(t.op, ast.Not):
                    t, neg = t.operand, not neg
                fa, fb = dict(facts), dict(facts)
                if stable(t, last.body) and stable(t, last.orelse) \
                        and not (norm._assigned_names(last.body) | norm._assigned_names(last.orelse)) & {n.id for n in ast.walk(t) if isinstance(n, ast.Name)}:
                    fa[u(t)], fb[u(t)] = (not neg), neg
                a, b = leaves(last.body, v, fa), leaves(last.orelse, v, fb)
                return None if a is None or b is None else a + b
            if isinstance(last, ast.Assign) and len(last.targets) == 1 and isinstance(last.targets[0], ast.Name) and last.targets[0].id == v:
                return [(block, facts)]
            return None

        def block(b):
            b = list(b)
            for s_ in b:
                for fld in ("body", "orelse", "finalbody"):
                    bb = getattr(s_, fld, None)
                    if isinstance(bb, list) and bb and isinstance(bb[0], ast.stmt) and not isinstance(s_, (ast.FunctionDef, ast.AsyncFunctionDef, ast.ClassDef)):
                        setattr(s_, fld, block(bb))
            i = 0
            while i + 1 < len(b):
                s1, s2 = b[i], b[i + 1]
                if isinstance(s1, ast.If) and s1.orelse and isinstance(s2, ast.If):
                    t, neg = s2.test, False
                    while isinstance(t, ast.UnaryOp) and isinstance(t.op, ast.Not):
                        t, neg = t.operand, not neg
                    none_test = None
                    if isinstance(t, ast.Compare) and len(t.ops) == 1 and isinstance(t.ops[0], (ast.Is, ast.IsNot)) and isinstance(t.comparators[0], ast.Constant) \
                            and t.comparators[0].value is None and isinstance(t.left, ast.Attribute):
                        # `v.f is not None`: true where the field was given something that is never None, false where it was given None
                        none_test = isinstance(t.ops[0], ast.IsNot)
                        t = t.left
                    if isinstance(t, ast.Attribute) and isinstance(t.value, ast.Name):
                        v, f_ = t.value.id, t.attr
                        lv = leaves([s1], v, {})
                        decided = []
                        for blk, facts in (lv or []):
                            vals = self._record_fields(blk[-1].value, module, cls)
                            if none_test is None:
                                tv = truth(vals[f_], facts) if vals is not None and f_ in vals else None
                            else:
                                fv = vals.get(f_) if vals is not None else None
                                some = None if fv is None else (False if isinstance(fv, ast.Constant) and fv.value is None else (True if norm._never_none(fv, {}) else None))
                                tv = None if some is None else (some == none_test)
                            decided.append(tv)
                        if lv and all(d is not None for d in decided) and len(set(decided)) == 2:
                            inside = sum(1 for n in ast.walk(s2) if isinstance(n, ast.Name) and n.id == v and isinstance(n.ctx, ast.Load))
                            total = sum(1 for x in stmts for n in ast.walk(x) if isinstance(n, ast.Name) and n.id == v and isinstance(n.ctx, ast.Load))
                            for (blk, _), tv in zip(lv, decided):
                                arm = [copy.deepcopy(x) for x in (s2.body if tv != neg else s2.orelse)]
                                if inside == total and not any(v in norm._assigned_names([x]) for x in arm):
                                    fresh[0] += 1
                                    nm = f"{v}__{fresh[0]}"
                                    blk[-1].targets[0] = ast.Name(id=nm, ctx=ast.Store())
                                    arm = [norm._Rename({v: nm}).visit(x) for x in arm]
                                blk.extend(arm)
                            del b[i + 1]
                            continue
                i += 1
            return b
        return block(stmts)

    def sink_selected_tail(self, stmts):
        """if C: f = A; t = X  else: f = B; t = Y            if C: A(X, d)  else: B(Y, d)
           f(t, d)                                     ->
        the arms only pick names (a callback and what to hand it) for one statement that follows: the statement is written into each
        arm with the picks in place.  The picked locals are read nowhere else."""
        def block(b):
            b = list(b)
            for s_ in b:
                for fld in ("body", "orelse", "finalbody"):
                    bb = getattr(s_, fld, None)
                    if isinstance(bb, list) and bb and isinstance(bb[0], ast.stmt) and not isinstance(s_, (ast.FunctionDef, ast.AsyncFunctionDef, ast.ClassDef)):
                        setattr(s_, fld, block(bb))
            i = 0
            while i + 1 < len(b):
                s1, t_ = b[i], b[i + 1]
                called = {n.func.id for n in ast.walk(t_) if isinstance(n, ast.Call) and isinstance(n.func, ast.Name)} if isinstance(t_, (ast.Expr, ast.Assign, ast.Return)) else set()
                if isinstance(s1, ast.If) and s1.orelse and isinstance(t_, (ast.Expr, ast.Assign, ast.Return)) and t_.value is not None and called:
                    def picks(blk):
                        """trailing `name = <name / constant>` statements of the arm: {name: value} and the rest"""
                        mp, k = {}, len(blk)
                        while k > 0 and isinstance(blk[k - 1], ast.Assign) and len(blk[k - 1].targets) == 1 and isinstance(blk[k - 1].targets[0], ast.Name) \
                                and (isinstance(blk[k - 1].value, (ast.Name, ast.Constant, ast.Lambda)) or norm._attr_chain(blk[k - 1].value) is not None):
                            mp.setdefault(blk[k - 1].targets[0].id, blk[k - 1].value)
                            k -= 1
                        return mp, blk[:k]
                    pa, ra = picks(s1.body)
                    pb, rb = picks(s1.orelse)
                    names = set(pa) & set(pb)
                    used = {n.id for n in ast.walk(t_) if isinstance(n, ast.Name)}
                    if (called & names) and set(pa) == set(pb) == names and names <= used:
                        # the picked names are read only by the statement that follows
                        total = sum(1 for x in stmts for n in ast.walk(x) if isinstance(n, ast.Name) and n.id in names and isinstance(n.ctx, ast.Load))
                        here = sum(1 for n in ast.walk(t_) if isinstance(n, ast.Name) and n.id in names and isinstance(n.ctx, ast.Load))
                        # a pick must not read another pick of the same arm, nor anything the rest of the arm rebinds after it
                        clean = all(not ({n.id for v in mp.values() for n in ast.walk(v) if isinstance(n, ast.Name)} & set(mp)) for mp in (pa, pb))
                        if total == here and clean:
                            s1.body = ra + [ast.fix_missing_locations(ast.copy_location(norm._Subst({k: copy.deepcopy(v) for k, v in pa.items()}).visit(copy.deepcopy(t_)), t_))]
                            s1.orelse = rb + [ast.fix_missing_locations(ast.copy_location(norm._Subst({k: copy.deepcopy(v) for k, v in pb.items()}).visit(copy.deepcopy(t_)), t_))]
                            del b[i + 1]
                            continue
                i += 1
            return b
        return block(stmts)

    def sink_record_tail(self, stmts, module):
        """if ..: ..; x = _Rec(a, b)  elif ..: ..; x = _Rec(c)  ..        if ..: ..; return F(a, b, <default>)  elif ..: ..; return F(c, ..)
           return F(x.p, x.q, x.r)                                  ->
        every arm files the varying parts in a private record (a dataclass the tables do not know) and one shared tail builds the answer
        from them: the tail is written into each arm with the record's fields replaced by what the arm filed"""
        known = known_defs()

        def helper_fields(call):
            return self._record_fields(call, module)

        class Fold(ast.NodeTransformer):
            def visit_IfExp(self, node):
                self.generic_visit(node)
                if isinstance(node.test, ast.Constant) and isinstance(node.test.value, bool):
                    return node.body if node.test.value else node.orelse
                return node

        def block(b):
            b = list(b)
            for s_ in b:
                for fld in ("body", "orelse", "finalbody"):
                    bb = getattr(s_, fld, None)
                    if isinstance(bb, list) and bb and isinstance(bb[0], ast.stmt) and not isinstance(s_, (ast.FunctionDef, ast.AsyncFunctionDef, ast.ClassDef)):
                        setattr(s_, fld, block(bb))
            for i in range(len(b) - 1):
                s1, tail = b[i], b[i + 1:]
                if not (isinstance(s1, ast.If) and s1.orelse and len(tail) == 1 and isinstance(tail[0], ast.Return) and tail[0].value is not None):
                    continue
                recs = {n.value.id for n in ast.walk(tail[0]) if isinstance(n, ast.Attribute) and isinstance(n.value, ast.Name)}
                for x in sorted(recs):
                    reads = [n for n in ast.walk(tail[0]) if isinstance(n, ast.Name) and n.id == x]
                    attr_bases = {id(n.value) for n in ast.walk(tail[0]) if isinstance(n, ast.Attribute)}
                    if any(id(n) not in attr_bases or not isinstance(n.ctx, ast.Load) for n in reads):
                        continue
                    if any(isinstance(n, ast.Name) and n.id == x for b_ in b[:i] for n in ast.walk(b_)):
                        continue
                    leaves = []

                    def collect(blk):
                        if not blk:
                            return False
                        if _terminates(blk):
                            return True
                        last = blk[-1]
                        if isinstance(last, ast.If) and last.orelse:
                            return collect(last.body) and collect(last.orelse)
                        if isinstance(last, ast.Assign) and len(last.targets) == 1 and isinstance(last.targets[0], ast.Name) and last.targets[0].id == x \
                                and helper_fields(last.value) is not None:
                            leaves.append((blk, helper_fields(last.value)))
                            return True
                        return False
                    if not (collect(s1.body) and collect(s1.orelse)) or not leaves:
                        continue
                    # x is written only by those last assignments and read only by the tail
                    # (other bindings of x inside the chain sit in branches that leave: never read)
                    if any(isinstance(n, ast.Name) and n.id == x and isinstance(n.ctx, ast.Load) for n in ast.walk(s1)):
                        continue
                    counts = {}
                    for n in ast.walk(tail[0]):
                        if isinstance(n, ast.Attribute) and isinstance(n.value, ast.Name) and n.value.id == x:
                            counts[n.attr] = counts.get(n.attr, 0) + 1
                    ok = True

                    class Blank(ast.NodeTransformer):
                        def visit_Attribute(self, node):
                            if isinstance(node.value, ast.Name) and node.value.id == x:
                                return ast.Constant(None)
                            return self.generic_visit(node)
                    tail_pure = norm.is_pure(Blank().visit(copy.deepcopy(tail[0].value)), _PURE_EXT)
                    for blk, vals in leaves:
                        for f_, v_ in vals.items():
                            if not norm.is_pure(v_, _PURE_EXT) and not (counts.get(f_, 0) == 1 and tail_pure):
                                ok = False
                        for f_, k_ in counts.items():
                            if f_ not in vals or (k_ > 1 and not (isinstance(vals[f_], ast.Constant) or norm.is_reference(vals[f_]) or norm.is_scalar(vals[f_]))):
                                ok = False
                    if not ok and all(f_ in vals or f_ in (module.classes[blk[-1].value.func.id].methods) for blk, vals in leaves for f_ in counts):
                        # the tail asks the record through its accessors: it is written into each arm as it stands, each arm with its own
                        # name for the record (the accessors are seen through where the record is projected)
                        self._srt = getattr(self, "_srt", 0)
                        for blk, vals in leaves:
                            self._srt += 1
                            nm = f"{x}__t{self._srt}"
                            blk[-1].targets[0] = ast.Name(id=nm, ctx=ast.Store())
                            blk.append(ast.fix_missing_locations(ast.copy_location(norm._Rename({x: nm}).visit(copy.deepcopy(tail[0])), tail[0])))
                        return block(b[:i + 1])
                    if not ok:
                        continue
                    for blk, vals in leaves:
                        class P(ast.NodeTransformer):
                            def visit_Attribute(self, node):
                                if isinstance(node.value, ast.Name) and node.value.id == x:
                                    return copy.deepcopy(vals[node.attr])
                                return self.generic_visit(node)
                        blk[-1] = ast.fix_missing_locations(ast.copy_location(Fold().visit(P().visit(copy.deepcopy(tail[0]))), blk[-1]))
                    return block(b[:i + 1])
            return b
        return block(stmts)

    def call_layout(self, stmts, module, cls):
        """keyword arguments -> positional for the longest prefix of the callee's parameters (when the callee is known)"""
        canon = self
        local_types = self._local_types(stmts, module, cls)

        class L(ast.NodeTransformer):
            def visit_Call(self, node):
                self.generic_visit(node)
                if any(k.arg is None for k in node.keywords) or any(isinstance(a, ast.Starred) for a in node.args):
                    return node
                if not node.keywords and not (node.args and canon._ctor_defaults(node, module)):
                    return node
                sig = canon._callee_sig(node, module, cls, local_types)
                if sig is None:
                    return node
                pos, kwonly = sig
                if len(node.args) > len(pos):
                    return node
                kws = {k.arg: k.value for k in node.keywords}
                if any(k not in pos and k not in kwonly for k in kws):
                    return node
                args = list(node.args)
                dflt = canon._ctor_defaults(node, module)
                if dflt:
                    # an argument spelled out with the value the (dataclass) constructor would supply anyway is left to it
                    full = dict(zip(pos, args))
                    full.update(kws)
                    full = {k: v for k, v in full.items() if not (k in dflt and u(v) == dflt[k])}
                    args, kws = [], dict(full)
                for p_ in pos[len(args):]:
                    if p_ in kws:
                        args.append(kws.pop(p_))
                    else:
                        break
                order = {n: i for i, n in enumerate(list(pos) + list(kwonly))}
                node.args = args
                node.keywords = [ast.keyword(arg=k, value=v) for k, v in sorted(kws.items(), key=lambda kv: order.get(kv[0], 99))]
                return node
        return [L().visit(s) for s in stmts]

    def body(self, fn: ast.FunctionDef, module, cls=None, inline=(), keep=(), subst=True, accessors=False, supers=False) -> list[ast.stmt]:
        """accessors=True: read-only one-line methods called on typed parameters / locals are seen through as well
        (`hugr.num_out_ports(n)` is `hugr[n]._num_outs`): for rules that compare what is read, not how it is spelled"""
        key = (id(fn), id(cls), tuple(sorted(inline)), tuple(sorted(keep)), subst, accessors, supers)
        if key in self.cache and fn.name != "_module_level_":       # (synthetic functions are short-lived: their id can be reused)
            return self.cache[key]
        self._cur_cls = cls
        _ENUM_MEMBERS.clear()
        for cn_, c_ in module.classes.items():
            if cn_.startswith("_") and f"class:{cn_}" not in known_defs() and any(u(b_).split(".")[-1] in ("Enum", "IntEnum", "StrEnum") for b_ in c_.node.bases):
                mem_ = [k_ for k_, v_ in c_.class_assigns.items() if not k_.startswith("_") and not isinstance(v_, ast.Lambda)]
                if mem_ and not any(isinstance(n, ast.Assign) and any(isinstance(t, ast.Name) and t.id == "_ignore_" for t in n.targets) for n in c_.node.body):
                    _ENUM_MEMBERS[cn_] = mem_
        fn_u = self.undecorated(fn, module, cls)
        b = [copy.deepcopy(s) for s in real_body(fn_u)]
        if fn_u is not fn:
            fn = fn_u
        b = strip_annotations(b)
        b = norm.rename_param_rebinds(b)
        b = norm.multimap_idioms(b)
        b = norm.merge_display_building(b)
        b = self._inline_unknown_constants(b, module, fn)
        b = self._inline_class_constants(b, cls)
        b = norm.merge_display_building(norm.unroll_literal_loops(b))
        b = _callee_locals(b)
        b = [_PairTargets().visit(s_) for s_ in b]
        b = [ast.fix_missing_locations(_ExprNorm().visit(s_)) for s_ in b]         # expression idioms first (map(f, xs), applied lambdas of table rows): helpers in them are then seen
        # nested function definitions that get inlined are dropped afterwards
        b = lower_matches(b, self._match_args(module, fn))
        b = norm.lower_conditional_with(b)
        b = lift_ifexp(b)
        b = lift_walrus(b)
        b = norm.first_match_to_next(b)
        b = norm.try_lookup_to_get(b)
        b = self.match_object_indexing(b)
        b = self.mapping_mixins(b, module, cls)
        b = norm.lower_reduce(b)
        b = self.explicit_base_init(b, module, cls)
        b = self.helper_object_views(b, module, cls)
        b = self.fold_own_bodies(b, module, cls, fn, early=True)
        b = self.sink_selected_tail(norm.split_parallel_assign(b))
        b = self.inline_callable_aliases(b, module, fn)      # push = heapq.heappush / add = self.add_node: the callable, written where it is called
        look = self._lookup(module, cls, fn, set(inline), set(keep), accessors, supers)
        from .genloop import inline_generator_loops, inline_guard_helpers
        b = inline_generator_loops(b, look)       # loops over unknown generator helpers: the helper's loop with the body at its yield
        b = inline_guard_helpers(b, look)         # if not helper(..): raise ..  with a boolean helper that returns from inside a loop
        b = inline_generator_loops(b, look)       # (.. whose own loop may run over a generator helper)
        look.context = b
        b = lift_walrus(lift_ifexp(b))
        b, look = self._sroa(b, module, look)
        inl = Inliner(look)
        b = inl.tail_generator_delegation(b, (fn.name,))
        b = inl.rec(b, inl.depth, (fn.name,))
        b = [x for x in (_StripAnn().visit(s_) for s_ in b) if not isinstance(x, ast.Pass)] or b      # (bare declarations of inlined helpers)
        # a loop over generator helpers that only appeared when a driver (`_carry_out(steps)`) was inlined
        if any(isinstance(n, ast.For) and isinstance(n.iter, (ast.Call, ast.Name)) for s_ in b for n in ast.walk(s_)):
            b_g = inline_generator_loops([copy.deepcopy(x) for x in b], look)
            if ast.dump(ast.Module(body=b_g, type_ignores=[])) != ast.dump(ast.Module(body=b, type_ignores=[])):
                b = inl.rec(lift_walrus(lift_ifexp(b_g)), inl.depth, (fn.name,))
        b = self.run_on_fresh_records(b, module)
        b = self.sink_selected_tail(b)          # (a callable picked per arm by an inlined helper)
        # helper objects that only appeared when a helper was inlined (`self._left()` -> `_Half(self.fwd, self.bck)`): named, taken apart
        if any(isinstance(n, ast.Attribute) and isinstance(n.value, ast.Call) and isinstance(n.value.func, ast.Name) and n.value.func.id.startswith("_")
               and n.value.func.id in module.classes for s_ in b for n in ast.walk(s_)):
            b = self.name_helper_receivers(b, module)          # (rewrites in place: its result is the body from here on)
            b, look1 = self._sroa(b, module, look)
            if look1 is not look:
                inl1 = Inliner(look1)
                b = inl1.rec(b, inl1.depth, (fn.name,))
                b = [x for x in (_StripAnn().visit(s_) for s_ in b) if not isinstance(x, ast.Pass)] or b
        b2 = inl.tail_generator_delegation(b, (fn.name,))      # .. reached through a plain helper that was just inlined
        if b2 is not b:
            b = inl.rec(lift_walrus(lift_ifexp(b2)), inl.depth, (fn.name,))
        b = self._inline_unknown_constants(b, module, fn)      # .. those read by the helpers that were just inlined
        b = [ast.fix_missing_locations(_FoldConst().visit(s_)) for s_ in self._inline_class_constants(b, cls)]
        b = self._fold_constant_lengths(b, module, fn)
        if any(isinstance(n, ast.Call) and isinstance(n.func, ast.Subscript) and isinstance(n.func.value, ast.Dict) for s_ in b for n in ast.walk(s_)):
            # a dispatch table that was just written in: the chain of conditional calls, each arm's helper then seen through
            b_t = lift_walrus(lift_ifexp([ast.fix_missing_locations(_ExprNorm().visit(copy.deepcopy(s_))) for s_ in b]))
            b = inl.rec(b_t, inl.depth, (fn.name,))
            b = [x for x in (_StripAnn().visit(s_) for s_ in b) if not isinstance(x, ast.Pass)] or b
        b = norm.merge_display_building(b)
        b = self.sink_record_tail(b, module)
        b = self._project_helper_objects(b, module)
        b = self._project_records_multi(b, module)
        from .iterlow import lower_iter_pipelines, rotate_loops
        b = lower_iter_pipelines(b)          # itertools pipelines over count() as counting loops
        b_l = lift_walrus(lift_ifexp([copy.deepcopy(x) for x in b]))          # conditional expressions returned by inlined helpers
        if ast.dump(ast.Module(body=b_l, type_ignores=[])) != ast.dump(ast.Module(body=b, type_ignores=[])):
            b = inl.rec(b_l, inl.depth, (fn.name,))       # (helpers called in the arms that only now stand on their own)
            b = [x for x in (_StripAnn().visit(s_) for s_ in b) if not isinstance(x, ast.Pass)] or b
        used = {n.id for s in b for n in ast.walk(s) if isinstance(n, ast.Name)} | {n.func.id for s in b for n in ast.walk(s) if isinstance(n, ast.Call) and isinstance(n.func, ast.Name)}
        b = [s for s in b if not (isinstance(s, ast.FunctionDef) and s.name not in used)]
        b = [ast.fix_missing_locations(_FoldConst().visit(s_)) for s_ in norm.unroll_literal_loops(inline_table_locals(b))]      # (rows of a table written in for the loop variable)
        b = lift_ifexp(split_dict_locals(b))
        b = norm.map_pushdown(norm.extend_to_augassign(b), pure_calls=_PURE_EXT)
        b = norm.split_parallel_assign(norm.merge_display_building(b))
        b = norm.default_then_override(b)
        b = self.expand_replace(b, module)
        b = self.sroa_value_records(b, module)
        b = norm.thread_none_flags(b)           # a decision recorded in `v is None` and asked again straight afterwards
        b = self.thread_record_flags(b, module, cls)
        b = self.sink_record_tail(b, module)         # (a tail left over once the `is None` arm went into its branch)
        b = lift_ifexp(self._project_helper_objects(b, module))      # (a record filed in each branch, read by the arm that was moved there)
        b = norm.fold_none_tests(b)             # `if count is not None` on a count a helper just computed
        b_s = self.thread_sentinels([copy.deepcopy(x) for x in b], module)
        if ast.dump(ast.Module(body=b_s, type_ignores=[])) != ast.dump(ast.Module(body=b, type_ignores=[])):
            b_s = self.records_out_of_try(b_s, module)
            b = lift_ifexp(self._project_helper_objects(self.sroa_value_records(b_s, module), module))      # (a record filed by the try and read after it)
        b = self.fold_enum_tests(b, module)
        b = norm.thread_const_flags(b, self._enum_member_key)      # a verdict filed as a constant / enum member and asked again straight afterwards
        b = self.call_layout(b, module, cls)
        b = polarity(b)
        b = or_default(b)
        b = nest_tails(b)
        b = strip_tail_continue(b)
        b = strip_tail_return(b)
        b = rotate_loops(b, _PURE_EXT)
        b = norm.normalise_loops(b)
        from .nf import _generator_to_genexp
        b = _generator_to_genexp(b)
        b = self.keys_to_items(b, module, cls)
        b = expr_norm(b)
        if not subst:
            b = norm.fuse_for_over_comp(b, pure_calls=_PURE_EXT)        # loops over a generator expression (an inlined generator helper)
        if subst:
            b = norm.forward_subst(b, pure_calls=_PURE_EXT)
            b = _drop_dead_temps(b)
            b = norm.default_then_override(b)
            b = norm.drop_loops_over_falsy(b)
            b = norm.split_parallel_assign(b)          # a, b = rows   with rows a display that was just written in
            b = subst_single_use(b)
            b2 = norm.split_parallel_assign(b)
            if len(b2) != len(b) or any(x is not y for x, y in zip(b2, b)):
                b = subst_single_use(_drop_dead_temps(norm.forward_subst(b2, pure_calls=_PURE_EXT)))
            b = norm.forward_subst(b, pure_calls=_PURE_EXT)
            b = _drop_dead_temps(b)
            b3 = lower_iter_pipelines(b)          # (a pipeline held in a single-use local, now written where it is consumed)
            if b3 is not b and len(b3) != len(b):
                b = _drop_dead_temps(norm.forward_subst(rotate_loops(polarity(b3), _PURE_EXT), pure_calls=_PURE_EXT))
            b = norm.normalise_loops(b)
            b2 = norm.unroll_literal_loops(norm.fuse_for_over_comp(b, pure_calls=_PURE_EXT))
            b2 = [ast.fix_missing_locations(_FoldConst().visit(s_)) for s_ in b2]
            if ast.dump(ast.Module(body=b2, type_ignores=[])) != ast.dump(ast.Module(body=b, type_ignores=[])):
                b2 = self._project_nested(b2, module)       # records a comprehension built for the loop (now bound per iteration)
                b = _drop_dead_temps(norm.forward_subst(b2, pure_calls=_PURE_EXT))
        if subst:
            b = _drop_dead_temps(b)
        # records built in every branch and taken apart by a second pass over them (a method split into "describe" and "emit"): judged
        # on the substituted body in both modes (the summaries substitute anyway)
        if any(isinstance(n, ast.Call) and isinstance(n.func, ast.Name) and n.func.id.startswith("_") and n.func.id in module.classes
               and f"class:{n.func.id}" not in known_defs() for s_ in b for n in ast.walk(s_)):
            if subst:
                b0 = b
            else:
                b0 = _drop_dead_temps(norm.forward_subst([copy.deepcopy(x) for x in b], pure_calls=_PURE_EXT))
                b0 = _drop_dead_temps(norm.forward_subst(subst_single_use(norm.split_parallel_assign(b0)), pure_calls=_PURE_EXT))
                b0 = expr_norm(norm.normalise_loops(b0))
            b4 = self.thread_record_flags([copy.deepcopy(x) for x in b0], module, cls)
            b4 = self.fuse_producer_consumer(b4, module, cls, fn)
            if ast.dump(ast.Module(body=b4, type_ignores=[])) != ast.dump(ast.Module(body=b0, type_ignores=[])):
                b4 = lift_ifexp(self._project_helper_objects(b4, module))
                b4 = self._project_nested(b4, module)
                b4 = self.fuse_eager_loops(b4, module, cls, fn)
                b = _drop_dead_temps(norm.forward_subst(subst_single_use(b4), pure_calls=_PURE_EXT))
        b = self.fold_own_bodies(b, module, cls, fn)
        b = polarity(fold_constant_ifs(expr_norm(b)))          # (expression idioms may have produced `not all(..)` tests)
        b = self.sink_selected_tail(lift_ifexp(b))
        for s in b:
            ast.fix_missing_locations(s)
        # helpers the tables do not know that only became visible at the end (a loop fused late, a table unrolled late): once more
        if getattr(self, "_extra_passes", 0) < 2 and fn.name != "_module_level_":
            left = [n for s_ in b for n in ast.walk(s_) if isinstance(n, ast.Call)]
            if any(look(n) is not None for n in left):
                f2 = copy.copy(fn)
                f2.body = [copy.deepcopy(x) for x in b]
                f2.decorator_list = []
                self._keepalive.append(f2)
                self._extra_passes = getattr(self, "_extra_passes", 0) + 1
                try:
                    b2 = self.body(f2, module, cls, inline=inline, keep=keep, subst=subst, accessors=accessors, supers=supers)
                finally:
                    self._extra_passes -= 1
                b = b2
        if fn.name != "_module_level_":
            self.cache[key] = b
            self._keepalive.append(fn)      # ids are cache keys: the function objects must outlive the cache
        return b

    def module_expr(self, module, expr: ast.expr, **kw) -> ast.expr:
        """canonical form of a module-level expression (as the value returned by a function of that module)"""
        f = ast.FunctionDef(name="_module_level_", args=ast.arguments(posonlyargs=[], args=[], vararg=None, kwonlyargs=[], kw_defaults=[], kwarg=None, defaults=[]),
                            body=[ast.Return(value=copy.deepcopy(expr))], decorator_list=[], returns=None, type_comment=None, type_params=[])
        ast.copy_location(f, expr)
        ast.fix_missing_locations(f)
        b = self.body(f, module, None, **kw)
        if len(b) == 1 and isinstance(b[0], ast.Return) and b[0].value is not None:
            return b[0].value
        raise NoCanon("module-level expression did not stay an expression")

    def fn(self, fn, module, cls=None, **kw) -> ast.FunctionDef:
        """a FunctionDef with the canonical body (same name / args)"""
        f2 = copy.copy(self.undecorated(fn, module, cls))
        f2.body = self.body(fn, module, cls, **kw) or [ast.Pass()]
        return f2

    def text(self, fn, module, cls=None, **kw) -> str:
        return "\n".join(ast.unparse(s) for s in self.body(fn, module, cls, **kw))


def _sig_of(f: ast.FunctionDef, skip_first: bool):
    a = f.args
    pos = [x.arg for x in a.posonlyargs + a.args]
    if skip_first and pos:
        pos = pos[1:]
    return (tuple(pos), tuple(x.arg for x in a.kwonlyargs))


class _PureExt:
    """membership oracle handed to norm.is_pure: constructor-like callees count as pure"""
    def __contains__(self, name):
        # (private classes too: _IndexArg(..), _Row(..))
        return bool(name) and (name.lstrip("_")[:1].isupper() or name in ("partial", "attrgetter", "itemgetter", "methodcaller"))


_PURE_EXT = _PureExt()


def _drop_dead_temps(stmts):
    """remove `x = <pure>` when x is no longer read anywhere (it was substituted away)"""
    def reads(name):
        return _reads(stmts, name)

    def rec(block):
        out = []
        for s in block:
            if isinstance(s, (ast.Assign, ast.AnnAssign)) and s.value is not None:
                t = s.targets[0] if isinstance(s, ast.Assign) and len(s.targets) == 1 else (s.target if isinstance(s, ast.AnnAssign) else None)
                if isinstance(t, ast.Name) and reads(t.id) == 0 and is_pure_ext(s.value):
                    continue
                if isinstance(t, ast.Tuple) and all(isinstance(e, ast.Name) and reads(e.id) == 0 for e in t.elts) and is_pure_ext(s.value) \
                        and isinstance(s.value, ast.Tuple):
                    continue
            _recurse_blocks(s, rec)
            for fld in ("body",):
                if isinstance(getattr(s, fld, None), list) and not getattr(s, fld) and isinstance(s, (ast.If, ast.For, ast.While, ast.With, ast.Try)):
                    setattr(s, fld, [ast.Pass()])
            if isinstance(s, ast.Try):
                for h in s.handlers:
                    if not h.body:
                        h.body = [ast.Pass()]
            out.append(s)
        return out
    return rec(stmts)
