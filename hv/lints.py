"""Repository-specific deviance lints that several properties arm on their anchor files.

* truthiness_on_optional: a value whose static type is `X | None` with X falsy-able (int, str, list, dict, set, tuple,
  TypeRow, ExtensionSet, ...) is tested by truthiness where presence (`is None`) is meant: the legitimate falsy value
  (0, [], "", {}) is then treated as absent.  The idiom `x or <empty literal of the same kind>` is accepted (it maps the
  falsy value to an equal one).
* iterable_param_reuse: a parameter annotated Iterable / Iterator / Generator is consumed more than once.
"""
from __future__ import annotations

import ast

from .model import real_body, Class, Module, Program, u

FALSY_ABLE = {"int", "float", "str", "bytes", "list", "dict", "set", "tuple", "frozenset", "TypeRow", "ExtensionSet", "PortOffset", "NodeIdx", "bool"}


def _optional_falsy(ann: ast.expr | None) -> str | None:
    """annotation is `X | None` (or Optional[X]) with X falsy-able -> name of X"""
    if ann is None:
        return None
    if isinstance(ann, ast.Constant) and isinstance(ann.value, str):
        try:
            ann = ast.parse(ann.value, mode="eval").body
        except SyntaxError:
            return None
    parts = []

    def flat(e):
        if isinstance(e, ast.BinOp) and isinstance(e.op, ast.BitOr):
            flat(e.left)
            flat(e.right)
        elif isinstance(e, ast.Subscript) and u(e.value).split(".")[-1] == "Optional":
            flat(e.slice)
            parts.append("None")
        else:
            parts.append(u(e))
    flat(ann)
    if "None" not in parts:
        return None
    rest = [p for p in parts if p != "None"]
    for p in rest:
        head = p.split("[")[0].split(".")[-1]
        if head in FALSY_ABLE:
            return p
    return None


def _field_optionals(prog: Program) -> dict[str, str]:
    """attribute name -> falsy-able payload type, when EVERY class of the package declaring that field declares it so"""
    seen: dict[str, list[str | None]] = {}
    for c in prog.all_classes():
        for f in c.fields:
            seen.setdefault(f.name, []).append(_optional_falsy(f.node.annotation))
    return {k: v[0] for k, v in seen.items() if all(x is not None for x in v)}


def _returns_optional(prog: Program, mod: Module, cls: Class | None, call: ast.Call) -> str | None:
    f = call.func
    fn = None
    if isinstance(f, ast.Attribute) and isinstance(f.value, ast.Name) and f.value.id in ("self", "cls", "hugr") and cls is not None:
        k, fn = cls.find_method(f.attr)
    elif isinstance(f, ast.Attribute):
        # method of the Hugr class called through another receiver (hugr._order_port_offset(...))
        for c in prog.all_classes():
            if c.name == "Hugr" and f.attr in c.methods:
                fn = c.methods[f.attr]
    elif isinstance(f, ast.Name):
        r = mod.resolve(f)
        if isinstance(r, ast.FunctionDef):
            fn = r
    if fn is not None:
        return _optional_falsy(fn.returns)
    return None


def truthiness_on_optional(ctx, rule: str, modules: list[str], what: str = "", only=None) -> int:
    prog = ctx.program
    fields = _field_optionals(prog)
    n = 0
    for mn in modules:
        m = prog.module(mn)
        scopes = [(c, fn) for c in m.classes.values() for fn in c.methods.values()] + [(None, fn) for fn in m.functions.values()]
        for cls, fn in scopes:
            if only is not None and not only(mn, cls.name if cls else "", fn.name):
                continue
            # static types of locals / params in this function
            ty: dict[str, str] = {}
            for a in fn.args.args + fn.args.kwonlyargs + fn.args.posonlyargs:
                t = _optional_falsy(a.annotation)
                if t:
                    ty[a.arg] = t
            for s in ast.walk(fn):
                if isinstance(s, ast.AnnAssign) and isinstance(s.target, ast.Name):
                    t = _optional_falsy(s.annotation)
                    if t:
                        ty[s.target.id] = t
                if isinstance(s, ast.Assign) and len(s.targets) == 1 and isinstance(s.targets[0], ast.Name) and isinstance(s.value, ast.Call):
                    t = _returns_optional(prog, m, cls, s.value)
                    if t:
                        ty[s.targets[0].id] = t
                if isinstance(s, ast.Assign) and len(s.targets) == 1 and isinstance(s.targets[0], ast.Name) and isinstance(s.value, ast.Attribute) \
                        and s.value.attr in fields:
                    ty[s.targets[0].id] = fields[s.value.attr]           # a local alias of an optional field
                if isinstance(s, ast.NamedExpr) and isinstance(s.value, ast.Attribute) and s.value.attr in fields:
                    ty[s.target.id] = fields[s.value.attr]
                if isinstance(s, ast.NamedExpr) and isinstance(s.value, ast.Call):
                    t = _returns_optional(prog, m, cls, s.value)
                    if t:
                        ty[s.target.id] = t
            # a name re-assigned from a non-optional expression later loses the property only if ALL assignments are so; keep simple:
            def opt_type(e) -> str | None:
                if isinstance(e, ast.Name) and e.id in ty:
                    # narrowed by an earlier `x = x or default`?
                    return ty[e.id]
                if isinstance(e, ast.Attribute) and e.attr in fields:
                    return fields[e.attr]
                return None

            def tests_of(node):
                """expressions evaluated for truthiness inside `node`"""
                out = []
                if isinstance(node, (ast.If, ast.While, ast.IfExp, ast.Assert)):
                    out.append(node.test)
                if isinstance(node, ast.comprehension):
                    out += node.ifs
                res = []
                for t in out:
                    res += _truth_leaves(t)
                return res

            narrowed: set[str] = set()
            for s in ast.walk(fn):
                if isinstance(s, ast.Assign) and len(s.targets) == 1 and isinstance(s.targets[0], ast.Name) and isinstance(s.value, ast.BoolOp) \
                        and isinstance(s.value.op, ast.Or) and isinstance(s.value.values[0], ast.Name) and s.value.values[0].id == s.targets[0].id:
                    narrowed.add(s.targets[0].id)      # x = x or default  (accepted idiom, x is no longer optional below)
            for node in ast.walk(fn):
                for leaf in tests_of(node):
                    t = opt_type(leaf)
                    if t is None or (isinstance(leaf, ast.Name) and leaf.id in narrowed):
                        continue
                    n += 1
                    ctx.fail(rule, f"{mn}.{cls.name + '.' if cls else ''}{fn.name}: truthiness of `{u(leaf)}`", m.path, leaf.lineno,
                             f"`{u(leaf)}` has type {t} | None and is tested by truthiness: the legitimate falsy value ({_falsy_example(t)}) is treated like None"
                             + (f" -- {what}" if what else ""), node if not isinstance(node, ast.comprehension) else leaf)
                # `x or d` where d is not an equal empty value
                if isinstance(node, ast.BoolOp) and isinstance(node.op, ast.Or) and len(node.values) == 2:
                    a, b = node.values
                    t = opt_type(a)
                    if t and not _is_empty_of(b, t) and not (isinstance(b, ast.Call) and not b.args and u(b.func).split(".")[-1] in ("ExtensionSet", "ConfigDict", "list", "dict", "set")):
                        if t.split("[")[0] in ("int", "float", "PortOffset", "NodeIdx", "bool") or not _is_emptyish(b):
                            n += 1
                            ctx.fail(rule, f"{mn}.{cls.name + '.' if cls else ''}{fn.name}: `{u(node)}`", m.path, node.lineno,
                                     f"`{u(a)}` has type {t} | None: `or` replaces the legitimate falsy value ({_falsy_example(t)}) by `{u(b)}`", node)
    return n


def _truth_leaves(t) -> list[ast.expr]:
    """sub-expressions of a test whose *truthiness* decides it (through not / and / or)"""
    if isinstance(t, ast.UnaryOp) and isinstance(t.op, ast.Not):
        return _truth_leaves(t.operand)
    if isinstance(t, ast.BoolOp):
        out = []
        for v in t.values:
            out += _truth_leaves(v)
        return out
    if isinstance(t, (ast.Name, ast.Attribute)):
        return [t]
    if isinstance(t, ast.NamedExpr):
        return [t.target] if isinstance(t.target, ast.Name) else []
    return []


def _falsy_example(t: str) -> str:
    h = t.split("[")[0].split(".")[-1]
    return {"int": "0", "PortOffset": "0", "NodeIdx": "0", "float": "0.0", "str": "''", "list": "[]", "TypeRow": "an empty row []", "ExtensionSet": "[]",
            "dict": "{}", "set": "set()", "tuple": "()", "bool": "False"}.get(h, "an empty value")


def _is_empty_of(e, t: str) -> bool:
    h = t.split("[")[0].split(".")[-1]
    if isinstance(e, ast.List) and not e.elts:
        return h in ("list", "TypeRow", "ExtensionSet")
    if isinstance(e, ast.Dict) and not e.keys:
        return h == "dict"
    if isinstance(e, ast.Constant):
        return (h == "str" and e.value == "") or (h in ("int", "PortOffset", "NodeIdx") and e.value == 0 and e.value is not False)
    if isinstance(e, ast.Tuple) and not e.elts:
        return h == "tuple"
    return False


def _is_emptyish(e) -> bool:
    return (isinstance(e, (ast.List, ast.Tuple)) and not e.elts) or (isinstance(e, ast.Dict) and not e.keys)


ITER_ANN = ("Iterable", "Iterator", "Generator")


def iterable_param_reuse(ctx, rule: str, modules: list[str], only=None) -> int:
    """a parameter annotated Iterable/Iterator may be a one-shot iterator: consuming it twice sees it exhausted"""
    prog = ctx.program
    n = 0
    for mn in modules:
        m = prog.module(mn)
        from .canon import known_defs
        known = known_defs()
        owners = {}
        for c in m.classes.values():
            for f_ in c.methods.values():
                owners[id(f_)] = c
        for fn in [x for x in ast.walk(m.tree) if isinstance(x, ast.FunctionDef)]:
            if only is not None and not only(mn, "", fn.name):
                continue
            cls_ = owners.get(id(fn))
            # a private helper the tables do not know is judged where it is called: canonical bodies see through it with its arguments
            if fn.name.startswith("_") and not fn.name.startswith("__"):
                if cls_ is not None and ctx.canon.unknown_helper(cls_, fn.name):
                    continue
                if cls_ is None and fn.name in m.functions and m.functions[fn.name] is fn and f"fn:{fn.name}" not in known:
                    continue
            body_fn = fn
            if cls_ is not None or (fn.name in m.functions and m.functions[fn.name] is fn):
                try:
                    body_fn = ctx.canon.fn(fn, m, cls_)      # temporaries substituted, unknown helpers inlined: mentions are the evaluations
                except Exception:
                    body_fn = fn
            for a in fn.args.args + fn.args.kwonlyargs:
                if a.annotation is None or u(a.annotation).split("[")[0].split(".")[-1] not in ITER_ANN:
                    continue
                uses = [x for x in ast.walk(body_fn) if isinstance(x, ast.Name) and x.id == a.arg and isinstance(x.ctx, ast.Load)]
                rebinding = [s for s in ast.walk(body_fn) if isinstance(s, ast.Assign) and any(isinstance(t, ast.Name) and t.id == a.arg for t in s.targets)]
                n += 1
                if len(uses) > 1 and not rebinding:
                    ctx.fail(rule, f"{mn}.{fn.name}: iterable parameter `{a.arg}` consumed {len(uses)} times", m.path, getattr(uses[1], "lineno", fn.lineno),
                             f"`{a.arg}` is annotated {u(a.annotation)} and is consumed at lines {[getattr(x, 'lineno', 0) for x in uses]}: for a generator / iterator argument "
                             "the second consumer sees it exhausted, so the two results disagree", fn)
                else:
                    ctx.ok(rule, f"{mn}.{fn.name}: iterable parameter `{a.arg}`", "consumed once")
    return n


MUTABLE_CTORS = {"dict", "list", "set", "defaultdict", "OrderedDict", "Counter", "deque", "bytearray"}
MUTATORS = {"append", "extend", "insert", "add", "update", "setdefault", "pop", "popitem", "clear", "remove", "discard", "appendleft", "sort", "reverse"}
MEMO_DECORATORS = {"cached_property", "lru_cache", "cache"}


def _mutable_display(v) -> bool:
    if isinstance(v, (ast.Dict, ast.List, ast.Set, ast.ListComp, ast.DictComp, ast.SetComp)):
        return True
    return isinstance(v, ast.Call) and u(v.func).split(".")[-1] in MUTABLE_CTORS


def _self_attr_mutations(fn, selfname: str) -> dict[str, ast.AST]:
    """attribute -> first statement mutating `self.<attr>` in place"""
    out: dict[str, ast.AST] = {}

    def is_self_attr(e):
        return isinstance(e, ast.Attribute) and isinstance(e.value, ast.Name) and e.value.id == selfname
    for n in ast.walk(fn):
        tgts = []
        if isinstance(n, ast.Assign):
            tgts = n.targets
        elif isinstance(n, (ast.AugAssign, ast.AnnAssign)):
            tgts = [n.target]
        elif isinstance(n, ast.Delete):
            tgts = n.targets
        for t in tgts:
            if isinstance(t, ast.Subscript) and is_self_attr(t.value):
                out.setdefault(t.value.attr, n)
            if isinstance(n, ast.AugAssign) and is_self_attr(t):
                out.setdefault(t.attr, n)       # `self.x += [..]` mutates the shared list in place
        if isinstance(n, ast.Call) and isinstance(n.func, ast.Attribute) and n.func.attr in MUTATORS and is_self_attr(n.func.value):
            out.setdefault(n.func.value.attr, n)
    return out


def shared_class_state(ctx, rule: str, modules: list[str]) -> int:
    """a mutable container bound in a class body is one object shared by all instances: if methods fill it through `self` and no
    method gives each instance its own, what one instance records shows up in every other"""
    prog = ctx.program
    n = 0
    for mn in modules:
        m = prog.module(mn)
        for c in m.classes.values():
            names = c.base_names()
            if c.is_dataclass or names & {"BaseModel", "ConfiguredBaseModel", "Enum", "Protocol", "TypedDict", "NamedTuple"}:
                continue        # dataclasses reject mutable defaults, pydantic copies them
            cand: dict[str, ast.AST] = {k: v for k, v in c.class_assigns.items() if _mutable_display(v)}
            for f in c.fields:
                if f.node.value is not None and _mutable_display(f.node.value) and "ClassVar" not in u(f.node.annotation):
                    cand[f.name] = f.node.value
            if not cand:
                continue
            rebound: set[str] = set()
            mutated: dict[str, tuple[str, ast.AST]] = {}
            for k in c.mro:
                for name, fn in k.methods.items():
                    if not fn.args.args:
                        continue
                    sn = fn.args.args[0].arg
                    for x in ast.walk(fn):
                        if isinstance(x, (ast.Assign, ast.AnnAssign)):
                            for t in (x.targets if isinstance(x, ast.Assign) else [x.target]):
                                if isinstance(t, ast.Attribute) and isinstance(t.value, ast.Name) and t.value.id == sn:
                                    rebound.add(t.attr)
                    for a, st in _self_attr_mutations(fn, sn).items():
                        mutated.setdefault(a, (name, st))
            for a, v in cand.items():
                n += 1
                if a in mutated and a not in rebound:
                    who, st = mutated[a]
                    ctx.fail(rule, f"{c.qualname}.{a}: container shared by all instances", m.path, getattr(st, "lineno", c.node.lineno),
                             f"`{a} = {u(v)[:40]}` in the class body is a single object; `{who}` fills it through self and no method rebinds it per "
                             f"instance, so every {c.name} sees what every other one recorded", st)
                else:
                    ctx.ok(rule, f"{c.qualname}.{a}", "class-level container not filled through self" if a not in mutated else "rebound per instance")
    return n


def memo_on_mutable(ctx, rule: str, modules: list[str]) -> int:
    """a memoised attribute computed from fields that can be reassigned keeps answering for the old field values"""
    prog = ctx.program
    n = 0
    for mn in modules:
        m = prog.module(mn)
        for c in m.classes.values():
            for name, fn in c.methods.items():
                decos = {u(d.func if isinstance(d, ast.Call) else d).split(".")[-1] for d in fn.decorator_list}
                if not decos & MEMO_DECORATORS or not fn.args.args:
                    continue
                n += 1
                sn = fn.args.args[0].arg
                settable = {}
                for k in c.mro:
                    if k.is_dataclass and not k.dataclass_kwargs.get("frozen"):
                        for f in k.fields:
                            if not f.classvar:
                                settable[f.name] = k
                reads = [x for x in ast.walk(fn) if isinstance(x, ast.Attribute) and isinstance(x.value, ast.Name) and x.value.id == sn and x.attr in settable]
                if reads:
                    ctx.fail(rule, f"{c.qualname}.{name}: memoised over reassignable fields", m.path, reads[0].lineno,
                             f"`{name}` is computed once per object from `self.{reads[0].attr}`, a field of the non-frozen dataclass "
                             f"{settable[reads[0].attr].name}: after the field is reassigned the memo still answers for the old value", fn)
                else:
                    ctx.ok(rule, f"{c.qualname}.{name}", "memo reads no reassignable field directly")
        # a memoised function (or method) that hands out a newly built MUTABLE object: every caller gets the same object, so a change
        # made through one of them shows in all
        from .model import Class
        for fn in [x for x in ast.walk(m.tree) if isinstance(x, (ast.FunctionDef, ast.AsyncFunctionDef))]:
            decos = {u(d.func if isinstance(d, ast.Call) else d).split(".")[-1] for d in fn.decorator_list}
            if not decos & (MEMO_DECORATORS | {"cache", "lru_cache"}) or decos & {"property", "cached_property"}:
                continue
            n += 1
            shared = None
            for r in [x for x in ast.walk(fn) if isinstance(x, ast.Return) and x.value is not None]:
                v = r.value
                if isinstance(v, (ast.List, ast.Dict, ast.Set, ast.ListComp, ast.DictComp, ast.SetComp)):
                    shared = (r, "a new container")
                elif isinstance(v, ast.Call):
                    try:
                        k = m.resolve(v.func) if isinstance(v.func, (ast.Name, ast.Attribute)) else None
                    except Exception:
                        k = None
                    if isinstance(k, Class) and k.is_dataclass and not any(b_.dataclass_kwargs.get("frozen") for b_ in k.mro if b_.is_dataclass):
                        shared = (r, f"a new {k.name} (a dataclass whose fields can be reassigned)")
                    elif isinstance(v.func, ast.Name) and v.func.id in ("list", "dict", "set", "bytearray"):
                        shared = (r, "a new container")
            if shared is not None:
                ctx.fail(rule, f"{mn}.{fn.name}: memoised constructor of a mutable object", m.path, shared[0].lineno,
                         f"`{fn.name}` is memoised and returns {shared[1]}: all callers share ONE object, so changing it through one holder changes it for "
                         "every other holder (and for every later call)", fn)
            else:
                ctx.ok(rule, f"{mn}.{fn.name}", "memoised function hands out no new mutable object")
    return n


def identity_of_values(ctx, rule: str, modules: list[str], only=None) -> int:
    """`a is b` between two values (neither None / True / False / ... / a sentinel constant / a class): handles such as Node, ports, ops and
    types are value objects that are freely re-created, so identity says less than the `==` the rest of the package uses"""
    prog = ctx.program
    n = 0

    def exempt(e):
        if isinstance(e, ast.Constant) and (e.value is None or isinstance(e.value, bool) or e.value is Ellipsis):
            return True
        name = e.id if isinstance(e, ast.Name) else (e.attr if isinstance(e, ast.Attribute) else None)
        if name and (name.isupper() or name.lstrip("_")[:1].isupper()):
            return True             # sentinel constants (_MISSING), classes and enum members
        return isinstance(e, ast.Call) and u(e.func) in ("type", "object")
    for mn in modules:
        m = prog.module(mn)
        for fn in [x for x in ast.walk(m.tree) if isinstance(x, (ast.FunctionDef, ast.AsyncFunctionDef))]:
            if only is not None and not only(mn, "", fn.name):
                continue
            for c in [x for x in ast.walk(fn) if isinstance(x, ast.Compare) and any(isinstance(o, (ast.Is, ast.IsNot)) for o in x.ops)]:
                sides = [c.left] + list(c.comparators)
                n += 1
                if not any(exempt(s_) for s_ in sides):
                    ctx.fail(rule, f"{mn}.{fn.name}: identity comparison `{u(c)[:60]}`", m.path, c.lineno,
                             f"`{u(c)}` compares object identity of two values: an equal handle / value that is another object (re-created from an "
                             "index, taken from an iteration, copied) is treated as different", c)
    return n


SER = {"_to_serial", "_from_serial", "_constrain_offset", "_deserialize_offset", "_order_port_offset", "_hierarchy_order", "to_json", "load_json",
       "get_meta", "_serialize_node", "_serialize_link"}
NOT_STORE = SER | {"resolve_extensions", "to_model", "render_dot", "store_dot"}
ALL = None   # every function of the module

# property -> {module: set of function names (None = all)}: the functions whose behaviour the property is about
ANCHORS: dict[str, dict[str, set | None]] = {
    "C01": {"hugr.build.dfg": ALL, "hugr.build.cfg": ALL, "hugr.build.cond_loop": ALL, "hugr.build.function": ALL, "hugr.build.tracked_dfg": ALL,
            "hugr.hugr.base": {"_constrain_offset", "_order_port_offset", "add_order_link"},
            # (constants the builders load: a sum / tuple value built from a one-shot iterable must still inhabit its type)
            "hugr.val": {"__init__"}, "hugr.tys": {"__init__"}},
    "C02": {"hugr.hugr.base": SER, "hugr._serialization.serial_hugr": ALL, "hugr._serialization.ops": ALL, "hugr._serialization.tys": ALL,
            "hugr.ops": {"_to_serial"}, "hugr.tys": {"_to_serial", "_to_serial_root", "_to_opaque"}, "hugr.val": {"_to_serial", "_to_serial_root"},
            "hugr.utils": {"ser_it", "deser_it"}},
    "C03": {"hugr.hugr.base": {"_to_serial", "_constrain_offset", "_order_port_offset", "_hierarchy_order", "to_json", "_serialize_node", "_serialize_link"},
            "hugr.package": {"_to_serial", "to_json"}, "hugr.envelope": {"make_envelope", "make_envelope_str"}, "hugr.ext": {"_to_serial", "to_json"},
            "hugr.ops": {"_to_serial"}},
    "C04": {"hugr.hugr.base": "STORE", "hugr.utils": ALL},
    "C05": {"hugr.hugr.base": SER, "hugr._serialization.ops": ALL, "hugr._serialization.tys": ALL, "hugr.ops": {"_to_serial", "to_custom_op"},
            "hugr.tys": {"_to_serial", "_to_serial_root", "_to_opaque", "__eq__", "__init__"}, "hugr.val": {"_to_serial", "_to_serial_root", "__eq__", "__init__"},
            "hugr.utils": {"ser_it", "deser_it"}},
    "C06": {"hugr.ops": {"outer_signature", "inner_signature", "num_out", "port_kind", "port_type", "nth_inputs", "nth_outputs", "_function_port_offset", "_inputs",
                         "cached_signature", "_sig_port_type", "signature"}, "hugr.tys": {"flip"}},
    "C07": {"hugr.tys": {"type_bound", "_to_opaque", "__init__", "resolve"}, "hugr._serialization.tys": {"join"}, "hugr._serialization.extension": {"deserialize"}, "hugr.ext": {"bound"}, "hugr.std.collections.array": ALL, "hugr.std.collections.list": ALL,
            "hugr.std.collections.static_array": ALL},
    "C08": {"hugr.hugr.base": {"insert_hugr"}, "hugr.build.dfg": {"_insert_nested_impl", "insert_nested", "insert_cfg", "insert_conditional", "insert_tail_loop"}},
    "C09": {"hugr.envelope": ALL, "hugr.package": {"from_bytes", "from_str", "to_bytes", "to_str", "_to_serial"},
            # (the codec helpers every decoded package goes through)
            "hugr.utils": {"ser_it", "deser_it"}, "hugr._serialization.extension": {"deserialize"}},
    "C10": {"hugr.ext": ALL, "hugr._serialization.extension": ALL, "hugr.std": ALL},
    "C11": {"hugr.tys": {"resolve", "_to_opaque", "to_model"}, "hugr.ops": {"resolve", "to_custom_op"}, "hugr.ext": {"get_op", "get_type", "get_extension"},
            "hugr.hugr.base": {"resolve_extensions"}},
    "C12": {"hugr.model.export": ALL, "hugr.model": ALL},
    "C13": {"hugr.build.dfg": ALL, "hugr.build.cfg": ALL, "hugr.build.cond_loop": ALL, "hugr.build.tracked_dfg": {"tracked_wire"},
            "hugr.ops": {"__init__", "_check_complete"}},
    "C14": {"hugr.val": ALL, "hugr.std.int": ALL, "hugr.std.float": ALL, "hugr.std.prelude": ALL, "hugr.std.collections.array": ALL,
            "hugr.std.collections.list": ALL, "hugr.std.collections.static_array": ALL, "hugr.build.dfg": {"load", "add_const"},
            "hugr.ops": {"port_kind", "num_out"}},
    "C15": {"hugr.build.tracked_dfg": ALL, "hugr.build.dfg": {"add", "add_op", "extend"}},
    "C16": {"hugr.hugr.node_port": ALL, "hugr.hugr.base": {"_add_node", "add_node", "_update_port_count", "_update_node_outs"},
            "hugr.build.dfg": {"add_op", "call", "load", "add", "extend", "_set_parent_output_count"}},
    "C18": {"hugr.utils": ALL},
    "C19": {"hugr.qsystem.result": ALL},
    "C20": {"hugr.hugr.render": ALL},
}


def unbound_after_branches(ctx, rule: str, modules: list[str], only=None) -> int:
    """a local bound in some arms of an if / elif / match but not in all of the arms that fall through, and read afterwards: on the
    arm that leaves it out the read raises UnboundLocalError (or, inside a loop, silently sees the previous round's value).
    Structured definite-assignment: branches intersect; loops, try blocks and with blocks are taken optimistically (what they bind
    counts as bound afterwards), so only the if / match shape is ever reported"""
    prog = ctx.program
    n = 0

    def terminates(block):
        if not block:
            return False
        s_ = block[-1]
        if isinstance(s_, (ast.Return, ast.Raise, ast.Continue, ast.Break)):
            return True
        if isinstance(s_, ast.Expr) and isinstance(s_.value, ast.Call) and u(s_.value.func).split(".")[-1] == "assert_never":
            return True
        if isinstance(s_, ast.Expr) and isinstance(s_.value, ast.Call) and never_returns(u(s_.value.func).split(".")[-1]):
            return True
        if isinstance(s_, ast.If):
            return bool(s_.orelse) and terminates(s_.body) and terminates(s_.orelse)
        if isinstance(s_, ast.Match):
            return any(_irrefutable(c.pattern) and c.guard is None for c in s_.cases) and all(terminates(c.body) for c in s_.cases)
        return False

    _nr: dict = {}

    def never_returns(name, depth=0):
        """a private helper of the program every definition of which ends in raise / assert_never on all its ways (annotated NoReturn or not)"""
        if not name.startswith("_") or name.startswith("__") or depth > 3:
            return False
        if name in _nr:
            return _nr[name]
        _nr[name] = False
        defs = [f_ for m_ in prog.modules.values() for f_ in ast.walk(m_.tree) if isinstance(f_, ast.FunctionDef) and f_.name == name]
        ok = bool(defs) and all(terminates_no_return(real_body(f_)) for f_ in defs)
        _nr[name] = ok
        return ok

    def terminates_no_return(block):
        if not block:
            return False
        s_ = block[-1]
        if isinstance(s_, ast.Raise):
            return True
        if isinstance(s_, ast.Expr) and isinstance(s_.value, ast.Call) and (u(s_.value.func).split(".")[-1] == "assert_never" or never_returns(u(s_.value.func).split(".")[-1], 1)):
            return not any(isinstance(n, ast.Return) for x in block for n in ast.walk(x))
        if isinstance(s_, ast.If):
            return bool(s_.orelse) and terminates_no_return(s_.body) and terminates_no_return(s_.orelse) and not any(isinstance(n, ast.Return) for x in block[:-1] for n in ast.walk(x))
        return False

    def _irrefutable(p):
        return (isinstance(p, ast.MatchAs) and p.pattern is None) or (isinstance(p, ast.MatchOr) and any(_irrefutable(x) for x in p.patterns))

    def stores(node):
        out = set()
        for x in ast.walk(node):
            if isinstance(x, ast.Name) and isinstance(x.ctx, ast.Store):
                out.add(x.id)
            elif isinstance(x, (ast.MatchAs, ast.MatchStar)) and x.name:
                out.add(x.name)
            elif isinstance(x, ast.MatchMapping) and x.rest:
                out.add(x.rest)
            elif isinstance(x, (ast.FunctionDef, ast.AsyncFunctionDef, ast.ClassDef)):
                out.add(x.name)
            elif isinstance(x, ast.alias):
                out.add((x.asname or x.name).split(".")[0])
            elif isinstance(x, ast.ExceptHandler) and x.name:
                out.add(x.name)
        return out
    for mn in modules:
        m = prog.module(mn)
        scopes = [(c, fn) for c in m.classes.values() for fn in c.methods.values()] + [(None, fn) for fn in m.functions.values()]
        for cls, fn in scopes:
            if only is not None and not only(mn, cls.name if cls else "", fn.name):
                continue
            n += 1
            body = [x for x in fn.body]
            locals_ = stores(ast.Module(body=body, type_ignores=[])) - {a.arg for a in fn.args.posonlyargs + fn.args.args + fn.args.kwonlyargs}
            if fn.args.vararg:
                locals_.discard(fn.args.vararg.arg)
            if fn.args.kwarg:
                locals_.discard(fn.args.kwarg.arg)
            declared = {x_ for g in ast.walk(fn) if isinstance(g, (ast.Global, ast.Nonlocal)) for x_ in g.names}
            locals_ -= declared
            found = []
            maybe = {}           # name -> the branching statement after which it is bound on some arms only

            def reads(expr_or_stmt, bound):
                for x in ast.walk(expr_or_stmt):
                    if isinstance(x, (ast.Lambda, ast.FunctionDef, ast.AsyncFunctionDef, ast.ClassDef)) and x is not expr_or_stmt:
                        continue
                    if isinstance(x, ast.Name) and isinstance(x.ctx, ast.Load) and x.id in maybe and x.id not in bound:
                        found.append((x, maybe[x.id]))

            def run(block, bound):
                bound = set(bound)
                for s_ in block:
                    if isinstance(s_, ast.If):
                        reads(s_.test, bound)
                        arms = [(s_.body, run(s_.body, bound | stores(s_.test))), (s_.orelse, run(s_.orelse, bound | stores(s_.test)))]
                    elif isinstance(s_, ast.Match):
                        reads(s_.subject, bound)
                        arms = []
                        for c in s_.cases:
                            b0 = bound | stores(c.pattern) | (stores(c.guard) if c.guard is not None else set())
                            arms.append((c.body, run(c.body, b0)))
                        if not any(_irrefutable(c.pattern) and c.guard is None for c in s_.cases):
                            arms.append(([], set(bound)))        # no arm taken
                    elif isinstance(s_, (ast.For, ast.AsyncFor, ast.While, ast.With, ast.AsyncWith, ast.Try)):
                        # optimistic: whatever is bound inside counts as bound afterwards; the inside is judged with that too
                        inner = bound | (stores(s_) & locals_)
                        for fld in ("body", "orelse", "finalbody"):
                            bb = getattr(s_, fld, None)
                            if isinstance(bb, list) and bb and isinstance(bb[0], ast.stmt):
                                run(bb, inner)
                        for h in getattr(s_, "handlers", []):
                            run(h.body, inner)
                        bound = inner
                        continue
                    else:
                        if isinstance(s_, (ast.FunctionDef, ast.AsyncFunctionDef, ast.ClassDef)):
                            bound.add(s_.name)
                            continue
                        if isinstance(s_, ast.AugAssign) and isinstance(s_.target, ast.Name) and s_.target.id in maybe and s_.target.id not in bound:
                            found.append((s_.target, maybe[s_.target.id]))       # x += .. reads x first
                        v = getattr(s_, "value", None)
                        if v is not None:
                            reads(v, bound)
                        elif not isinstance(s_, (ast.Assign, ast.AnnAssign)):
                            reads(s_, bound)
                        if isinstance(s_, ast.Assign):
                            for t in s_.targets:
                                if not isinstance(t, ast.Name):
                                    reads(t, bound)
                        bound |= stores(s_)
                        continue
                    live = [out for blk, out in arms if not terminates(blk)]
                    if not live:
                        return bound
                    some = set().union(*live)
                    every = set.intersection(*live)
                    for nm in (some - every) & locals_:
                        maybe[nm] = s_
                    bound = every
                return bound
            run(body, set())
            seen = set()
            for x, br in found:
                if x.id in seen:
                    continue
                seen.add(x.id)
                ctx.fail(rule, f"{mn}.{(cls.name + '.') if cls else ''}{fn.name}: `{x.id}` read after a branch that leaves it unbound", m.path, x.lineno,
                         f"`{x.id}` is bound on some arms of the {'match' if isinstance(br, ast.Match) else 'if'} at line {br.lineno} but not on all arms that go on; "
                         f"on the others this read raises UnboundLocalError (or, in a loop, sees the value of an earlier round)", x)
    return n


def generators_kept(ctx, rule: str, modules: list[str], only=None) -> int:
    """a generator expression kept as an ELEMENT of a list / tuple / dict display or of a comprehension's result (rows of a table,
    fields of records) is a one-shot iterator stored where a sequence is read again and again: the first reader empties it, the
    second sees nothing.  (A generator handed over as a whole argument is the receiver's business: L2 judges the receiver.)
    Judged on canonical bodies: private helpers that return a generator are seen through."""
    prog = ctx.program
    n = 0
    for mn in modules:
        m = prog.module(mn)
        owners = {}
        for c in m.classes.values():
            for f_ in c.methods.values():
                owners[id(f_)] = c
        for fn in [x for x in ast.walk(m.tree) if isinstance(x, ast.FunctionDef)]:
            if only is not None and not only(mn, "", fn.name):
                continue
            cls_ = owners.get(id(fn))
            if not (cls_ is not None or (fn.name in m.functions and m.functions[fn.name] is fn)):
                continue
            try:
                body_fn = ctx.canon.fn(fn, m, cls_)
            except Exception:
                body_fn = fn
            n += 1
            for node in ast.walk(body_fn):
                elems = []
                if isinstance(node, (ast.List, ast.Tuple, ast.Set)) and isinstance(getattr(node, "ctx", ast.Load()), ast.Load):
                    elems = list(node.elts)
                elif isinstance(node, ast.Dict):
                    elems = list(node.values)
                elif isinstance(node, (ast.ListComp, ast.SetComp)):
                    elems = [node.elt]
                elif isinstance(node, ast.DictComp):
                    elems = [node.value]
                for e in elems:
                    if isinstance(e, ast.GeneratorExp):
                        ctx.fail(rule, f"{mn}.{fn.name}: generator kept as an element", m.path, getattr(fn, "lineno", 1),
                                 f"`{u(e)[:80]}` is stored as an element of `{u(node)[:80]}`: a one-shot iterator where a sequence is expected -- "
                                 "whoever reads it first empties it for everybody else", fn, found=u(e)[:120])
    return n


def arm(ctx, prop: str | None = None) -> None:
    """arm the two generic lints on the functions the property is about, as rules <prop>.L1 / <prop>.L2"""
    prop = prop or ctx.prop
    spec = {m: f for m, f in ANCHORS.get(prop, {}).items() if m in ctx.program.modules}

    def only(mn, cname, fname):
        f = spec.get(mn)
        if f is None:
            return True
        if f == "STORE":
            return fname not in NOT_STORE
        return fname in f
    mods = list(spec)
    l1, l2 = f"{prop}.L1", f"{prop}.L2"
    ctx.rule(l1, "no value of type `X | None` with falsy-able X is tested by truthiness where presence is meant (functions the property is about)", floor=1)
    ctx.rule(l2, "no Iterable/Iterator parameter is consumed more than once (functions the property is about)", floor=1)
    n1 = truthiness_on_optional(ctx, l1, mods, only=only)
    ctx.ok(l1, f"{prop}: optional-typed values in {len(mods)} anchor modules", f"{n1} truthiness uses flagged")
    n2 = iterable_param_reuse(ctx, l2, mods, only=only)
    ctx.ok(l2, f"{prop}: iterable parameters in {len(mods)} anchor modules", f"{n2} parameters inspected")
    l3 = f"{prop}.L3"
    ctx.rule(l3, "no per-instance state kept in a container bound in the class body, and no memo over reassignable dataclass fields (classes of the anchor modules)", floor=1)
    n3 = shared_class_state(ctx, l3, mods)
    n4 = memo_on_mutable(ctx, l3, mods)
    ctx.ok(l3, f"{prop}: classes of {len(mods)} anchor modules", f"{n3} class-level containers, {n4} memoised attributes inspected")
    l5 = f"{prop}.L5"
    ctx.rule(l5, "no local is read after an if / match that binds it on some of the arms that go on but not on all (functions the property is about)", floor=1)
    n6 = unbound_after_branches(ctx, l5, mods, only=only)
    ctx.ok(l5, f"{prop}: branch-bound locals in {len(mods)} anchor modules", f"{n6} functions inspected")
    l6 = f"{prop}.L6"
    ctx.rule(l6, "no generator expression is kept as an element of a display / comprehension result (functions the property is about)", floor=1)
    n7 = generators_kept(ctx, l6, mods, only=only)
    ctx.ok(l6, f"{prop}: displays in {len(mods)} anchor modules", f"{n7} functions inspected")
    l4 = f"{prop}.L4"
    ctx.rule(l4, "no identity comparison (`is`) between two values other than None / booleans / sentinels / classes (functions the property is about)", floor=1)
    n5 = identity_of_values(ctx, l4, mods, only=only)
    ctx.ok(l4, f"{prop}: identity comparisons in {len(mods)} anchor modules", f"{n5} `is` comparisons inspected")
