"""Static model of the std helper modules (hugr/std/**): which bundled extension definition an
expression denotes.  Evaluates module-level globals, `_load_extension("x")`, `.types["k"]`,
`.operations["k"]`, `.get_op("k")`, `.instantiate([...])`, helper functions (int_t) and helper type
classes (Array, List, StaticArray) -- over the AST only -- and loads the bundled JSON definitions.
"""
from __future__ import annotations

import ast
import json
import pathlib

from .core import AnalysisError
from .model import Class, Module, Program, real_body, u


class Std:
    def __init__(self, prog: Program, pkg: pathlib.Path, canon=None):
        self.prog = prog
        self.canon = canon          # hv.canon.Canon: method bodies are read in canonical form (locals substituted, positional layout)
        self.defs_dir = pkg / "std" / "_json_defs"
        self.exts: dict[str, dict] = {}
        self.files: dict[str, pathlib.Path] = {}
        if not self.defs_dir.is_dir():
            raise AnalysisError(f"anchor vanished: {self.defs_dir}")
        for p in sorted(self.defs_dir.rglob("*.json")):
            dotted = ".".join(p.relative_to(self.defs_dir).with_suffix("").parts)
            self.exts[dotted] = json.loads(p.read_text())
            self.files[dotted] = p
        self.load_sites: list[tuple[Module, ast.Call, str]] = []

    def _method(self, cls: Class, name: str):
        k, m = cls.find_method(name) if hasattr(cls, "find_method") else (cls, cls.methods.get(name))
        if m is None or self.canon is None:
            return m
        return self.canon.fn(m, k.module, k)

    # ---- descriptors -------------------------------------------------------------------
    def desc(self, mod: Module, e: ast.expr, loc: dict | None = None, cls: Class | None = None, depth: int = 0):
        """-> ('ext', n) | ('types'|'operations'|'values', n) | ('typedef', n, k) | ('opdef', n, k) | ('extname', n)
              | ('exttype', n, k, [arg exprs], mod, loc) | ('expr', ast) | None"""
        loc = loc or {}
        if depth > 10:
            return None
        if isinstance(e, ast.Name):
            if e.id in loc:
                v = loc[e.id]
                return v if isinstance(v, tuple) else None
            if e.id in mod.assigns:
                return self.desc(mod, mod.assigns[e.id], {}, None, depth + 1)
            if e.id in mod.imports:
                q = mod.imports[e.id]
                mq, _, member = q.rpartition(".")
                if mq in self.prog.modules:
                    return self.desc(self.prog.modules[mq], ast.Name(id=member, ctx=ast.Load()), {}, None, depth + 1)
            return None
        if isinstance(e, ast.Call):
            fn = e.func
            if u(fn).split(".")[-1] == "_load_extension" and e.args and isinstance(e.args[0], ast.Constant):
                return ("ext", e.args[0].value)
            if isinstance(fn, ast.Attribute):
                base = self.desc(mod, fn.value, loc, cls, depth + 1)
                if base and base[0] == "ext" and fn.attr in ("get_op", "get_type", "get_value") and e.args and isinstance(e.args[0], ast.Constant):
                    return ({"get_op": "opdef", "get_type": "typedef", "get_value": "valdef"}[fn.attr], base[1], e.args[0].value)
                if base and base[0] == "typedef" and fn.attr == "instantiate" and (e.args or any(k.arg == "args" for k in e.keywords)):
                    a0 = e.args[0] if e.args else [k.value for k in e.keywords if k.arg == "args"][0]
                    args = a0.elts if isinstance(a0, ast.List) else None
                    return ("exttype", base[1], base[2], args, mod, loc)
                if base and base[0] == "opdef" and fn.attr == "instantiate":
                    return ("extop", base[1], base[2], e, mod, loc)
            # helper function defined in a std module: inline its single return
            target = mod.resolve(fn) if isinstance(fn, (ast.Name, ast.Attribute)) else None
            if isinstance(target, ast.FunctionDef):
                tm = self._def_module(mod, fn)
                rets = [s for s in real_body(target) if isinstance(s, ast.Return)]
                if len(rets) == 1:
                    params = [a.arg for a in target.args.args]
                    loc2 = {p: ("expr", a, mod, loc) for p, a in zip(params, e.args)}
                    for k in e.keywords:
                        loc2[k.arg] = ("expr", k.value, mod, loc)
                    return self.desc(tm, rets[0].value, loc2, None, depth + 1)
            if isinstance(target, Class):
                return self.class_instance(target, e, mod, loc, depth)
            return None
        if isinstance(e, ast.Attribute):
            if isinstance(e.value, ast.Name) and e.value.id == "self" and cls is not None:
                # attribute set in __init__ of the value class
                init = self._method(cls, "__init__") if "__init__" in cls.methods else None
                if init is not None:
                    for n in ast.walk(init):
                        if isinstance(n, ast.Assign) and u(n.targets[0]) == f"self.{e.attr}":
                            return self.desc(cls.module, n.value, {a.arg: ("expr", ast.Name(id=a.arg, ctx=ast.Load()), cls.module, {}) for a in init.args.args[1:]}, cls, depth + 1)
                return None
            base = self.desc(mod, e.value, loc, cls, depth + 1)
            if base and base[0] == "ext":
                if e.attr in ("types", "operations", "values"):
                    return (e.attr, base[1])
                if e.attr == "name":
                    return ("extname", base[1])
            return None
        if isinstance(e, ast.Subscript) and isinstance(e.slice, ast.Constant):
            base = self.desc(mod, e.value, loc, cls, depth + 1)
            if base and base[0] in ("types", "operations", "values"):
                return ({"types": "typedef", "operations": "opdef", "values": "valdef"}[base[0]], base[1], e.slice.value)
        return None

    def class_instance(self, c: Class, call: ast.Call, mod: Module, loc: dict, depth: int):
        """Array(ty, n) / List(ty) / StaticArray(ty): the type definition and arguments set by __init__"""
        init = self._method(c, "__init__") if "__init__" in c.methods else None
        if init is None:
            return None
        td = None
        args = None
        for n in ast.walk(init):
            if isinstance(n, ast.Assign) and u(n.targets[0]) == "self.type_def":
                td = self.desc(c.module, n.value, {}, None, depth + 1)
            if isinstance(n, ast.Assign) and u(n.targets[0]) == "self.args" and isinstance(n.value, ast.List):
                args = n.value.elts
        if td and td[0] == "typedef":
            params = [a.arg for a in init.args.args[1:]]
            loc2 = {p: ("expr", a, mod, loc) for p, a in zip(params, call.args)}
            for k in call.keywords:
                if k.arg in params:
                    loc2[k.arg] = ("expr", k.value, mod, loc)
            return ("exttype", td[1], td[2], args, c.module, loc2, c)
        return None

    def _def_module(self, mod: Module, fn) -> Module:
        if isinstance(fn, ast.Name):
            if fn.id in mod.functions:
                return mod
            q = mod.imports.get(fn.id)
            if q and q.rpartition(".")[0] in self.prog.modules:
                return self.prog.modules[q.rpartition(".")[0]]
        if isinstance(fn, ast.Attribute):
            r = mod.resolve(fn.value)
            if isinstance(r, Module):
                return r
        return mod

    # ---- JSON side -----------------------------------------------------------------------
    def typedef(self, ext: str, key: str):
        return self.exts.get(ext, {}).get("types", {}).get(key)

    def opdef(self, ext: str, key: str):
        return self.exts.get(ext, {}).get("operations", {}).get(key)

    def arg_kind(self, mod: Module, a: ast.expr, loc: dict) -> str | None:
        """BoundedNat / Type / Variable(<param kind>) ... of a type-argument expression"""
        seen = 0
        while isinstance(a, ast.Name) and seen < 5:
            seen += 1
            if a.id in loc and isinstance(loc[a.id], tuple) and loc[a.id][0] == "expr":
                _, a2, mod, loc = loc[a.id]
                if isinstance(a2, ast.Name) and a2.id == a.id:
                    return None
                a = a2
                continue
            break
        if isinstance(a, ast.Call):
            n = u(a.func).split(".")[-1]
            return {"BoundedNatArg": "BoundedNat", "TypeTypeArg": "Type", "StringArg": "String", "SequenceArg": "List", "VariableArg": "Variable",
                    "ExtensionsArg": "Extensions"}.get(n)
        return None
