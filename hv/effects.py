"""Which of its arguments may a function change?  (a small interprocedural mutation analysis over the program model)

`Effects(prog).mutates(fn, cls, module)` answers with the set of parameter names whose reachable state the function may change,
or None when it cannot tell (global state, calls it cannot resolve).  The empty set means the function only computes.

The analysis is flow-insensitive and errs towards "may change":

  * a local is *rooted* in the parameters its value may share structure with (`x = p.attr`, `x = p[k]`, `x = p.m(..)`, loop and
    with-targets); values that are certainly fresh (displays, comprehensions, strings, numbers, constructor calls) have no roots;
  * a store / delete through an attribute or subscript changes the roots of its base;
  * a call is resolved to the definitions it may run -- a method of `self` along the MRO, a function of the module, otherwise every
    method of that name in the program (class-hierarchy analysis by name) -- and their answers are mapped back through the arguments;
    a method nobody in the program defines is a library method: known reading names (`items`, `join`, ..) change nothing, anything
    else is taken to change (at most) the object it is called on;
  * recursion is resolved optimistically (a call back into a function under analysis contributes nothing new).

Used by the canonicaliser to decide whether values built eagerly by one loop may be built where a second loop consumes them."""
from __future__ import annotations

import ast

from .model import real_body, u

PURE_BUILTINS = {"len", "str", "int", "float", "bool", "range", "enumerate", "zip", "list", "tuple", "dict", "set", "frozenset", "sorted", "reversed",
                 "isinstance", "issubclass", "min", "max", "sum", "any", "all", "repr", "getattr", "hasattr", "iter", "type", "id", "abs", "map",
                 "filter", "divmod", "round", "chr", "ord", "hash", "callable", "format", "bytes", "bytearray", "super", "vars", "object", "cast",
                 "raise_", "old_", "except_"}
READING_METHODS = {"items", "keys", "values", "get", "join", "format", "split", "rsplit", "strip", "lstrip", "rstrip", "startswith", "endswith", "index",
                   "count", "copy", "lower", "upper", "replace", "encode", "decode", "title", "capitalize", "isdigit", "isalpha", "partition", "rpartition",
                   "removeprefix", "removesuffix", "zfill", "ljust", "rjust", "center", "splitlines", "union", "intersection", "difference", "issubset",
                   "issuperset", "isdisjoint", "most_common", "elements", "total", "bit_length", "to_bytes", "from_bytes", "hex", "groups", "group",
                   "match", "fullmatch", "search", "findall", "finditer", "sub", "escape", "dumps", "loads", "with_suffix", "with_name", "exists",
                   "is_file", "is_dir", "read_text", "read_bytes", "resolve", "relative_to", "model_dump", "model_dump_json", "model_validate",
                   "model_validate_json", "model_json_schema", "__class__", "__name__", "mro"}
CONTAINER_MUTATORS = {"append", "extend", "add", "update", "pop", "popitem", "insert", "sort", "clear", "setdefault", "remove", "discard", "reverse",
                      "appendleft", "popleft", "extendleft", "__setitem__", "__delitem__", "write", "writelines", "send", "close"}
TOP = None


class Effects:
    def __init__(self, prog):
        self.prog = prog
        self.memo: dict[int, frozenset | None] = {}
        self.active: set[int] = set()
        self._by_name: dict[str, list] | None = None

    # ---- program-wide index of methods by name -----------------------------------------------------------
    def by_name(self, name: str):
        if self._by_name is None:
            idx: dict[str, list] = {}
            for m in self.prog.modules.values():
                for c in m.classes.values():
                    for n_, f in c.methods.items():
                        idx.setdefault(n_, []).append((f, c, m))
            self._by_name = idx
        return self._by_name.get(name, [])

    # ---- the summary of one function ---------------------------------------------------------------------
    def mutates(self, fn: ast.FunctionDef, cls, module):
        """summaries are computed to a fixed point: within one round every function is analysed once against the current approximations
        of the others (starting from "changes nothing"); rounds repeat while an approximation grew; then everything visited is final"""
        key = id(fn)
        if key in self.memo:
            return self.memo[key]
        if self.active:                      # a question asked while answering another: part of the running round
            return self._approximate(fn, cls, module)
        for _ in range(12):
            self._changed = False
            self._round: set[int] = set()
            self.active.add(-1)
            try:
                self._approximate(fn, cls, module)
            finally:
                self.active.discard(-1)
            if not self._changed:
                break
        else:
            for k in self._round:            # did not settle: unknown
                self._approx[k] = TOP
        for k in self._round:
            self.memo[k] = self._approx[k]
        return self.memo[key]

    def _approximate(self, fn, cls, module):
        key = id(fn)
        if key in self.memo:
            return self.memo[key]
        approx = self.__dict__.setdefault("_approx", {})
        if key in self._round:
            return approx.get(key, frozenset())
        self._round.add(key)
        self._keep = self.__dict__.setdefault("_keep", [])
        self._keep.append(fn)                # ids are keys: the nodes must outlive them
        params = [a.arg for a in fn.args.posonlyargs + fn.args.args + fn.args.kwonlyargs]
        if fn.args.vararg:
            params.append(fn.args.vararg.arg)
        if fn.args.kwarg:
            params.append(fn.args.kwarg.arg)
        out = self.block_effects(real_body(fn), {p: {p} for p in params}, cls, module, ctor=fn.name in ("__init__", "__post_init__"))
        res = TOP if out is TOP else frozenset(r for r in out if r in params)
        old = approx.get(key, frozenset())
        if old is TOP or res is TOP:
            new = TOP
        else:
            new = old | res
        if key not in approx or new != old:
            if key in approx or new:
                self._changed = True
            approx[key] = new
        return approx[key]

    def block_effects(self, stmts, roots: dict[str, set], cls, module, ctor: bool = False):
        """roots of the objects the statements may change (names of `roots`' root sets), or TOP.  `roots` maps the names already bound
        to the roots they may share structure with; locals bound inside are added (flow-insensitively: to a fixed point)."""
        nodes = [n for s in stmts for n in ast.walk(s)]
        if any(isinstance(n, (ast.Global, ast.Nonlocal)) for n in nodes):
            return self._top("global / nonlocal")
        roots = self.bind_roots(stmts, roots)
        out: set = set()
        # (functions defined inside are walked with the rest: what they do is counted whether or not they are called)
        saved = getattr(self, "_nested", frozenset())
        self._nested = saved | {n.name for n in nodes if isinstance(n, (ast.FunctionDef, ast.AsyncFunctionDef))}
        try:
            return self._walk_effects(nodes, roots, cls, module, ctor, out)
        finally:
            self._nested = saved

    def _walk_effects(self, nodes, roots, cls, module, ctor, out):
        for n in nodes:
            if isinstance(n, (ast.Attribute, ast.Subscript)) and isinstance(n.ctx, (ast.Store, ast.Del)):
                rs = self.roots_of(n.value, roots)
                if ctor and isinstance(n.value, ast.Name) and n.value.id == "self" and isinstance(n, ast.Attribute):
                    continue            # a constructor fills in its own (new) object
                out |= rs
            elif isinstance(n, ast.Call):
                e = self.call_effects(n, roots, cls, module)
                if e is TOP:
                    return TOP
                out |= e
            elif isinstance(n, (ast.With, ast.AsyncWith)):
                # entering / leaving a context manager may change it
                for it in n.items:
                    out |= self.roots_of(it.context_expr, roots)
            elif isinstance(n, (ast.Await,)):
                return TOP
        return out

    def bind_roots(self, stmts, roots: dict[str, set], own: bool = False) -> dict[str, set]:
        """`roots` extended with the locals the statements bind (flow-insensitively, to a fixed point); own=True: a local whose value
        is always fresh is its own root (so that two of them are told apart)"""
        roots = {k: set(v) for k, v in roots.items()}
        nodes = [n for s in stmts for n in ast.walk(s)]
        # ---- bind locals to roots, to a fixed point
        for _ in range(6):
            changed = False

            def bind(target, rs):
                nonlocal changed
                for t in ast.walk(target):
                    if isinstance(t, ast.Name) and isinstance(t.ctx, ast.Store):
                        cur = roots.setdefault(t.id, set())
                        if not rs <= cur:
                            cur |= rs
                            changed = True
            for n in nodes:
                if isinstance(n, ast.Assign):
                    for t in n.targets:
                        bind(t, self.roots_of(n.value, roots))
                elif isinstance(n, (ast.AnnAssign, ast.AugAssign)) and getattr(n, "value", None) is not None:
                    bind(n.target, self.roots_of(n.value, roots))
                elif isinstance(n, ast.NamedExpr):
                    bind(n.target, self.roots_of(n.value, roots))
                elif isinstance(n, (ast.For, ast.AsyncFor)):
                    bind(n.target, self.roots_of(n.iter, roots))
                elif isinstance(n, ast.comprehension):
                    bind(n.target, self.roots_of(n.iter, roots))
                elif isinstance(n, (ast.With, ast.AsyncWith)):
                    for it in n.items:
                        if it.optional_vars is not None:
                            bind(it.optional_vars, self.roots_of(it.context_expr, roots))
                elif isinstance(n, (ast.FunctionDef, ast.AsyncFunctionDef, ast.Lambda)):
                    for a in n.args.posonlyargs + n.args.args + n.args.kwonlyargs:
                        roots.setdefault(a.arg, set())
                elif isinstance(n, ast.ExceptHandler) and n.name:
                    roots.setdefault(n.name, set())
            if not changed:
                break
        if own:
            for k, v in roots.items():
                v.add(k)
        return roots

    # ---- what an expression's value may share structure with ----------------------------------------------
    def roots_of(self, e, roots) -> set:
        if e is None or isinstance(e, (ast.Constant, ast.JoinedStr, ast.Compare, ast.Lambda)):
            return set()
        if isinstance(e, ast.Name):
            return set(roots.get(e.id, set()))
        if isinstance(e, (ast.Attribute, ast.Subscript, ast.Starred)):
            return self.roots_of(e.value, roots)
        if isinstance(e, (ast.BinOp,)):
            # arithmetic / concatenation builds a new value (of immutable or fresh content); `a | b` of types likewise
            return set()
        if isinstance(e, ast.UnaryOp):
            return set()
        if isinstance(e, ast.BoolOp):
            return set().union(*[self.roots_of(v, roots) for v in e.values])
        if isinstance(e, ast.IfExp):
            return self.roots_of(e.body, roots) | self.roots_of(e.orelse, roots)
        if isinstance(e, (ast.List, ast.Tuple, ast.Set)):
            return set().union(*[self.roots_of(v, roots) for v in e.elts]) if e.elts else set()
        if isinstance(e, ast.Dict):
            return set().union(*[self.roots_of(v, roots) for v in e.values if v is not None]) if e.values else set()
        if isinstance(e, (ast.ListComp, ast.SetComp, ast.GeneratorExp)):
            inner = dict(roots)
            for g in e.generators:
                rs = self.roots_of(g.iter, inner)
                for t in ast.walk(g.target):
                    if isinstance(t, ast.Name):
                        inner[t.id] = set(rs)
            return self.roots_of(e.elt, inner)
        if isinstance(e, ast.DictComp):
            return set()
        if isinstance(e, ast.NamedExpr):
            return self.roots_of(e.value, roots)
        if isinstance(e, ast.Call):
            f = e.func
            if isinstance(f, ast.Name) and f.id in ("str", "int", "float", "bool", "len", "repr", "range", "isinstance", "sum", "min", "max", "any", "all", "id", "hash", "type"):
                return set()
            # an object of a library class (`gv.Digraph(name)`): taken to be fresh
            head = f
            while isinstance(head, ast.Attribute):
                head = head.value
            last = f.attr if isinstance(f, ast.Attribute) else (f.id if isinstance(f, ast.Name) else "")
            if last[:1].isupper() and isinstance(head, ast.Name) and self._library_name(head.id):
                return set()
            rs = set()
            if isinstance(f, ast.Attribute):
                if f.attr in ("join", "format", "encode", "decode", "lower", "upper", "strip", "replace", "startswith", "endswith", "name", "dumps", "count", "index"):
                    return set()
                rs |= self.roots_of(f.value, roots)
            for a in e.args:
                rs |= self.roots_of(a, roots)
            for k in e.keywords:
                rs |= self.roots_of(k.value, roots)
            return rs
        return set()

    # ---- one call ------------------------------------------------------------------------------------------
    def call_effects(self, call: ast.Call, roots, cls, module):
        f = call.func

        def mapped(callee, ccls, cmod, recv=None):
            """the callee's summary expressed over this function's roots"""
            s = self.mutates(callee, ccls, cmod)
            if s is TOP:
                return TOP
            ps = [a.arg for a in callee.args.posonlyargs + callee.args.args]
            deco = [u(d) for d in callee.decorator_list]
            out = set()
            actual: dict[str, ast.expr] = {}
            if recv is not None and ps and "staticmethod" not in deco:
                actual[ps[0]] = recv
                ps = ps[1:]
            pos = [a for a in call.args if not isinstance(a, ast.Starred)]
            for p_, a_ in zip(ps, pos):
                actual[p_] = a_
            for k in call.keywords:
                if k.arg is not None:
                    actual[k.arg] = k.value
            star = [a.value for a in call.args if isinstance(a, ast.Starred)] + [k.value for k in call.keywords if k.arg is None]
            for p_ in s:
                if p_ in actual:
                    out |= self.roots_of(actual[p_], roots)
                else:
                    # bound through * / ** or a default: any of the starred arguments
                    for a_ in star:
                        out |= self.roots_of(a_, roots)
            return out

        if isinstance(f, ast.Name):
            if f.id in PURE_BUILTINS or f.id == "print":
                return set()
            if f.id in getattr(self, "_nested", ()):
                return set()
            if f.id == "cls" and cls is not None:
                return self.ctor_effects(cls, call, roots)
            if f.id in roots and f.id not in module.functions and f.id not in module.classes:
                # a callable held in a local / parameter: unknown
                return self._top(f"callable held in a variable: {f.id}")
            try:
                r = module.resolve(f)
            except Exception:
                r = None
            from .model import Class
            if isinstance(r, ast.FunctionDef):
                rm = next((m for m in self.prog.modules.values() if r in m.functions.values()), module)
                return mapped(r, None, rm)
            if isinstance(r, Class):
                return self.ctor_effects(r, call, roots)
            if f.id[:1].isupper() or f.id.lstrip("_")[:1].isupper():
                return set()            # a constructor of a class outside the program
            if f.id in module.imports and not module.imports[f.id].startswith(self.prog.top + "."):
                return set()            # a library function: taken to compute only
            return self._top(f"unresolved function {f.id}")
        if isinstance(f, ast.Attribute):
            name = f.attr
            recv = f.value
            # super().m(..)
            if isinstance(recv, ast.Call) and u(recv.func) == "super" and cls is not None:
                for k_ in cls.mro[1:]:
                    if name in k_.methods:
                        return mapped(k_.methods[name], k_, k_.module, ast.Name(id="self", ctx=ast.Load()))
                return set()
            # module.function(..)
            if isinstance(recv, ast.Name) and recv.id in module.imports and recv.id not in roots:
                try:
                    r = module.resolve(f)
                except Exception:
                    r = None
                from .model import Class
                if isinstance(r, ast.FunctionDef):
                    rm = next((m for m in self.prog.modules.values() if r in m.functions.values()), module)
                    return mapped(r, None, rm)
                if isinstance(r, Class):
                    return self.ctor_effects(r, call, roots)
                if r is None and not module.imports[recv.id].startswith(self.prog.top):
                    return set()        # a library function
            if isinstance(recv, ast.Name) and recv.id == "self" and cls is not None:
                k_, m_ = cls.find_method(name)
                if m_ is not None:
                    # (subclasses may override: their definitions count too)
                    cands = [(m_, k_, k_.module)] + [(f2, c2, m2) for f2, c2, m2 in self.by_name(name) if c2 is not k_ and cls in c2.mro]
                    out = set()
                    for f2, c2, m2 in cands:
                        if any(u(d) == "property" for d in f2.decorator_list):
                            continue
                        e = mapped(f2, c2, m2, recv)
                        if e is TOP:
                            return TOP
                        out |= e
                    return out
            cands = self.by_name(name)
            if cands and name not in READING_METHODS and name not in CONTAINER_MUTATORS:
                out = set()
                for f2, c2, m2 in cands:
                    if any(u(d) == "property" for d in f2.decorator_list):
                        continue
                    e = mapped(f2, c2, m2, recv)
                    if e is TOP:
                        return TOP
                    out |= e
                return out
            if name in READING_METHODS:
                return set()
            if name in CONTAINER_MUTATORS:
                return self.roots_of(recv, roots)
            # a library method nobody in the program defines: taken to change (at most) the object it is called on
            return self.roots_of(recv, roots)
        return self._top(f"call of {u(f)[:40]}")

    def _library_name(self, name: str) -> bool:
        """the name is imported, in some module of the program, from outside the program"""
        cache = self.__dict__.setdefault("_lib", {})
        if name not in cache:
            tops = [m.imports[name] for m in self.prog.modules.values() if name in m.imports]
            cache[name] = bool(tops) and all(not (t == self.prog.top or t.startswith(self.prog.top + ".")) for t in tops) \
                and not any(name in m.classes or name in m.functions for m in self.prog.modules.values())
        return cache[name]

    def _top(self, why):
        import os
        if os.environ.get("HV_EFFECTS_DEBUG"):
            print("TOP:", why)
        return TOP

    def ctor_effects(self, k, call, roots):
        """constructing an object of a program class: its __init__ / __post_init__ may change what they are handed"""
        out = set()
        for nm in ("__init__", "__post_init__"):
            kd, m = k.find_method(nm)
            if m is None:
                continue
            s = self.mutates(m, kd, kd.module)
            if s is TOP:
                return TOP
            ps = [a.arg for a in m.args.posonlyargs + m.args.args][1:]
            actual = dict(zip(ps, [a for a in call.args if not isinstance(a, ast.Starred)]))
            actual.update({kw.arg: kw.value for kw in call.keywords if kw.arg})
            for p_ in s:
                if p_ in actual:
                    out |= self.roots_of(actual[p_], roots)
        return out

    # ---- questions the canonicaliser asks -------------------------------------------------------------------
    def expr_effects(self, e, roots, cls, module):
        """roots an expression's evaluation may change (over the given name -> roots map); TOP if unknown"""
        out = set()
        for n in ast.walk(e):
            if isinstance(n, ast.Call):
                x = self.call_effects(n, roots, cls, module)
                if x is TOP:
                    return TOP
                out |= x
            elif isinstance(n, (ast.NamedExpr, ast.Await, ast.Yield, ast.YieldFrom)):
                return TOP
        return out

    def stmts_effects(self, stmts, roots, cls, module):
        return self.block_effects(stmts, roots, cls, module)

    def reads(self, e, roots) -> set:
        """roots of everything the expression mentions"""
        out = set()
        for n in ast.walk(e):
            if isinstance(n, ast.Name):
                out |= roots.get(n.id, {n.id})
        return out


# ---------------------------------------------------------------------------------------------------------------------
# self-test: the summaries of a tiny synthetic package, expected answers written out (run by every thorough tier)
SRC = '''
import json
from dataclasses import dataclass

COUNT = 0


@dataclass
class Rec:
    a: int
    b: list


class A:
    def __init__(self):
        self.items = []
        self.n = 0

    def pure(self, x):
        return [y + 1 for y in x]

    def store(self, x):
        self.n = x

    def grow(self, xs, v):
        xs.append(v)

    def via_alias(self, box):
        inner = box.items
        inner.append(1)

    def fresh_only(self, x):
        out = []
        for y in x:
            out.append(y)
        return out

    def calls_store(self, x):
        self.store(x)

    def ping(self, o, k):
        if k:
            self.pong(o, k - 1)

    def pong(self, o, k):
        o.n = k
        self.ping(o, k)

    def glob(self):
        global COUNT
        COUNT += 1

    def lib(self, g, s):
        g.node(s.name)

    def virt(self, o):
        return o.describe()

    def ctor(self, x):
        return Rec(x, [])

    def dumps(self, x):
        return json.dumps(x)


class B:
    def describe(self):
        return "b"


class C:
    def describe(self):
        self.seen = True
        return "c"
'''
WANT = {"pure": set(), "store": {"self"}, "grow": {"xs"}, "via_alias": {"box"}, "fresh_only": set(), "calls_store": {"self"},
        "ping": {"o"}, "pong": {"o"}, "glob": None, "lib": {"g"}, "virt": {"o"}, "ctor": set(), "dumps": set()}




def selftest() -> list[str]:
    """[] if every summary of the synthetic package is the expected one, else the disagreements"""
    import pathlib
    import tempfile
    import textwrap
    from .model import Program
    bad = []
    with tempfile.TemporaryDirectory() as d:
        pkg = pathlib.Path(d) / "hugr"
        pkg.mkdir()
        (pkg / "__init__.py").write_text("")
        (pkg / "m.py").write_text(textwrap.dedent(SRC))
        prog = Program(pkg)
        ef = Effects(prog)
        m = prog.modules["hugr.m"]
        a = m.classes["A"]
        for name, want in WANT.items():
            got = ef.mutates(a.methods[name], a, m)
            got = None if got is None else set(got)
            if got != want:
                bad.append(f"effects self-test: A.{name} -> {got}, expected {want}")
    return bad
