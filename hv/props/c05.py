"""C05 -- types, values and operations survive encoding and decoding unchanged.

R1 forward CODEC (all classes) + the extension-op chain AsExtOp -> ExtOp -> Custom; R2 reverse CODEC on
foreign documents; R3 null offsets / order edges on load; R4 sugar equalities are structural;
R5 metadata is written (no exhausted iterator) and aligned.
"""
from __future__ import annotations

import ast

from .. import codec
from ..model import is_stub, real_body, u
from ..nf import NF, Opaque, attr, ctor_args, show, sym
from . import c02

# serial fields whose preservation on a foreign document the property does not demand
REVERSE_EXCLUDED = ("runtime_reqs", "extension_delta", "description")
DISPLAY = {"__init__", "__repr__", "__str__", "__post_init__"}
SUGAR_WHITELIST = {
    ("hugr.tys.UnitSum", "_to_serial"): "unit form of the sum, decoded back to an equal UnitSum (R1)",
    ("hugr.tys.UnitSum", "resolve"): "returns self: a unit sum contains no types",
    ("hugr.val.Tuple", "_to_serial"): "tuple form of the value, decoded back to an equal Tuple (R1)",
}
SEMANTIC = {"__eq__", "__hash__", "__ne__", "type_bound", "type_", "_to_serial", "_to_serial_root", "outer_signature", "num_out",
            "port_kind", "port_type", "resolve", "n_variants", "as_tuple", "type_arg"}


def r1b_extension_op_chain(ctx, nf) -> None:
    """AsExtOp._to_serial -> ext_op._to_serial -> to_custom_op()._to_serial: the Custom built by to_custom_op carries the
    definition's name, extension, the op's signature and args (description: C11.R3)"""
    prog = ctx.program
    ext_op = prog.cls("hugr.ops.ExtOp")
    file = ext_op.module.path
    k, m = ext_op.find_method("_to_serial")
    t, _ = nf.method_nf(ext_op, "_to_serial")
    pname = m.args.args[1].arg
    ok = t == nf.expr_nf(f"self.to_custom_op()._to_serial({pname})", ext_op, extra={pname: sym(pname)})[0]
    ctx.check(ok, "C05.R1", "hugr.ops.ExtOp._to_serial", file, m.lineno, "ExtOp must encode as self.to_custom_op()._to_serial(parent)", m, found=show(t))
    want = {
        "op_name": [attr(attr(attr(sym("self"), "_op_def"), "name"), None)],
    }
    s = sym("self")
    opdef = attr(s, "_op_def")
    paths = [p for p in nf.paths(ext_op, "to_custom_op") if p[1] == "return"]
    if not paths:
        ctx.broken("ExtOp.to_custom_op: no returning path")
    for i, (guards, _, term, node, env) in enumerate(paths):
        inst = f"hugr.ops.ExtOp.to_custom_op#path{i}"
        if term[0] != "ctor" or term[1] != "hugr.ops.Custom":
            ctx.fail("C05.R1", inst, file, node.lineno, "to_custom_op must return a Custom", node, found=show(term))
            continue
        a = ctor_args(term)
        exp_name = attr(opdef, "name")
        def leaves(t):
            return leaves(t[2]) + leaves(t[3]) if isinstance(t, tuple) and t and t[0] == "ite" else [t]
        sig_ok = a.get("signature") is not None and all(
            x in (attr(s, "signature"), attr(attr(attr(opdef, "signature"), "poly_func"), "body")) for x in leaves(a.get("signature")))
        ext_term = a.get("extension")
        ext_ok = ext_term is not None and attr(attr(opdef, "_extension"), "name") in _subterms(ext_term)
        probs = []
        if a.get("op_name") != exp_name:
            probs.append(f"op_name={show(a.get('op_name'))}")
        if not sig_ok:
            probs.append(f"signature={show(a.get('signature'))}")
        if not ext_ok:
            probs.append(f"extension={show(ext_term)}")
        if a.get("args") != attr(s, "args"):
            probs.append(f"args={show(a.get('args'))}")
        ctx.check(not probs, "C05.R1", inst, file, node.lineno,
                  "the opaque form of an extension op must carry the definition's name and extension, the op's signature and its type arguments; got "
                  + ", ".join(probs), node, expected="Custom(op_name=_op_def.name, extension=_op_def._extension.name, signature=<sig>, args=self.args)",
                  found=show(term)[:300], detail=show(term)[:200])


def _subterms(t):
    out = [t]
    if isinstance(t, tuple):
        for x in t:
            if isinstance(x, tuple):
                out += _subterms(x)
    return out


def r2_reverse(ctx, nf) -> None:
    n = 0
    for mn in ("hugr._serialization.ops", "hugr._serialization.tys"):
        for c in ctx.program.module(mn).classes.values():
            k, m = c.find_method("deserialize")
            if m is None or is_stub(m) or "RootModel" in c.base_names() or "deserialize" not in c.methods:
                continue
            inst = c.qualname
            n += 1
            if c.qualname == "hugr._serialization.tys.Qubit":
                rb = real_body(m)
                ok = len(rb) == 1 and isinstance(rb[0], ast.Return) and u(rb[0].value) == "tys.Qubit"
                ctx.check(ok, "C05.R2", inst, c.module.path, m.lineno, "the qubit type decodes to the tys.Qubit singleton", m)
                continue
            if c.qualname == "hugr._serialization.ops.FunctionValue":
                t, _ = nf.method_nf(c, "deserialize")
                from ..nf import find_calls
                sh = find_calls(t, "SerialHugr")
                ok = t[0] == "ctor" and t[1] == "hugr.val.Function" and "_from_serial" in show(t) and len(sh) == 1 and not sh[0][2] \
                    and list(sh[0][3]) == [("**", attr(sym("self"), "hugr"))]
                ctx.check(ok, "C05.R2", inst, c.module.path, m.lineno, "a function value must decode its whole nested document -- Hugr._from_serial(SerialHugr(**self.hugr)) -- or parts of the body (e.g. its metadata) are lost", m, found=show(t)[:200])
                continue
            probs, desc = codec.reverse(nf, c)
            probs = [p for p in probs if not (p.field and p.field.split(".")[-1] in REVERSE_EXCLUDED)]
            if not probs:
                ctx.ok("C05.R2", inst, desc)
            for p in probs:
                if p.kind == "opaque":
                    ctx.broken(f"{inst}: {p.msg}")
                ctx.fail("C05.R2", inst + (f".{p.field}" if p.field else ""), c.module.path, m.lineno,
                         f"loading and re-saving a foreign document changes it: {p.msg}", p.node or m, expected=p.expected, found=p.found)
    ctx.stats["C05.R2 serial classes"] = n


def r4_sugar(ctx, nf) -> None:
    prog = ctx.program
    for base_q, need_eq_false in (("hugr.tys.Sum", True), ("hugr.val.Sum", True), ("hugr.ops.Tag", False)):
        base = prog.cls(base_q)
        for c in prog.subclasses(base):
            file = c.module.path
            over = [n for n in c.methods if n in SEMANTIC]
            bad = [n for n in over if (c.qualname, n) not in SUGAR_WHITELIST]
            for n in bad:
                ctx.fail("C05.R4", f"{c.qualname}.{n}", file, c.methods[n].lineno,
                         f"sugar class {c.name} overrides `{n}`: it must behave exactly like its general form {base.name} "
                         "(only construction and display may differ)", c.methods[n])
            if not bad:
                ctx.ok("C05.R4", f"{c.qualname}: overrides", f"only {sorted(set(c.methods) - SEMANTIC) or 'nothing'}"
                       + (f"; whitelisted {sorted(over)}" if over else ""))
            if need_eq_false and c.is_dataclass:
                ctx.check(c.dataclass_kwargs.get("eq") is False, "C05.R4", f"{c.qualname}: dataclass eq", file, c.node.lineno,
                          f"@dataclass on {c.name} generates a class-sensitive __eq__ unless eq=False: {c.name}(...) would no longer equal "
                          f"the general {base.name} with the same contents", c.node)
            # extra fields on a sugar class take part in a generated __eq__/__init__: none may be comparable
            for f in c.fields:
                if f.classvar:
                    continue
                ctx.check(not f.flag("compare", True) or not c.is_dataclass or c.dataclass_kwargs.get("eq") is False,
                          "C05.R4", f"{c.qualname}.{f.name}: extra field", file, f.node.lineno,
                          f"extra field {f.name} of sugar class {c.name} would take part in equality", f.node)
    # the general __eq__ is class-insensitive and compares exactly the contents
    for q, fields in (("hugr.tys.Sum", ["variant_rows"]), ("hugr.val.Sum", ["tag", "typ", "vals"])):
        c = prog.cls(q)
        m = c.methods.get("__eq__")
        if m is None:
            ctx.fail("C05.R4", f"{q}.__eq__", c.module.path, c.node.lineno,
                     f"{c.name} has no explicit __eq__: the dataclass-generated one compares classes, so sugar forms differ from general ones", c.node)
            continue
        try:
            t, _ = nf.method_nf(c, "__eq__")
        except Opaque as e:
            ctx.broken(f"{q}.__eq__ not normalisable: {e}")
        o = sym(m.args.args[1].arg)
        want_parts = [("call", "isinstance", (o, ("global", q) if False else ("class", q)), ())] + [
            ("op", "cmp:Eq", (attr(sym("self"), f), attr(o, f))) for f in fields]
        got_parts = list(t[2]) if t[0] == "op" and t[1] == "And" else [t]
        ok = got_parts[:1] == want_parts[:1] and sorted(map(repr, got_parts[1:])) == sorted(map(repr, want_parts[1:]))
        ctx.check(ok, "C05.R4", f"{q}.__eq__", c.module.path, m.lineno,
                  f"{c.name}.__eq__ must be `isinstance(other, {c.name}) and` equality of exactly {fields}", m,
                  expected=" and ".join(show(x) for x in want_parts), found=show(t)[:300])


def run(ctx) -> None:
    ctx.rule("C05.R1", "forward CODEC on every op/type/param/arg/value class; extension ops encode through to_custom_op with name, extension, signature, args", floor=62)
    ctx.rule("C05.R2", "reverse CODEC: re-encoding a decoded foreign document is the identity on names, rows, types, params, args, payloads, tags", floor=40)
    ctx.rule("C05.R3", "the loader keeps every edge incl. offset-less order edges and decodes the order port (shared with C02.R4/R5)", floor=4)
    ctx.rule("C05.R4", "sugar classes override construction/display only, keep the class-insensitive general __eq__ (eq=False)", floor=12)
    ctx.rule("C05.R5", "metadata is written for every node (no exhausted iterator) and read back by position", floor=1)
    ctx.rule("C05.R6", "load loop restores op, parent and metadata", floor=4)
    nf = NF(ctx.program)
    n = c02.r1_forward_codec(ctx, nf, rule="C05.R1")
    r1b_extension_op_chain(ctx, nf)
    ctx.stats["C05.R1 codec pairs"] = n
    r2_reverse(ctx, nf)
    c02.r4_r5_r7_load(ctx, R4="C05.R3", R5="C05.R3", R7="C05.R6")
    # (an edge of a foreign document that names no offset is put on the order port the shared helper computes: its table per op class
    #  decides where such edges land)
    from .c03 import r5_order_offset
    r5_order_offset(ctx, rule="C05.R3")
    r4_sugar(ctx, nf)
    c02.r2_single_use_iterators(ctx, rule="C05.R5")
    ctx.rule("C05.R7", "what is written is what the models hold: no dump exclusions, no model configuration that rewrites values (shared with C03.R1 / C17.R3)", floor=60)
    from .c03 import r1_emitters
    from .c17 import r3_no_hidden_acceptance_logic
    from ..schema import SchemaDeriver
    d3 = SchemaDeriver(ctx.program, None)
    d3.canon = ctx.canon
    with ctx.as_rule(C03_R1="C05.R7", C17_R3="C05.R7"):
        r1_emitters(ctx)
        r3_no_hidden_acceptance_logic(ctx, d3, with_required=False)
    from .. import lints
    lints.arm(ctx)



# ---------------------------------------------------------------------------------------
SO, ST, B, OPS, TYS, VAL = c02.SO, c02.ST, c02.B, c02.OPS, c02.TYS, c02.VAL
MUTANTS = [
    dict(name="sugar-eq-default", file=TYS, expect="C05.R4", old="@dataclass(eq=False)\nclass Tuple(Sum):", new="@dataclass\nclass Tuple(Sum):"),
    dict(name="sugar-eq-default-val", file=VAL, expect="C05.R4", old="@dataclass(eq=False)\nclass Some(Sum):", new="@dataclass()\nclass Some(Sum):"),
    dict(name="sum-eq-class-sensitive", file=TYS, expect="C05.R4",
         old="        return isinstance(other, Sum) and self.variant_rows == other.variant_rows",
         new="        return type(other) is type(self) and self.variant_rows == other.variant_rows"),
    dict(name="val-sum-eq-ignores-tag", file=VAL, expect="C05.R4",
         old="            isinstance(other, Sum)\n            and self.tag == other.tag\n", new="            isinstance(other, Sum)\n"),
    dict(name="option-overrides-bound", file=TYS, expect="C05.R4",
         old="    def __repr__(self) -> str:\n        return f\"Option({comma_sep_repr(self.variant_rows[1])})\"",
         new="    def type_bound(self) -> TypeBound:\n        return TypeBound.Any\n\n    def __repr__(self) -> str:\n        return f\"Option({comma_sep_repr(self.variant_rows[1])})\""),
    dict(name="some-op-overrides-signature", file=OPS, expect="C05.R4",
         old="    def __repr__(self) -> str:\n        return \"Some\"",
         new="    def outer_signature(self) -> tys.FunctionType:\n        return tys.FunctionType([], [self.sum_ty])\n\n    def __repr__(self) -> str:\n        return \"Some\""),
    dict(name="to-custom-drops-args", file=OPS, expect="C05.R1", old="            extension=ext.name if ext else \"\",\n            args=self.args,\n", new="            extension=ext.name if ext else \"\",\n"),
    dict(name="to-custom-wrong-name", file=OPS, expect="C05.R1", old="            op_name=self._op_def.name,\n            signature=sig,", new="            op_name=self._op_def.description,\n            signature=sig,"),
    dict(name="reverse-Tag-encoder-truncates", file=OPS, expect=["C05.R2", "C05.R1"],
         old="            variants=[ser_it(r) for r in self.sum_ty.variant_rows],", new="            variants=[ser_it(r) for r in self.sum_ty.variant_rows[:2]],"),
    dict(name="reverse-Alias-name-bound-swapped", file=TYS, expect=["C05.R2", "C05.R1"],
         old="        return stys.Alias(name=self.name, bound=self.bound)", new="        return stys.Alias(name=self.name, bound=TypeBound.Any)"),
]
TWINS = c02.TWINS + [
    dict(name="twin-eq-order", file=VAL, old="            and self.tag == other.tag\n            and self.typ == other.typ\n",
         new="            and self.typ == other.typ\n            and self.tag == other.tag\n"),
]


def thorough(ctx):
    from ..selftest import run_battery
    gen = c02.generated_mutants(ctx, rule="C05.R1")
    for g in gen:
        g["expect"] = ["C05.R1", "C05.R2"]
    hand = [dict(m, expect=(["C05.R1", "C05.R2", "C05.R3", "C05.R5", "C05.R6"])) for m in c02.HAND_MUTANTS
            if m["name"] not in ("to_json-bypasses-serial", "raw-parent-index", "raw-edge-source", "metadata-misaligned", "offset-not-encoded")]
    return run_battery(ctx, gen + hand + MUTANTS, TWINS)
