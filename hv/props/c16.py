"""C16 -- node handles enumerate exactly their operation's value outputs.

R1 identity (dataclass flags); R2 handles returned by the graph / builders carry their output count and container
handles are refreshed when it changes; R3 protocol wiring and the raise sites of the index normalisation.
Not decided: the integer / slice arithmetic itself (run-time integers).
"""
from __future__ import annotations

import ast

from ..cfg import CFG, EXIT, RAISE
from ..model import calls_in, call_name, kwarg, real_body, u
from ..nf import NF, Env, Opaque, attr, const, ctor_args, show, sym
from .c13 import _controlling_tests, _raise_nodes

NP = "hugr.hugr.node_port"


def r1_identity(ctx) -> None:
    m = ctx.program.module(NP)
    for cname in ("_Port", "InPort", "OutPort", "Node", "_SubPort"):
        c = m.classes.get(cname)
        if c is None:
            ctx.broken(f"anchor vanished: {NP}.{cname}")
        kw = c.dataclass_kwargs
        ok = c.is_dataclass and kw.get("frozen") is True and kw.get("eq", True) is True
        ctx.check(ok, "C16.R1", f"{NP}.{cname}: frozen value type", m.path, c.node.lineno,
                  f"{cname} must be a frozen dataclass with generated equality/hash: ports and nodes are dictionary keys of the link map", c.node, found=str(kw))
        ctx.check("__eq__" not in c.methods and "__hash__" not in c.methods, "C16.R1", f"{NP}.{cname}: no custom eq/hash", m.path, c.node.lineno,
                  "identity must be the generated field-wise one", c.methods.get("__eq__") or c.methods.get("__hash__"))
    node = m.classes["Node"]
    fields = {f.name: f for f in node.fields}
    ctx.check(set(fields) == {"idx", "_metadata", "_num_out_ports"}, "C16.R1", "Node: fields", m.path, node.node.lineno,
              "Node carries its index plus two non-identity attributes", node.node, found=str(sorted(fields)))
    for fname in ("_metadata", "_num_out_ports"):
        f = fields.get(fname)
        ctx.check(f is not None and f.flag("compare", True) is False, "C16.R1", f"Node.{fname}: excluded from identity", m.path, f.node.lineno if f else node.node.lineno,
                  f"Node.{fname} must have compare=False: nodes (and therefore ports) compare and hash by index only", f.node if f else node.node)
    f = fields.get("idx")
    ctx.check(f is not None and f.flag("compare", True) is True, "C16.R1", "Node.idx: the identity", m.path, node.node.lineno, "", node.node)
    port = m.classes["_Port"]
    pf = {f.name: f for f in port.fields}
    ctx.check([f.name for f in port.fields if not f.classvar] == ["node", "offset"] and pf.get("direction") is not None and pf["direction"].classvar, "C16.R1",
              "_Port: identity is (node, offset)", m.path, port.node.lineno, "direction must be a ClassVar, not a field", port.node)
    for cname in ("InPort", "OutPort"):
        c = m.classes[cname]
        extra = [f.name for f in c.fields if not f.classvar]
        ctx.check(not extra, "C16.R1", f"{cname}: no extra fields", m.path, c.node.lineno, "", c.node, found=str(extra))


def r2_counts(ctx) -> None:
    prog = ctx.program
    hugr = prog.cls("hugr.hugr.base.Hugr")
    file = hugr.module.path
    an = hugr.methods["_add_node"]
    rep = [c for c in calls_in(an) if u(c.func) == "replace" and kwarg(c, "_num_out_ports") is not None]
    ok = len(rep) == 1 and u(kwarg(rep[0], "_num_out_ports")) == "num_outs"
    rets = [r for r in ast.walk(an) if isinstance(r, ast.Return)]
    ok = ok and len(rets) == 1 and u(rets[0].value) == "node"
    ctx.check(ok, "C16.R2", "Hugr._add_node: handle carries the requested count", file, an.lineno,
              "the handle returned for a new node must know the output count it was created with", an)
    pub = hugr.methods["add_node"]
    rb = real_body(pub)
    ok = any(isinstance(s, ast.Return) and u(s.value) == "self._add_node(op, parent, num_outs, metadata)" for s in rb)
    ctx.check(ok, "C16.R2", "Hugr.add_node: forwards num_outs", file, pub.lineno, "", pub)
    up = hugr.methods["_update_port_count"]
    src = u(up)
    ok = "node = replace(node, _num_out_ports=num_outs)" in src and "self[parent].children[pos] = node" in src and "self[parent].children.index(node)" in src
    rets = [r for r in ast.walk(up) if isinstance(r, ast.Return)]
    ok = ok and all(u(r.value) == "node" for r in rets)
    ctx.check(ok, "C16.R2", "Hugr._update_port_count: refreshed handle", file, up.lineno,
              "changing a node's output count must return a refreshed handle and refresh the copy kept in the parent's child list", up)
    uo = hugr.methods["_update_node_outs"]
    ok = u(real_body(uo)[-1]) == "return self._update_port_count(node, num_outs=num_outs)"
    ctx.check(ok, "C16.R2", "Hugr._update_node_outs", file, uo.lineno, "", uo)
    ih = hugr.methods["insert_hugr"]
    adds = [c for c in calls_in(ih) if call_name(c) in ("add_node", "_add_node")]
    ok = len(adds) == 1 and kwarg(adds[0], "num_outs", 2) is not None and u(kwarg(adds[0], "num_outs", 2)).endswith("._num_outs")
    ctx.check(ok, "C16.R2", "Hugr.insert_hugr: copied handles carry the source's count", file, ih.lineno, "", ih)
    # builders
    df = prog.cls("hugr.build.dfg.DfBase")
    dfile = df.module.path
    ao = df.methods["add_op"]
    rets = [r for r in ast.walk(ao) if isinstance(r, ast.Return)]
    ok = len(rets) == 1 and u(rets[0].value) == "replace(new_n, _num_out_ports=op.num_out)"
    wired_before = any("self._wire_up(new_n" in u(s) for s in real_body(ao))
    ctx.check(ok and wired_before, "C16.R2", "DfBase.add_op: handle carries op.num_out", dfile, ao.lineno,
              "the handle returned by add_op must carry the operation's output count, read after wiring (partial ops learn their types there)", ao)
    call = df.methods["call"]
    adds = [c for c in calls_in(call) if call_name(c) == "add_node"]
    ok = len(adds) == 1 and (kwarg(adds[0], "num_outs", 2) is not None and u(kwarg(adds[0], "num_outs", 2)) == "call_op.num_out")
    rets = [r for r in ast.walk(call) if isinstance(r, ast.Return)]
    ok = ok and len(rets) == 1 and u(rets[0].value) == "call_n"
    ctx.check(ok, "C16.R2", "DfBase.call: handle carries call_op.num_out", dfile, call.lineno, "", call)
    from ..nf import NF as _NF
    _nf = _NF(prog)
    callc = prog.cls("hugr.ops.Call")
    k_, nm = callc.find_method("num_out")
    got = [t for _, t, _ in _nf.method_alts(callc, "num_out")]
    want = _nf.expr_nf("len(self.instantiation.output)", callc)[0]
    ctx.check(all(t == want for t in got), "C16.R2", "hugr.ops.Call.num_out: outputs of the instantiated signature", callc.module.path, nm.lineno,
              "the count stored in a call's handle is Call.num_out: it must be the number of outputs of the instantiated signature (the polymorphic body can have another arity)",
              nm, expected=show(want), found="; ".join(show(t) for t in got))
    ld = df.methods["load"]
    ok = any(isinstance(s, ast.Assign) and u(s) == "load = self.add(load_op())" for s in ast.walk(ld)) and u([r for r in ast.walk(ld) if isinstance(r, ast.Return)][-1].value) == "load"
    ctx.check(ok, "C16.R2", "DfBase.load: handle from add", dfile, ld.lineno, "", ld)
    for name in ("add", "extend"):
        m = df.methods[name]
        ok = ("return self.add_op(" in u(m)) if name == "add" else (u(real_body(m)[-1]) == "return [self.add(com) for com in coms]")
        ctx.check(ok, "C16.R2", f"DfBase.{name}: returns add_op handles", dfile, m.lineno, "", m)
    # every _update_node_outs / _update_port_count on the builder's own parent node is assigned back
    n = 0
    for mn, m in prog.modules.items():
        if not mn.startswith("hugr.build"):
            continue
        for c in calls_in(m.tree):
            if call_name(c) in ("_update_node_outs", "_update_port_count") and c.args and u(c.args[0]) == "self.parent_node":
                n += 1
                assigned = any(isinstance(s, ast.Assign) and s.value is c and u(s.targets[0]) == "self.parent_node" for s in ast.walk(m.tree))
                ctx.check(assigned, "C16.R2", f"{mn}:{c.lineno and ''}{_enclosing_name(m, c)}: container handle refreshed", m.path, c.lineno,
                          "the refreshed handle returned when a container's output count changes must be stored back in self.parent_node: otherwise the "
                          "builder keeps a handle that does not know its outputs", c)
    ctx.stats["C16.R2 container count updates"] = n
    # each container's set_outputs path reaches such an update
    reach = {
        "hugr.build.dfg.Dfg.set_outputs": "_set_parent_output_count", "hugr.build.cfg.Block.set_outputs": "_set_parent_output_count",
        "hugr.build.cond_loop.TailLoop.set_outputs": "_set_parent_output_count", "hugr.build.cond_loop.Case.set_outputs": "_update_outputs",
        "hugr.build.dfg.Function.declare_outputs": "_set_parent_output_count",
    }
    for q, callee in reach.items():
        c, m = prog.method(q, own=True)
        ctx.check(any(call_name(x) == callee for x in calls_in(m)), "C16.R2", f"{q.split('.', 2)[2]}: updates the container's count", c.module.path, m.lineno,
                  f"once outputs are set the container handle must learn its output count (via {callee})", m)
    sp = df.methods["_set_parent_output_count"]
    ok = u(real_body(sp)[-1]) == "self.parent_node = self.hugr._update_node_outs(self.parent_node, count)"
    ctx.check(ok, "C16.R2", "DfBase._set_parent_output_count", dfile, sp.lineno, "", sp)


def _enclosing_name(m, node):
    best = None
    for fn in ast.walk(m.tree):
        if isinstance(fn, ast.FunctionDef) and fn.lineno <= node.lineno <= (fn.end_lineno or fn.lineno):
            if best is None or fn.lineno >= best.lineno:
                best = fn
    return best.name if best else "<module>"


def r3_protocol(ctx) -> None:
    prog = ctx.program
    m = prog.module(NP)
    nf = NF(prog)
    tn = m.classes["ToNode"]
    rows = [("out_port", "OutPort(self.to_node(), 0)", "a node used as a wire means its output 0"),
            ("outputs", "self[:]", "outputs() is the full slice"), ("__iter__", "self.outputs()", "iteration yields the outputs"),
            ("__getitem__", "self.to_node()._index(index)", "indexing is delegated to the node"),
            ("inp", "InPort(self.to_node(), offset)", ""), ("out", "OutPort(self.to_node(), offset)", "")]
    from .c04 import _expr_no_inline, _nf_no_inline
    for name, expr, why in rows:
        k, meth = tn.find_method(name)
        if meth is None:
            ctx.broken(f"anchor vanished: ToNode.{name}")
        try:
            got, _ = _nf_no_inline(nf, tn, name)
            want = _expr_no_inline(nf, tn, expr, meth)
        except Opaque as e:
            ctx.broken(f"ToNode.{name}: {e}")
        ctx.check(got == want, "C16.R3", f"ToNode.{name}", m.path, meth.lineno, f"ToNode.{name} must be {expr} {('(' + why + ')') if why else ''}", meth, expected=show(want), found=show(got))
    node = m.classes["Node"]
    ctx.check(u(real_body(node.methods["to_node"])[-1]) == "return self", "C16.R3", "Node.to_node", m.path, node.methods["to_node"].lineno, "", node.methods["to_node"])
    # _index: ValueError exactly when stop and the count are both unknown
    ix = node.methods.get("_index")
    if ix is None:
        ctx.broken("anchor vanished: Node._index")
    slice_arm = [c for n in ast.walk(ix) if isinstance(n, ast.Match) for c in n.cases if isinstance(c.pattern, ast.MatchClass) and u(c.pattern.cls) == "slice"]
    if len(slice_arm) != 1:
        ctx.broken("Node._index: slice arm not found")
    g = CFG(slice_arm[0].body)
    rs = _raise_nodes(g, "ValueError")
    ok = len(rs) == 1
    if ok:
        tests = _controlling_tests(g, rs[0])
        ok = any(u(g.stmt[t]) == "stop is None" and lab == "T" for t, lab in tests)
        stop = [s for s in slice_arm[0].body if isinstance(s, ast.Assign) and u(s.targets[0]) == "stop"]
        ok = ok and len(stop) >= 1 and u(stop[0].value) == "index.stop if index.stop is not None else self._num_out_ports"
    ctx.check(ok, "C16.R3", "Node._index: ValueError without a known count", m.path, ix.lineno,
              "slicing (and therefore iterating) a handle raises ValueError exactly when neither the slice's stop nor the handle's output count is known", ix)
    src = u(slice_arm[0])
    ok = "self._normalize_index(start, allow_overflow=True)" in src and "self._normalize_index(stop, allow_overflow=True)" in src and "range(start, stop, step)" in src \
        and "start = index.start or 0" in src and "step = index.step or 1" in src
    ctx.check(ok, "C16.R3", "Node._index: slice bounds normalised with clamping", m.path, ix.lineno, "", ix)
    int_arm = [c for n in ast.walk(ix) if isinstance(n, ast.Match) for c in n.cases if isinstance(c.pattern, ast.MatchClass) and u(c.pattern.cls) == "PortOffset"]
    ok = len(int_arm) == 1 and "self._normalize_index(index)" in u(int_arm[0]) and "return self.out(index)" in u(int_arm[0])
    ctx.check(ok, "C16.R3", "Node._index: integer indexing normalised without clamping", m.path, ix.lineno, "", ix)
    # _normalize_index: three IndexError refusals under the right tests
    ni = node.methods.get("_normalize_index")
    g = CFG(real_body(ni))
    rs = _raise_nodes(g, "IndexError")
    specs = {"overflow": ["index >= self._num_out_ports", "not allow_overflow"], "underflow": ["index < -self._num_out_ports"], "negative-unknown": ["index < 0"]}
    found = {}
    for r in rs:
        tests = [(u(g.stmt[t]), lab) for t, lab in _controlling_tests(g, r)]
        txt = " & ".join(f"{t}:{lab}" for t, lab in tests)
        for k, frags in specs.items():
            if all(any(f in t for t, lab in tests) for f in frags):
                if k == "negative-unknown" and not any("self._num_out_ports is not None" in t and lab == "F" for t, lab in tests):
                    continue
                if k != "negative-unknown" and not any("self._num_out_ports is not None" in t and lab == "T" for t, lab in tests):
                    continue
                found[k] = txt
    for k in specs:
        ctx.check(k in found, "C16.R3", f"Node._normalize_index: IndexError on {k}", m.path, ni.lineno,
                  f"the {k} case must be refused with IndexError under the tests {specs[k]}", ni, detail=found.get(k, ""))
    rets = sorted(u(r.value) for r in ast.walk(ni) if isinstance(r, ast.Return))
    ctx.check(rets == sorted(["min(index, self._num_out_ports)", "index", "self._num_out_ports + index"]), "C16.R3", "Node._normalize_index: results", m.path, ni.lineno,
              "non-negative indices are clamped to the count (when known), negative ones are counted from the end", ni, found=str(rets))


def run(ctx) -> None:
    ctx.rule("C16.R1", "nodes and ports are frozen value types identified by index / (node, offset) only", floor=15)
    ctx.rule("C16.R2", "handles returned by the graph and the builders carry their output count; container handles are refreshed and stored back", floor=16)
    ctx.rule("C16.R3", "ToNode protocol wiring; ValueError / IndexError refusal sites of the index normalisation", floor=14)
    r1_identity(ctx)
    r2_counts(ctx)
    r3_protocol(ctx)
    from .. import lints
    lints.arm(ctx)



# ---------------------------------------------------------------------------------------
N = "hugr-py/src/hugr/hugr/node_port.py"
B = "hugr-py/src/hugr/hugr/base.py"
D = "hugr-py/src/hugr/build/dfg.py"
CL = "hugr-py/src/hugr/build/cond_loop.py"
CF = "hugr-py/src/hugr/build/cfg.py"
MUTANTS = [
    dict(name="metadata-in-identity", file=N, expect="C16.R1", old="        repr=False, compare=False, default_factory=dict\n", new="        repr=False, default_factory=dict\n"),
    dict(name="count-in-identity", file=N, expect="C16.R1", old="    _num_out_ports: int | None = field(default=None, compare=False, repr=False)", new="    _num_out_ports: int | None = field(default=None, repr=False)"),
    dict(name="port-not-frozen", file=N, expect="C16.R1", old="@dataclass(frozen=True, eq=True, order=True)\nclass OutPort(_Port, Wire):", new="@dataclass(eq=True, order=True, unsafe_hash=True)\nclass OutPort(_Port, Wire):"),
    dict(name="direction-a-field", file=N, expect="C16.R1", old="    direction: ClassVar[Direction]\n", new="    direction: Direction = Direction.INCOMING\n"),
    dict(name="add-op-stale-count", file=D, expect="C16.R2", old="        return replace(new_n, _num_out_ports=op.num_out)", new="        return new_n"),
    dict(name="call-without-count", file=D, expect="C16.R2", old="        call_n = self.hugr.add_node(call_op, self.parent_node, call_op.num_out)", new="        call_n = self.hugr.add_node(call_op, self.parent_node)"),
    dict(name="container-handle-not-stored", file=D, expect="C16.R2", old="        self.parent_node = self.hugr._update_node_outs(self.parent_node, count)", new="        self.hugr._update_node_outs(self.parent_node, count)"),
    dict(name="cond-handle-not-stored", file=CL, expect="C16.R2", old="            self.parent_node = self.hugr._update_node_outs(\n                self.parent_node, len(outputs)\n            )", new="            self.hugr._update_node_outs(self.parent_node, len(outputs))"),
    dict(name="dfg-count-not-updated", file=D, expect="C16.R2", old="        super().set_outputs(*outputs)\n        self._set_parent_output_count(len(outputs))", new="        super().set_outputs(*outputs)"),
    dict(name="children-copy-stale", file=B, expect="C16.R2", old="                pos = self[parent].children.index(node)\n                self[parent].children[pos] = node\n", new="                pass\n"),
    dict(name="add-node-drops-count", file=B, expect="C16.R2", old="        return self._add_node(op, parent, num_outs, metadata)", new="        return self._add_node(op, parent, None, metadata)"),
    dict(name="insert-loses-count", file=B, expect=["C16.R2"], old="                num_outs=node_data._num_outs,\n", new=""),
    dict(name="wire-means-last-output", file=N, expect="C16.R3", old="        return OutPort(self.to_node(), 0)", new="        return OutPort(self.to_node(), -1)"),
    dict(name="iterate-unknown-count", file=N, expect="C16.R3", old="                if stop is None:\n                    msg = (", new="                if stop is None and False:\n                    msg = ("),
    dict(name="overflow-accepted", file=N, expect="C16.R3", old="            if index >= self._num_out_ports and not allow_overflow:\n                raise IndexError(msg)\n", new=""),
    dict(name="underflow-accepted", file=N, expect="C16.R3", old="            if index < -self._num_out_ports:\n                raise IndexError(msg)\n", new=""),
    dict(name="negative-unknown-accepted", file=N, expect="C16.R3", old="        else:\n            if index < 0:\n                raise IndexError(msg)\n", new=""),
    dict(name="int-index-clamped", file=N, expect="C16.R3", old="                index = self._normalize_index(index)\n                return self.out(index)", new="                index = self._normalize_index(index, allow_overflow=True)\n                return self.out(index)"),
    dict(name="negative-from-zero", file=N, expect="C16.R3", old="            return self._num_out_ports + index", new="            return -index"),
]
TWINS = [
    dict(name="twin-outputs-inline", file=N, old="        return self.outputs()\n", new="        outs = self.outputs()\n        return outs\n"),
]


def thorough(ctx):
    from ..selftest import run_battery
    return run_battery(ctx, MUTANTS, TWINS)
