"""C16 -- node handles enumerate exactly their operation's value outputs.

R1 identity (dataclass flags); R2 handles returned by the graph / builders carry their output count and container
handles are refreshed when it changes; R3 protocol wiring and the raise sites of the index normalisation.
Not decided: the integer / slice arithmetic itself (run-time integers).
"""
from __future__ import annotations

import ast

from ..cfg import CFG, EXIT, RAISE
from ..model import calls_in, call_name, kwarg, real_body, u
from ..nf import NF, Env, Opaque, attr, const, ctor_args, show, sym
from .c13 import _controlling_tests, _raise_nodes

NP = "hugr.hugr.node_port"


def r1_identity(ctx) -> None:
    m = ctx.program.module(NP)
    for cname in ("_Port", "InPort", "OutPort", "Node", "_SubPort"):
        c = m.classes.get(cname)
        if c is None:
            ctx.broken(f"anchor vanished: {NP}.{cname}")
        kw = c.dataclass_kwargs
        ok = c.is_dataclass and kw.get("frozen") is True and kw.get("eq", True) is True
        ctx.check(ok, "C16.R1", f"{NP}.{cname}: frozen value type", m.path, c.node.lineno,
                  f"{cname} must be a frozen dataclass with generated equality/hash: ports and nodes are dictionary keys of the link map", c.node, found=str(kw))
        ctx.check("__eq__" not in c.methods and "__hash__" not in c.methods, "C16.R1", f"{NP}.{cname}: no custom eq/hash", m.path, c.node.lineno,
                  "identity must be the generated field-wise one", c.methods.get("__eq__") or c.methods.get("__hash__"))
    node = m.classes["Node"]
    fields = {f.name: f for f in node.fields}
    ctx.check(set(fields) == {"idx", "_metadata", "_num_out_ports"}, "C16.R1", "Node: fields", m.path, node.node.lineno,
              "Node carries its index plus two non-identity attributes", node.node, found=str(sorted(fields)))
    for fname in ("_metadata", "_num_out_ports"):
        f = fields.get(fname)
        ctx.check(f is not None and f.flag("compare", True) is False, "C16.R1", f"Node.{fname}: excluded from identity", m.path, f.node.lineno if f else node.node.lineno,
                  f"Node.{fname} must have compare=False: nodes (and therefore ports) compare and hash by index only", f.node if f else node.node)
    f = fields.get("idx")
    ctx.check(f is not None and f.flag("compare", True) is True, "C16.R1", "Node.idx: the identity", m.path, node.node.lineno, "", node.node)
    port = m.classes["_Port"]
    pf = {f.name: f for f in port.fields}
    ctx.check([f.name for f in port.fields if not f.classvar] == ["node", "offset"] and pf.get("direction") is not None and pf["direction"].classvar, "C16.R1",
              "_Port: identity is (node, offset)", m.path, port.node.lineno, "direction must be a ClassVar, not a field", port.node)
    for cname in ("InPort", "OutPort"):
        c = m.classes[cname]
        extra = [f.name for f in c.fields if not f.classvar]
        ctx.check(not extra, "C16.R1", f"{cname}: no extra fields", m.path, c.node.lineno, "", c.node, found=str(extra))


def _has(p, spec) -> bool:
    """the path takes each listed test the listed way"""
    return all(any(u(t) == txt and k == pol for t, k in p.tests) for txt, pol in spec.items())


def _handle_with_count(v, count: str, base: str | None = None):
    """v is a node handle rebuilt with output count `count`: replace(B, _num_out_ports=count[, _metadata=..]) or, written out,
    Node(B.idx, <metadata>, count).  Returns the text of B (the handle / index source it was rebuilt from), None if v is something else."""
    from ..tmpl import T, tmatch
    if v is None:
        return None
    for t in (f"replace(E_b, _num_out_ports={count}, _metadata=ANY_)", f"replace(E_b, _num_out_ports={count})",
              f"Node(E_b.idx, ANY_, {count})", f"Node(E_b.idx, _metadata=ANY_, _num_out_ports={count})"):
        e = tmatch(v, T(t))
        if e is not None and (base is None or e["E_b"] == base):
            return e["E_b"]
    for t in (f"Node(E_i, ANY_, {count})",):
        e = tmatch(v, T(t))
        if e is not None and base is None:
            return e["E_i"]
    return None


def r2_counts(ctx) -> None:
    """stated over path summaries / canonical bodies: locals, temporaries, loop-vs-comprehension and helper extraction do not matter"""
    from ..rulekit import unold
    from ..tmpl import T, tfind, thas, tmatch
    prog = ctx.program
    hugr = prog.cls("hugr.hugr.base.Hugr")
    file = hugr.module.path
    H = "hugr.hugr.base.Hugr"
    an = hugr.methods["_add_node"]
    ps = [p for p in ctx.paths(f"{H}._add_node") if p.kind != "raise"]
    ok = bool(ps) and all(p.kind == "return" and _handle_with_count(p.value, "num_outs") is not None for p in ps)
    ctx.check(ok, "C16.R2", "Hugr._add_node: handle carries the requested count", file, an.lineno,
              "the handle returned for a new node must know the output count it was created with", an)
    pub = hugr.methods["add_node"]
    ps = ctx.paths(f"{H}.add_node")
    pa = [a.arg for a in pub.args.args]
    ok = bool(ps) and all(p.kind == "return" and tmatch(p.value, T(f"self._add_node({pa[1]}, ANY_, {pa[3]}, {pa[4]})")) is not None for p in ps)
    ctx.check(ok, "C16.R2", "Hugr.add_node: forwards num_outs", file, pub.lineno, "", pub)
    # the two count-updating entry points, each judged with the other seen through (which of them carries the implementation is free)
    for mname, other, title in (("_update_port_count", "_update_node_outs", "Hugr._update_port_count: refreshed handle"),
                                ("_update_node_outs", "_update_port_count", "Hugr._update_node_outs")):
        up = hugr.methods[mname]
        ups = [p for p in ctx.paths(f"{H}.{mname}", inline=(other,)) if p.kind != "raise"]
        node_p = up.args.args[1].arg
        ok = bool(ups)
        seen = set()
        for p in ups:
            changed = [k for t, k in p.tests if u(t) == "num_outs is not None"]
            if not changed or p.kind != "return":
                ok = False
                continue
            if not changed[0]:
                ok = ok and p.value_text() == node_p
                continue
            pv = ast.parse(unold(p.value), mode="eval").body if p.value is not None else None
            ok = ok and _handle_with_count(pv, "num_outs", node_p) is not None
            new_h = unold(p.value) if p.value is not None else ""
            st = p.find_effect("self[E_par].children[self[E_par].children.index(E_n)] = E_n")
            has_par = [k for t, k in p.tests if isinstance(t, ast.Compare) and u(t).endswith(".parent is not None")]
            if has_par and has_par[0]:
                seen.add("child")
                ok = ok and len(st) == 1 and unold(st[0][2]["E_n"]) == new_h
            else:
                seen.add("root")
                ok = ok and bool(has_par) and not st
            # the stored count is the new one
            ok = ok and len(p.find_effect(f"self[{node_p}]._num_outs = num_outs")) == 1
        ctx.check(ok and seen == {"child", "root"}, "C16.R2", title, file, up.lineno,
                  "changing a node's output count must store it, return a refreshed handle and refresh the copy kept in the parent's child list", up,
                  found="; ".join(p.describe() for p in ups)[:300])
    ih = ctx.cfn(f"{H}.insert_hugr", accessors=True)
    adds = [c for c in calls_in(ih) if call_name(c) in ("add_node", "_add_node")]
    ok = len(adds) == 1 and kwarg(adds[0], "num_outs", 2) is not None and u(kwarg(adds[0], "num_outs", 2)).endswith("._num_outs")
    ctx.check(ok, "C16.R2", "Hugr.insert_hugr: copied handles carry the source's count", file, ih.lineno, "", ih)
    # builders
    df = prog.cls("hugr.build.dfg.DfBase")
    dfile = df.module.path
    D = "hugr.build.dfg.DfBase"
    ao = df.methods["add_op"]
    opp = (ao.args.posonlyargs + ao.args.args)[1].arg
    ps = [p for p in ctx.paths(f"{D}.add_op") if p.kind != "raise"]
    ok = bool(ps)
    for p in ps:
        b_ = _handle_with_count(p.value, f"{opp}.num_out") if p.kind == "return" else None
        e = {"E_n": b_} if b_ is not None else None
        w = p.find_effect("self._wire_up(E_n, E_args)", e) if e is not None else []
        ok = ok and e is not None and len(w) == 1 and "add_node(" in e["E_n"]
    ctx.check(ok, "C16.R2", "DfBase.add_op: handle carries op.num_out", dfile, ao.lineno,
              "the handle returned by add_op must carry the operation's output count, read after wiring (partial ops learn their types there)", ao)
    call = df.methods["call"]
    ps = [p for p in ctx.paths(f"{D}.call") if p.kind != "raise"]
    ok = bool(ps)
    for p in ps:
        v = ast.parse(unold(p.value), mode="eval").body if p.kind == "return" and p.value is not None else None
        e = tmatch(v, T("self.hugr.add_node(E_op, self.parent_node, E_op.num_out)")) if v is not None else None
        ok = ok and e is not None and e["E_op"].startswith("ops.Call(")
    ctx.check(ok, "C16.R2", "DfBase.call: handle carries call_op.num_out", dfile, call.lineno, "", call)
    from ..nf import NF as _NF
    _nf = _NF(prog)
    callc = prog.cls("hugr.ops.Call")
    k_, nm = callc.find_method("num_out")
    got = [t for _, t, _ in _nf.method_alts(callc, "num_out")]
    want = _nf.expr_nf("len(self.instantiation.output)", callc)[0]
    ctx.check(all(t == want for t in got), "C16.R2", "hugr.ops.Call.num_out: outputs of the instantiated signature", callc.module.path, nm.lineno,
              "the count stored in a call's handle is Call.num_out: it must be the number of outputs of the instantiated signature (the polymorphic body can have another arity)",
              nm, expected=show(want), found="; ".join(show(t) for t in got))
    ld = df.methods["load"]
    ps = [p for p in ctx.paths(f"{D}.load") if p.kind != "raise"]
    ok = bool(ps) and all(p.kind == "return" and unold(p.value).startswith("self.add(") for p in ps)
    ctx.check(ok, "C16.R2", "DfBase.load: handle from add", dfile, ld.lineno, "", ld)
    m = df.methods["add"]
    ps = [p for p in ctx.paths(f"{D}.add") if p.kind != "raise"]
    ok = bool(ps) and all(p.kind == "return" and unold(p.value).startswith("self.add_op(") for p in ps)
    ctx.check(ok, "C16.R2", "DfBase.add: returns add_op handles", dfile, m.lineno, "", m)
    m = df.methods["extend"]
    ok = thas(ctx.cfn(f"{D}.extend"), "return [self.add(c0) for c0 in L_coms]")
    ctx.check(ok, "C16.R2", "DfBase.extend: returns add_op handles", dfile, m.lineno, "", m)
    # every _update_node_outs / _update_port_count on the builder's own parent node is assigned back
    n = 0
    for mn, m in prog.modules.items():
        if not mn.startswith("hugr.build"):
            continue
        for c in calls_in(m.tree):
            if call_name(c) in ("_update_node_outs", "_update_port_count") and c.args and u(c.args[0]) == "self.parent_node":
                n += 1
                assigned = any(isinstance(s, ast.Assign) and s.value is c and u(s.targets[0]) == "self.parent_node" for s in ast.walk(m.tree))
                ctx.check(assigned, "C16.R2", f"{mn}:{c.lineno and ''}{_enclosing_name(m, c)}: container handle refreshed", m.path, c.lineno,
                          "the refreshed handle returned when a container's output count changes must be stored back in self.parent_node: otherwise the "
                          "builder keeps a handle that does not know its outputs", c)
    ctx.stats["C16.R2 container count updates"] = n
    # each container's set_outputs path reaches such an update
    reach = {
        "hugr.build.dfg.Dfg.set_outputs": "_set_parent_output_count", "hugr.build.cfg.Block.set_outputs": "_set_parent_output_count",
        "hugr.build.cond_loop.TailLoop.set_outputs": "_set_parent_output_count", "hugr.build.cond_loop.Case.set_outputs": "_update_outputs",
        "hugr.build.dfg.Function.declare_outputs": "_set_parent_output_count",
    }
    for q, callee in reach.items():
        c, m = prog.method(q)
        m = ctx.cfn(q, supers=True)        # the method as this class runs it (inherited body, super() calls and hooks seen through)
        ctx.check(any(call_name(x) == callee for x in calls_in(m)), "C16.R2", f"{q.split('.', 2)[2]}: updates the container's count", c.module.path, m.lineno,
                  f"once outputs are set the container handle must learn its output count (via {callee})", m)
    _, sp = df.find_method("_set_parent_output_count")        # (wherever in the builder hierarchy it is defined)
    if sp is None:
        ctx.broken("anchor vanished: DfBase._set_parent_output_count")
    cnt = sp.args.args[1].arg
    ps = [p for p in ctx.paths(f"{D}._set_parent_output_count") if p.kind != "raise"]
    ok = bool(ps) and all(len(p.find_effect(f"self.parent_node = self.hugr._update_node_outs(self.parent_node, {cnt})")) == 1 for p in ps)
    ctx.check(ok, "C16.R2", "DfBase._set_parent_output_count", dfile, sp.lineno, "", sp)


def _enclosing_name(m, node):
    best = None
    for fn in ast.walk(m.tree):
        if isinstance(fn, ast.FunctionDef) and fn.lineno <= node.lineno <= (fn.end_lineno or fn.lineno):
            if best is None or fn.lineno >= best.lineno:
                best = fn
    return best.name if best else "<module>"


def r3_protocol(ctx) -> None:
    prog = ctx.program
    m = prog.module(NP)
    nf = NF(prog)
    tn = m.classes["ToNode"]
    rows = [("out_port", "OutPort(self.to_node(), 0)", "a node used as a wire means its output 0"),
            ("outputs", "self[:]", "outputs() is the full slice"), ("__iter__", "self.outputs()", "iteration yields the outputs"),
            ("__getitem__", "self.to_node()._index(index)", "indexing is delegated to the node"),
            ("inp", "InPort(self.to_node(), offset)", ""), ("out", "OutPort(self.to_node(), offset)", "")]
    from .c04 import _expr_no_inline, _nf_no_inline
    for name, expr, why in rows:
        k, meth = tn.find_method(name)
        if meth is None:
            ctx.broken(f"anchor vanished: ToNode.{name}")
        try:
            got, _ = _nf_no_inline(nf, tn, name)
            want = _expr_no_inline(nf, tn, expr, meth)
        except Opaque as e:
            ctx.broken(f"ToNode.{name}: {e}")
        ctx.check(got == want, "C16.R3", f"ToNode.{name}", m.path, meth.lineno, f"ToNode.{name} must be {expr} {('(' + why + ')') if why else ''}", meth, expected=show(want), found=show(got))
    node = m.classes["Node"]
    ctx.check(u(real_body(node.methods["to_node"])[-1]) == "return self", "C16.R3", "Node.to_node", m.path, node.methods["to_node"].lineno, "", node.methods["to_node"])
    # _index: ValueError exactly when stop and the count are both unknown   (path summaries)
    ix = node.methods.get("_index")
    if ix is None:
        ctx.broken("anchor vanished: Node._index")
    ip = ix.args.args[1].arg
    ps = ctx.paths(f"{NP}.Node._index")
    sl = [p for p in ps if any(u(t) == f"isinstance({ip}, slice)" and k for t, k in p.tests)]
    unknown = [p for p in sl if _has(p, {f"{ip}.stop is not None": False, "self._num_out_ports is not None": False})]
    known = [p for p in sl if p not in unknown]
    ok = bool(unknown) and all(p.kind == "raise" and p.value_text().startswith("ValueError") for p in unknown) and bool(known) and all(p.kind == "return" for p in known)
    ctx.check(ok, "C16.R3", "Node._index: ValueError without a known count", m.path, ix.lineno,
              "slicing (and therefore iterating) a handle raises ValueError exactly when neither the slice's stop nor the handle's output count is known", ix,
              found="; ".join(p.describe() for p in sl)[:300])
    ok = bool(known)
    for p in known:
        stop = f"{ip}.stop" if _has(p, {f"{ip}.stop is not None": True}) else "self._num_out_ports"
        want = f"(self[c0] for c0 in range(self._normalize_index({ip}.start or 0, True), self._normalize_index({stop}, True), {ip}.step or 1))"
        # (each element is an integer: self[c0] is the integer arm of this same method applied to it -- which may be written out)
        int_arm = [q for q in ps if q.kind == "return" and any(u(t) in (f"isinstance({ip}, PortOffset)", f"isinstance({ip}, int)") and k for t, k in q.tests)]
        alts = [want, want.replace("(self[c0] for", "[self[c0] for")[:-1] + "]"]
        if len(int_arm) == 1:
            import re as _re
            elem = _re.sub(rf"\b{_re.escape(ip)}\b", "c0", int_arm[0].value_text())
            alts += [want.replace("self[c0] for", f"{elem} for"), (want.replace("(self[c0] for", f"[{elem} for")[:-1] + "]")]
        ok = ok and p.value_text() in alts
    ctx.check(ok, "C16.R3", "Node._index: slice bounds normalised with clamping", m.path, ix.lineno, "", ix, found="; ".join(p.value_text() for p in known)[:300])
    ia = [p for p in ps if any(u(t) in (f"isinstance({ip}, PortOffset)", f"isinstance({ip}, int)") and k for t, k in p.tests)]
    ok = bool(ia) and all(p.kind == "return" and p.value_text() == f"self.out(self._normalize_index({ip}))" for p in ia)
    ctx.check(ok, "C16.R3", "Node._index: integer indexing normalised without clamping", m.path, ix.lineno, "", ix)
    # _normalize_index: three IndexError refusals under the right tests
    ni = node.methods.get("_normalize_index")
    i_ = ni.args.args[1].arg
    ps = ctx.paths(f"{NP}.Node._normalize_index")
    K = "self._num_out_ports is not None"
    specs = {"overflow": {K: True, f"{i_} < self._num_out_ports": False, "allow_overflow": False},
             "underflow": {K: True, f"{i_} < -self._num_out_ports": True},
             "negative-unknown": {K: False, f"{i_} < 0": True}}
    for k, spec in specs.items():
        hit = [p for p in ps if _has(p, spec)]
        ok = bool(hit) and all(p.kind == "raise" and p.value_text().startswith("IndexError") for p in hit)
        ctx.check(ok, "C16.R3", f"Node._normalize_index: IndexError on {k}", m.path, ni.lineno,
                  f"the {k} case must be refused with IndexError under the tests {spec}", ni, detail="; ".join(p.describe() for p in hit)[:200],
                  found="; ".join(p.describe() for p in ps)[:300])
    ok = True
    for p in ps:
        if p.kind != "return":
            continue
        kn = [k for t, k in p.tests if u(t) == K]
        neg = [k for t, k in p.tests if u(t) == f"{i_} < 0"]
        if not kn or not neg:
            ok = False
            continue
        want = (f"self._num_out_ports + {i_}" if neg[0] else f"min({i_}, self._num_out_ports)") if kn[0] else i_
        ok = ok and p.value_text() == want
    ctx.check(ok, "C16.R3", "Node._normalize_index: results", m.path, ni.lineno,
              "non-negative indices are clamped to the count (when known), negative ones are counted from the end", ni, found="; ".join(p.describe() for p in ps if p.kind == "return")[:300])


def run(ctx) -> None:
    ctx.rule("C16.R1", "nodes and ports are frozen value types identified by index / (node, offset) only", floor=15)
    ctx.rule("C16.R2", "handles returned by the graph and the builders carry their output count; container handles are refreshed and stored back", floor=16)
    ctx.rule("C16.R3", "ToNode protocol wiring; ValueError / IndexError refusal sites of the index normalisation", floor=14)
    r1_identity(ctx)
    r2_counts(ctx)
    r3_protocol(ctx)
    # the handle of the enclosing Conditional that If / Else hand out is the builder's own, refreshed one (a handle re-read from a stored
    # `.parent` field is equal but carries the count of when it was stored)
    q_ = "hugr.build.cond_loop._IfElse.conditional_node"
    fn_, m_, _ = ctx.locate(q_)
    ps_ = ctx.paths(q_)
    ok_ = bool(ps_) and all(p_.kind == "return" and p_.value_text() == "self._parent_conditional().parent_node" for p_ in ps_ if p_.kind != "raise")
    ctx.check(ok_, "C16.R2", "_IfElse.conditional_node: the builder's refreshed handle", m_.path, fn_.lineno,
              "conditional_node must be the Conditional builder's current parent_node (the handle _update_port_count keeps fresh), not a handle read back "
              "from a node's stored parent", fn_, expected="self._parent_conditional().parent_node", found="; ".join(p_.value_text() for p_ in ps_)[:200])
    ctx.rule("C16.R4", "the output count a builder records for a container node is the count of its signature (shared with C01.R3): handles enumerate exactly those ports", floor=30)
    from .c01 import r3_rows
    with ctx.as_rule(C01_R3="C16.R4"):
        r3_rows(ctx)
    from .. import lints
    lints.arm(ctx)



# ---------------------------------------------------------------------------------------
N = "hugr-py/src/hugr/hugr/node_port.py"
B = "hugr-py/src/hugr/hugr/base.py"
D = "hugr-py/src/hugr/build/dfg.py"
CL = "hugr-py/src/hugr/build/cond_loop.py"
CF = "hugr-py/src/hugr/build/cfg.py"
MUTANTS = [
    dict(name="metadata-in-identity", file=N, expect="C16.R1", old="        repr=False, compare=False, default_factory=dict\n", new="        repr=False, default_factory=dict\n"),
    dict(name="count-in-identity", file=N, expect="C16.R1", old="    _num_out_ports: int | None = field(default=None, compare=False, repr=False)", new="    _num_out_ports: int | None = field(default=None, repr=False)"),
    dict(name="port-not-frozen", file=N, expect="C16.R1", old="@dataclass(frozen=True, eq=True, order=True)\nclass OutPort(_Port, Wire):", new="@dataclass(eq=True, order=True, unsafe_hash=True)\nclass OutPort(_Port, Wire):"),
    dict(name="direction-a-field", file=N, expect="C16.R1", old="    direction: ClassVar[Direction]\n", new="    direction: Direction = Direction.INCOMING\n"),
    dict(name="add-op-stale-count", file=D, expect="C16.R2", old="        return replace(new_n, _num_out_ports=op.num_out)", new="        return new_n"),
    dict(name="call-without-count", file=D, expect="C16.R2", old="        call_n = self.hugr.add_node(call_op, self.parent_node, call_op.num_out)", new="        call_n = self.hugr.add_node(call_op, self.parent_node)"),
    dict(name="container-handle-not-stored", file=D, expect="C16.R2", old="        self.parent_node = self.hugr._update_node_outs(self.parent_node, count)", new="        self.hugr._update_node_outs(self.parent_node, count)"),
    dict(name="cond-handle-not-stored", file=CL, expect="C16.R2", old="            self.parent_node = self.hugr._update_node_outs(\n                self.parent_node, len(outputs)\n            )", new="            self.hugr._update_node_outs(self.parent_node, len(outputs))"),
    dict(name="dfg-count-not-updated", file=D, expect="C16.R2", old="        super().set_outputs(*outputs)\n        self._set_parent_output_count(len(outputs))", new="        super().set_outputs(*outputs)"),
    dict(name="children-copy-stale", file=B, expect="C16.R2", old="                pos = self[parent].children.index(node)\n                self[parent].children[pos] = node\n", new="                pass\n"),
    dict(name="add-node-drops-count", file=B, expect="C16.R2", old="        return self._add_node(op, parent, num_outs, metadata)", new="        return self._add_node(op, parent, None, metadata)"),
    dict(name="insert-loses-count", file=B, expect=["C16.R2"], old="                num_outs=node_data._num_outs,\n", new=""),
    dict(name="wire-means-last-output", file=N, expect="C16.R3", old="        return OutPort(self.to_node(), 0)", new="        return OutPort(self.to_node(), -1)"),
    dict(name="iterate-unknown-count", file=N, expect="C16.R3", old="                if stop is None:\n                    msg = (", new="                if stop is None and False:\n                    msg = ("),
    dict(name="overflow-accepted", file=N, expect="C16.R3", old="            if index >= self._num_out_ports and not allow_overflow:\n                raise IndexError(msg)\n", new=""),
    dict(name="underflow-accepted", file=N, expect="C16.R3", old="            if index < -self._num_out_ports:\n                raise IndexError(msg)\n", new=""),
    dict(name="negative-unknown-accepted", file=N, expect="C16.R3", old="        else:\n            if index < 0:\n                raise IndexError(msg)\n", new=""),
    dict(name="int-index-clamped", file=N, expect="C16.R3", old="                index = self._normalize_index(index)\n                return self.out(index)", new="                index = self._normalize_index(index, allow_overflow=True)\n                return self.out(index)"),
    dict(name="negative-from-zero", file=N, expect="C16.R3", old="            return self._num_out_ports + index", new="            return -index"),
]
TWINS = [
    dict(name="twin-outputs-inline", file=N, old="        return self.outputs()\n", new="        outs = self.outputs()\n        return outs\n"),
]


def thorough(ctx):
    from ..selftest import run_battery
    return run_battery(ctx, MUTANTS, TWINS)
