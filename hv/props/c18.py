"""C18 -- the bidirectional map stays a bijection (hugr/utils.py::BiMap).

Decided: the per-step shape of the inductive invariant "fwd and bck are mutual inverses":
 R1 who-may-write, R2 mirror discipline on every acyclic path of every mutator,
 R3 presence tests (not truthiness), R4 construction guard, R5 delegation / lookup tables.
"""
from __future__ import annotations

import ast

from ..cfg import CFG, EXIT, RAISE, PathBound
from ..model import real_body, u, walk_no_nested
from .. import norm

MAPS = ("fwd", "bck")
OTHER = {"fwd": "bck", "bck": "fwd"}
DICT_MUTATORS = {"pop", "popitem", "clear", "update", "setdefault", "__setitem__", "__delitem__"}
BIMAP_MUTATORS = {"insert_left", "insert_right", "delete_left", "delete_right", "__setitem__", "__delitem__",
                  "pop", "popitem", "clear", "update", "setdefault"}


def map_attr(e: ast.AST) -> str | None:
    """<anything>.fwd / .bck -> 'fwd' / 'bck'"""
    if isinstance(e, ast.Attribute) and e.attr in MAPS:
        return e.attr
    return None


def self_map(e: ast.AST) -> str | None:
    if isinstance(e, ast.Attribute) and e.attr in MAPS and isinstance(e.value, ast.Name) and e.value.id == "self":
        return e.attr
    return None


# ---------------------------------------------------------------------------------------
def r1_who_may_write(ctx) -> None:
    """No code outside BiMap stores into / deletes from / calls a mutator on <x>.fwd or <x>.bck,
    directly, through a local alias, or by passing it to a callee that writes its parameter."""
    prog = ctx.program
    nsites = 0
    for m in prog.modules.values():
        for fn, owner in _functions(m):
            if owner == "BiMap" and m.name == "hugr.utils":
                continue
            aliases: dict[str, str] = {}
            for n in walk_no_nested(fn):
                if isinstance(n, ast.Assign) and len(n.targets) == 1 and isinstance(n.targets[0], ast.Name):
                    if map_attr(n.value):
                        aliases[n.targets[0].id] = map_attr(n.value)
                if isinstance(n, ast.Match):
                    pass
            # aliases assigned inside match arms / annotated first
            for n in ast.walk(fn):
                if isinstance(n, ast.Assign) and len(n.targets) == 1 and isinstance(n.targets[0], ast.Name) and map_attr(n.value):
                    aliases[n.targets[0].id] = map_attr(n.value)

            def is_map(e):
                if map_attr(e):
                    return map_attr(e)
                if isinstance(e, ast.Name) and e.id in aliases:
                    return aliases[e.id]
                return None

            for n in ast.walk(fn):
                bad = None
                if isinstance(n, ast.Subscript) and isinstance(n.ctx, (ast.Store, ast.Del)) and is_map(n.value):
                    bad = f"subscript store/delete on .{is_map(n.value)}"
                elif isinstance(n, ast.Attribute) and isinstance(n.ctx, (ast.Store, ast.Del)) and n.attr in MAPS:
                    bad = f"rebinding of .{n.attr}"
                elif isinstance(n, ast.Call) and isinstance(n.func, ast.Attribute) and n.func.attr in DICT_MUTATORS and is_map(n.func.value):
                    bad = f"mutator .{n.func.attr}() on .{is_map(n.func.value)}"
                elif isinstance(n, ast.Call):
                    # map handed to a callee: the callee's parameter must stay read-only
                    for i, a in enumerate(n.args):
                        if is_map(a):
                            nsites += 1
                            callee = _resolve_callee(prog, m, fn, owner, n)
                            if callee is None:
                                name = u(n.func)
                                if name in ("iter", "len", "list", "dict", "next", "sorted", "set", "enumerate"):
                                    continue
                                ctx.note(f"C18.R1: map passed to unresolved callee {name} in {m.name}:{n.lineno}")
                                continue
                            params = [x.arg for x in callee.args.posonlyargs + callee.args.args]
                            if params and params[0] in ("self", "cls"):
                                params = params[1:]
                            if i < len(params) and _writes_param(callee, params[i]):
                                bad = f"passes .{is_map(a)} to {callee.name}, which writes its parameter {params[i]}"
                if bad:
                    ctx.fail("C18.R1", f"{m.name}.{owner + '.' if owner else ''}{fn.name}", m.path, n.lineno,
                             f"{bad} outside BiMap breaks the owner discipline of the two dictionaries", n)
            reads = [n for n in ast.walk(fn) if map_attr(n)]
            if reads:
                nsites += len(reads)
                ctx.ok("C18.R1", f"{m.name}.{owner + '.' if owner else ''}{fn.name}", f"{len(reads)} read-only uses of fwd/bck")
    ctx.stats["C18.R1 sites outside BiMap"] = nsites


def private_helpers(cls) -> set[str]:
    """private (single underscore) methods of BiMap that other BiMap methods call as statements on self"""
    out = set()
    for fn in cls.methods.values():
        for n in ast.walk(fn):
            if isinstance(n, ast.Call) and isinstance(n.func, ast.Attribute) and isinstance(n.func.value, ast.Name) and n.func.value.id == "self" \
                    and n.func.attr.startswith("_") and not n.func.attr.startswith("__") and n.func.attr in cls.methods and n.func.attr != fn.name:
                out.add(n.func.attr)
    return out


def r1_helpers_private(ctx, cls, helpers) -> None:
    """a helper that is judged only in the context of its callers must not be callable from elsewhere"""
    if not helpers:
        return
    for m in ctx.program.modules.values():
        for fn, owner in _functions(m):
            if owner == "BiMap" and m.name == "hugr.utils":
                continue
            for n in ast.walk(fn):
                if isinstance(n, ast.Call) and isinstance(n.func, ast.Attribute) and n.func.attr in helpers:
                    ctx.fail("C18.R1", f"{m.name}.{owner + '.' if owner else ''}{fn.name}", m.path, n.lineno,
                             f"calls BiMap's private helper {n.func.attr} from outside BiMap: it performs half of a paired update", n)


def _functions(m):
    for c in m.classes.values():
        for fn in c.node.body:
            if isinstance(fn, (ast.FunctionDef, ast.AsyncFunctionDef)):
                yield fn, c.name
    for fn in m.tree.body:
        if isinstance(fn, (ast.FunctionDef, ast.AsyncFunctionDef)):
            yield fn, ""


def _resolve_callee(prog, m, fn, owner, call):
    f = call.func
    if isinstance(f, ast.Attribute) and isinstance(f.value, ast.Name) and f.value.id == "self" and owner:
        c = m.classes.get(owner)
        if c:
            _, meth = c.find_method(f.attr)
            return meth
    if isinstance(f, ast.Name):
        r = m.resolve(f)
        if isinstance(r, ast.FunctionDef):
            return r
    return None


def _writes_param(fn, p) -> bool:
    for n in ast.walk(fn):
        if isinstance(n, ast.Subscript) and isinstance(n.ctx, (ast.Store, ast.Del)) and isinstance(n.value, ast.Name) and n.value.id == p:
            return True
        if isinstance(n, ast.Call) and isinstance(n.func, ast.Attribute) and n.func.attr in DICT_MUTATORS \
                and isinstance(n.func.value, ast.Name) and n.func.value.id == p:
            return True
    return False


# ---------------------------------------------------------------------------------------
# R2/R3: symbolic effects along paths
class Term(tuple):
    pass


def T(*a):
    return Term(a)


def show(t) -> str:
    if t[0] == "param":
        return t[1]
    if t[0] == "lookup":
        return f"{t[1]}[{show(t[2])}]" if t[3] == "strict" else f"{t[1]}.get({show(t[2])})"
    return str(t[1]) if len(t) > 1 else str(t)


class PathState:
    def __init__(self):
        self.env: dict[str, tuple] = {}
        self.eval_at: dict[tuple, int] = {}     # lookup term -> first step at which it was evaluated
        self.effects: list[tuple] = []          # (step, 'set'|'del', map, key, value, node, strict)
        self.tests: list[tuple] = []            # (term, kind, taken, node)
        self.step = 0
        self.problems: list[tuple] = []


def _term(e: ast.AST, st: PathState) -> tuple:
    if isinstance(e, ast.Name):
        return st.env.get(e.id, T("param", e.id))
    if isinstance(e, ast.NamedExpr):
        t = _term(e.value, st)
        st.env[e.target.id] = t
        return t
    if isinstance(e, ast.Subscript) and self_map(e.value):
        t = T("lookup", self_map(e.value), _term(e.slice, st), "strict")
        st.eval_at.setdefault(t, st.step)
        return t
    if isinstance(e, ast.Call) and isinstance(e.func, ast.Attribute) and self_map(e.func.value):
        mp = self_map(e.func.value)
        if e.func.attr == "get" and len(e.args) == 1 and not e.keywords:
            t = T("lookup", mp, _term(e.args[0], st), "get")
            st.eval_at.setdefault(t, st.step)
            return t
        if e.func.attr == "pop":
            k = _term(e.args[0], st)
            mode = "strict" if len(e.args) == 1 and not e.keywords else "get"
            t = T("lookup", mp, k, mode)
            st.eval_at.setdefault(t, st.step)
            st.effects.append((st.step, "del", mp, k, None, e, mode == "strict"))
            return t
    return T("expr", u(e))


def _test(e: ast.AST, taken: bool, st: PathState) -> None:
    """record presence tests; taken = edge label"""
    if isinstance(e, ast.BoolOp):
        for v in e.values:
            _test(v, taken, st)   # conservative: record each operand
        return
    if isinstance(e, ast.UnaryOp) and isinstance(e.op, ast.Not):
        _test(e.operand, not taken, st)
        return
    kind = "truthy"
    subj = e
    if isinstance(e, ast.Compare) and len(e.ops) == 1:
        op, rhs = e.ops[0], e.comparators[0]
        if isinstance(op, (ast.IsNot, ast.Is)) and isinstance(rhs, ast.Constant) and rhs.value is None:
            kind = "is-not-none" if isinstance(op, ast.IsNot) else "is-none"
            subj = e.left
        elif isinstance(op, (ast.In, ast.NotIn)) and self_map(rhs):
            kind = "in" if isinstance(op, ast.In) else "not-in"
            t = T("lookup", self_map(rhs), _term(e.left, st), "get")
            st.tests.append((t, kind, taken, e))
            return
        elif isinstance(op, (ast.Eq, ast.NotEq)):
            # an equality between two terms (a looked-up entry and the component it is compared with)
            st.tests.append((T("eq", _term(e.left, st), _term(rhs, st)), "eq", taken == isinstance(op, ast.Eq), e))
            return
        else:
            kind = "other"
    t = _term(subj, st)
    st.tests.append((t, kind, taken, e))


def _present(st: PathState, lookup: tuple) -> bool | None:
    """is the looked-up entry known present (True) / absent (False) / untested (None) on this path"""
    key = (lookup[1], lookup[2])
    for t, kind, taken, _ in st.tests:
        if t[0] == "lookup" and (t[1], t[2]) == key:
            if kind in ("is-not-none", "in", "truthy"):
                return taken
            if kind in ("is-none", "not-in"):
                return not taken
    return None


def _exec(s: ast.AST, st: PathState) -> None:
    if isinstance(s, ast.Assign) and len(s.targets) == 1:
        tg = s.targets[0]
        if isinstance(tg, ast.Subscript) and self_map(tg.value):
            k = _term(tg.slice, st)
            v = _term(s.value, st)
            st.effects.append((st.step, "set", self_map(tg.value), k, v, s, True))
        elif isinstance(tg, ast.Name):
            st.env[tg.id] = _term(s.value, st)
        elif isinstance(tg, ast.Attribute) and tg.attr in MAPS:
            st.effects.append((st.step, "rebind", tg.attr, None, None, s, True))
        else:
            _scan_expr(s.value, st)
    elif isinstance(s, ast.AnnAssign) and isinstance(s.target, ast.Name) and s.value is not None:
        st.env[s.target.id] = _term(s.value, st)
    elif isinstance(s, ast.Delete):
        for tg in s.targets:
            if isinstance(tg, ast.Subscript) and self_map(tg.value):
                k = _term(tg.slice, st)
                st.effects.append((st.step, "del", self_map(tg.value), k, None, s, True))
    elif isinstance(s, ast.Expr):
        _scan_expr(s.value, st)
    elif isinstance(s, ast.Return) and s.value is not None:
        _scan_expr(s.value, st)


def _scan_expr(e: ast.AST, st: PathState) -> None:
    if isinstance(e, ast.Call) and isinstance(e.func, ast.Attribute) and self_map(e.func.value):
        if e.func.attr == "pop":
            _term(e, st)
            return
        if e.func.attr in DICT_MUTATORS:
            st.effects.append((st.step, "opaque", self_map(e.func.value), None, None, e, True))


def _canon_body(ctx, cls, fn):
    """canonical body (hv/canon.py) with every private helper of the class seen through (static ones, keyword-only parameters,
    helpers that return); locals are kept: the path analysis below tracks them itself"""
    return ctx.canon.body(fn, cls.module, cls, inline=private_helpers(cls))


def _split_tests(stmts):
    """if A and B: S else: T  ->  if A: (if B: S else: T) else: T   (and the `or` twin): every path then decides ONE operand per test,
    so a failed conjunction is not taken for "every operand failed" """
    import copy
    out = []
    for s_ in stmts:
        if isinstance(s_, ast.If):
            s_ = copy.copy(s_)
            s_.body, s_.orelse = _split_tests(s_.body), _split_tests(s_.orelse)
            t = s_.test
            neg = False
            while isinstance(t, ast.UnaryOp) and isinstance(t.op, ast.Not) and isinstance(t.operand, (ast.BoolOp, ast.UnaryOp)):
                t, neg = t.operand, not neg
            if isinstance(t, ast.BoolOp) and len(t.values) >= 2 and not any(isinstance(n, ast.NamedExpr) for n in ast.walk(t)):
                yes, no = (s_.orelse, s_.body) if neg else (s_.body, s_.orelse)
                first, rest = t.values[0], (t.values[1] if len(t.values) == 2 else ast.BoolOp(op=t.op, values=t.values[1:]))
                if isinstance(t.op, ast.And):
                    inner = ast.If(test=rest, body=copy.deepcopy(yes) or [ast.Pass()], orelse=copy.deepcopy(no))
                    new = ast.If(test=first, body=_split_tests([ast.copy_location(inner, s_)]), orelse=copy.deepcopy(no))
                else:
                    inner = ast.If(test=rest, body=copy.deepcopy(yes) or [ast.Pass()], orelse=copy.deepcopy(no))
                    new = ast.If(test=first, body=copy.deepcopy(yes) or [ast.Pass()], orelse=_split_tests([ast.copy_location(inner, s_)]))
                out.append(ast.fix_missing_locations(ast.copy_location(new, s_)))
                continue
        out.append(s_)
    return out


def analyse_mutator(ctx, cls, fn: ast.FunctionDef, file) -> int:
    """returns number of paths analysed"""
    name = f"hugr.utils.BiMap.{fn.name}"
    body = _split_tests(_canon_body(ctx, cls, fn))
    for n in [x for b_ in body for x in ast.walk(b_)]:
        if isinstance(n, (ast.For, ast.While, ast.Try, ast.With)) and any(
                self_map(x) for x in ast.walk(n) if isinstance(x, ast.Attribute)):
            # loops/try around map writes are outside the enumerated idioms: judge conservatively
            if isinstance(n, ast.Try):
                ctx.fail("C18.R5", name, file, n.lineno,
                         "try/except around accesses to fwd/bck: an absent key must surface as KeyError and a "
                         "half-applied update must not be swallowed", n)
                return 0
            ctx.broken(f"{name}: loop/with around map writes is outside the idioms the mirror rule understands")
    g = CFG(body)
    npaths = 0
    fresh_path_seen = False
    reported: set[str] = set()

    def fail(rule, msg, node):
        k = rule + msg
        if k not in reported:
            reported.add(k)
            ctx.fail(rule, name, file, getattr(node, "lineno", fn.lineno), msg, node)

    try:
        paths = list(g.paths(bound=64))
    except PathBound:
        ctx.broken(f"{name}: more than 64 paths")
    has_set_anywhere = False
    for path in paths:
        st = PathState()
        for nid, lab in path:
            s = g.stmt.get(nid)
            if s is None:
                continue
            st.step += 1
            if g.kind[nid] == "test":
                _test(s, lab == "T", st)
            elif g.kind[nid] == "stmt":
                _exec(s, st)
        if path[-1][0] == RAISE:
            continue
        npaths += 1
        sets = [e for e in st.effects if e[1] == "set"]
        dels = [e for e in st.effects if e[1] == "del"]
        for e in st.effects:
            if e[1] in ("opaque", "rebind"):
                fail("C18.R2", f"`{u(e[5])}` changes .{e[2]} in a way the mirror discipline cannot pair", e[5])
        if sets:
            has_set_anywhere = True
        # (a) every store has its mirrored store on the same path
        for (_, _, mp, k, v, node, _) in sets:
            if not any(m2 == OTHER[mp] and k2 == v and v2 == k for (_, _, m2, k2, v2, _, _) in sets):
                fail("C18.R2", f"store {mp}[{show(k)}] = {show(v)} has no mirrored store {OTHER[mp]}[{show(v)}] = {show(k)} "
                     "on the same path: the two views stop being inverses", node)
        # (b) insertion: both conflicting pairs evicted when present
        for (step, _, mp, k, v, node, _) in sets:
            # entry of OTHER[mp] holding v  (i.e. the pair that shares this value)
            pres = _present(st, T("lookup", OTHER[mp], v, "get"))
            conflict_del = [d for d in dels if d[2] == mp and d[3][0] == "lookup" and d[3][1] == OTHER[mp] and d[3][2] == v]
            look = T("lookup", OTHER[mp], v, "get")
            same_pair = any(kind == "eq" and taken and {t[1], t[2]} == {look, k} for t, kind, taken, _ in st.tests)
            if pres is True and not conflict_del and same_pair:
                pass        # the entry found IS the pair being stored (its partner equals the key stored under): overwritten in place
            elif pres is True and not conflict_del:
                fail("C18.R2", f"on the path where {OTHER[mp]} already holds {show(v)}, the stale entry "
                     f"{mp}[{OTHER[mp]}[{show(v)}]] is not evicted before {mp}[{show(k)}] = {show(v)}: "
                     "two keys would map to one value", node)
            if pres is None:
                # no presence test at all for the conflicting pair on this path
                if not conflict_del:
                    fail("C18.R2", f"insertion {mp}[{show(k)}] = {show(v)} never tests whether {OTHER[mp]} already holds "
                         f"{show(v)}: the pair sharing that value is not displaced", node)
            for d in conflict_del:
                if d[0] > step:
                    fail("C18.R2", f"eviction `{u(d[5])}` comes after the store it must precede", d[5])
                # lookup must be evaluated before its map entry is overwritten
                ev_at = st.eval_at.get(d[3], d[0])
                over = [s2 for s2 in sets if s2[2] == OTHER[mp] and s2[3] == v and s2[0] < ev_at]
                if over:
                    fail("C18.R2", f"`{show(d[3])}` is read after {OTHER[mp]}[{show(v)}] was overwritten: "
                         "the eviction removes the new pair instead of the stale one", d[5])
        if sets and not dels:
            fresh_path_seen = True
        # (c) plain deletions are paired
        for (step, _, mp, k, _, node, strict) in dels:
            if k[0] == "lookup" and k[1] == OTHER[mp]:
                # eviction of the partner of k[2]: (d) partner entry deleted or overwritten on this path
                later = [e for e in st.effects if e[2] == OTHER[mp] and e[3] == k[2] and e[1] in ("set", "del")]
                if not later:
                    fail("C18.R2", f"`{u(node)}` removes the partner of {show(k[2])} but {OTHER[mp]}[{show(k[2])}] is "
                         "neither deleted nor overwritten on this path: a dangling half-pair remains", node)
                ev_at = st.eval_at.get(k, step)
                early = [e for e in st.effects if e[2] == OTHER[mp] and e[3] == k[2] and e[0] < ev_at and e[1] == "del"]
                if early:
                    fail("C18.R2", f"`{show(k)}` is read after {OTHER[mp]}[{show(k[2])}] was deleted (KeyError / wrong entry)", node)
                if k[3] == "get" and _present(st, k) is not True:
                    fail("C18.R2", f"`{u(node)}` uses a .get() result as key without a presence test on this path", node)
            else:
                partner = [d for d in dels if d[2] == OTHER[mp] and d[3][0] == "lookup" and d[3][1] == mp and d[3][2] == k]
                if not partner:
                    fail("C18.R2", f"`{u(node)}` deletes {mp}[{show(k)}] without deleting its partner "
                         f"{OTHER[mp]}[{mp}[{show(k)}]] on the same path", node)
    # R3 presence tests: collected over all paths
    seen_tests = set()
    for path in paths:
        st = PathState()
        for nid, lab in path:
            s = g.stmt.get(nid)
            if s is None:
                continue
            if g.kind[nid] == "test":
                _test(s, lab == "T", st)
            elif g.kind[nid] == "stmt":
                _exec(s, st)
        for t, kind, taken, node in st.tests:
            key = (u(node), show(t))        # the same test text on two different entries (a written-out table) counts twice
            if key in seen_tests:
                continue
            seen_tests.add(key)
            is_entry = t[0] == "lookup" or t[0] == "param"
            if not is_entry:
                continue
            if kind == "truthy":
                ctx.fail("C18.R3", name, file, node.lineno,
                         f"presence of `{show(t)}` is tested by truthiness: falsy keys/values (0, '', ()) are "
                         "treated as absent and their stale pair is not displaced", node)
            elif kind in ("is-not-none", "is-none", "in", "not-in"):
                ctx.ok("C18.R3", f"{name}:{u(node)}", kind)
    if has_set_anywhere:
        if not fresh_path_seen:
            fail("C18.R2", "no path inserts a fresh pair without deleting anything: inserting a new key/value would "
                 "raise or remove unrelated entries", fn)
    if not reported:
        ctx.ok("C18.R2", name, f"{npaths} non-raising paths, mirror discipline holds on each")
    return npaths


# ---------------------------------------------------------------------------------------
def r4_construction(ctx, cls, file) -> None:
    """path summaries of the canonical __init__: every way of completing either passed the injectivity test on the mapping it
    copies and inverts, or was given nothing (a falsy argument) and starts empty; every refusal is the failed test"""
    name = "hugr.utils.BiMap.__init__"
    fn = cls.methods.get("__init__")
    if fn is None:
        ctx.broken("anchor vanished: BiMap.__init__")
    from ..rulekit import unold
    from ..tmpl import T, tmatch
    P = fn.args.args[1].arg if len(fn.args.args) > 1 else None
    if P is None:
        ctx.broken("BiMap.__init__: expected (self, fwd)")
    ps = ctx.paths("hugr.utils.BiMap.__init__")
    maps = (P, f"{P} or {{}}", f"({P} or {{}})")

    def card(p):
        """(mapping text, outcome "injective") of the injectivity test on the path, if any: the number of keys compared with the number
        of distinct values -- len(set(M.values())), or the size of the inverse of M (keys that share a value collapse)"""
        for t, k in p.tests:
            for tm in ("len(E_m) == len(set(E_n.values()))", "len(set(E_n.values())) == len(E_m)"):
                e = tmatch(t, T(tm))
                if e is not None and _unp(e["E_m"]) == _unp(e["E_n"]):
                    return _unp(e["E_m"]), k
            # len(INV) <op> len(M) with INV the inverse of M: INV is never larger; equal sizes <=> injective
            if isinstance(t, ast.Compare) and len(t.ops) == 1 and all(isinstance(x, ast.Call) and u(x.func) == "len" and len(x.args) == 1 for x in (t.left, t.comparators[0])):
                a, b = t.left.args[0], t.comparators[0].args[0]
                for inv, m_, flip in ((a, b, False), (b, a, True)):
                    src = _inverted_from(inv)
                    if src is not None and _unp(src) == _unp(u(m_)):
                        op = type(t.ops[0])
                        if flip:
                            op = {ast.Lt: ast.Gt, ast.Gt: ast.Lt, ast.LtE: ast.GtE, ast.GtE: ast.LtE}.get(op, op)
                        # over len(INV) <= len(M):   ==, >=  hold iff injective;   <, !=  hold iff not injective
                        if op in (ast.Eq, ast.GtE):
                            return _unp(u(m_)), k
                        if op in (ast.Lt, ast.NotEq):
                            return _unp(u(m_)), not k
        return None

    def base(txt):
        """the mapping a fresh-copy expression copies (dict(X) / {**X} / X.copy()), else the text itself"""
        try:
            c_ = _copied_from(ast.parse(txt, mode="eval").body)
        except SyntaxError:
            c_ = None
        return _unp(c_) if c_ is not None else _unp(txt)
    raises = [p for p in ps if p.kind == "raise"]
    done = [p for p in ps if p.kind != "raise"]
    if not any("NotBijection" in p.value_text() for p in raises):
        ctx.fail("C18.R4", name, file, fn.lineno, "no `raise NotBijection` on any path: a non-injective initial mapping is accepted", fn)
        return
    ok_guard = all("NotBijection" in p.value_text() and card(p) is not None and card(p)[1] is False and base(card(p)[0]) in [_unp(m_) for m_ in maps] for p in raises)
    ctx.check(ok_guard, "C18.R4", name + ":guard", file, fn.lineno,
              "the NotBijection raise is not controlled by a test comparing the number of keys with the number of distinct values", fn,
              detail="cardinality test controls raise NotBijection")
    ok_dom = ok_copy = ok_inv = bool(done)
    f_copy = f_inv = ""
    tested_seen = False
    for p in done:
        sf = [e for e in p.effects if isinstance(e, ast.Assign) and u(e.targets[0]) == "self.fwd"]
        sb = [e for e in p.effects if isinstance(e, ast.Assign) and u(e.targets[0]) == "self.bck"]
        if len(sf) != 1 or len(sb) != 1:
            ok_copy = ok_inv = False
            f_copy = f_inv = "self.fwd / self.bck not assigned exactly once on " + p.describe()
            continue
        c = card(p)
        if c is not None and c[1] is True:
            tested_seen = True
            m_ = c[0]
            src_f = _copied_from(sf[0].value)
            inv = _inverted_from(sb[0].value)
            f_copy, f_inv = unold(sf[0].value), unold(sb[0].value)
            # the forward view is a private copy of the tested mapping (or the tested mapping is itself that private copy)
            ok_copy = ok_copy and src_f is not None and (_unp(src_f) == m_ or (_unp(unold(sf[0].value)) == m_ and base(m_) != m_))
            ok_inv = ok_inv and inv is not None and _unp(inv) in (m_, "self.fwd", base(m_))
        elif p.has_test(P, False) is not None or p.has_test(f"{P} is not None", False) is not None:
            # nothing given: both views start empty (an empty mapping is a bijection)
            empty = all(u(x.value) in ("{}", "dict()") for x in sf + sb)
            given_none_only = p.has_test(P, False) is None
            if given_none_only:
                empty = empty or (u(sf[0].value) in ("{}", "dict()") and u(sb[0].value) in ("{}", "dict()"))
            ok_dom = ok_dom and empty
            if not empty:
                f_copy = "a path for a missing argument stores " + " / ".join(u(x.value) for x in sf + sb)
        else:
            ok_dom = False
    ctx.check(ok_dom and tested_seen, "C18.R4", name + ":dominates", file, fn.lineno,
              "some path reaches the end of __init__ without passing the injectivity test (other than for a missing / empty argument, which starts empty)", fn,
              detail="every normal exit passes the injectivity test")
    ctx.check(ok_copy, "C18.R4", name + ":fwd-copy", file, fn.lineno,
              "self.fwd must be a fresh dict copy of the argument (aliasing the caller's mapping lets it change behind the map's back)", fn,
              found=f_copy, detail=f"fwd = {f_copy}")
    ctx.check(ok_inv, "C18.R4", name + ":bck-inverse", file, fn.lineno,
              "self.bck must be the inversion {v: k for k, v in <mapping>.items()} of the same mapping as fwd", fn,
              expected="{v: k for k, v in fwd.items()}", found=f_inv, detail=f"bck = {f_inv}")


def _next_on(g, d, r):
    # successor of d that leads to r
    for m in g.succ[d]:
        if r in g.reachable(m):
            return m
    return None


def _is_cardinality_test(e: ast.AST) -> bool:
    if not (isinstance(e, ast.Compare) and len(e.ops) == 1 and isinstance(e.ops[0], (ast.NotEq, ast.Gt, ast.Lt, ast.Eq))):
        return False
    sides = [e.left, e.comparators[0]]

    def card(x):
        if isinstance(x, ast.Call) and u(x.func) == "len" and len(x.args) == 1:
            a = x.args[0]
            if isinstance(a, ast.Call) and u(a.func) in ("set", "frozenset") and len(a.args) == 1 and u(a.args[0]).endswith(".values()"):
                return ("values", u(a.args[0])[: -len(".values()")])
            if isinstance(a, ast.SetComp):
                return ("values", "?")
            if isinstance(a, ast.DictComp) or (isinstance(a, ast.Attribute) and a.attr == "bck") or (isinstance(a, ast.Name) and a.id in ("bck", "inv", "inverse")):
                return ("values", "?")
            return ("keys", u(a))
        return None
    cs = [card(s) for s in sides]
    return None not in cs and {cs[0][0], cs[1][0]} == {"keys", "values"}


def _unp(t: str) -> str:
    """t without redundant outer parentheses"""
    t = t.strip()
    while t.startswith("(") and t.endswith(")"):
        depth = 0
        for i, ch in enumerate(t):
            depth += ch == "("
            depth -= ch == ")"
            if depth == 0 and i < len(t) - 1:
                return t
        t = t[1:-1].strip()
    return t


def _copied_from(e: ast.AST) -> str | None:
    if isinstance(e, ast.Call) and u(e.func) == "dict" and len(e.args) == 1:
        return u(e.args[0])
    if isinstance(e, ast.DictComp) and len(e.generators) == 1 and u(e.generators[0].iter).endswith(".items()"):
        tg = e.generators[0].target
        if isinstance(tg, ast.Tuple) and len(tg.elts) == 2 and u(e.key) == u(tg.elts[0]) and u(e.value) == u(tg.elts[1]):
            return u(e.generators[0].iter)[: -len(".items()")]
    if isinstance(e, ast.Dict) and len(e.keys) == 1 and e.keys[0] is None:
        return u(e.values[0])
    if isinstance(e, ast.Call) and isinstance(e.func, ast.Attribute) and e.func.attr == "copy":
        return u(e.func.value)
    return None


def _inverted_from(e: ast.AST) -> str | None:
    # {M[k]: k for k in M}
    if isinstance(e, ast.DictComp) and len(e.generators) == 1 and not e.generators[0].ifs and isinstance(e.generators[0].target, ast.Name):
        k_, m_ = e.generators[0].target.id, e.generators[0].iter
        if isinstance(e.value, ast.Name) and e.value.id == k_ and isinstance(e.key, ast.Subscript) and u(e.key.value) == u(m_) and u(e.key.slice) == k_:
            return u(m_)
    if isinstance(e, ast.DictComp) and len(e.generators) == 1 and not e.generators[0].ifs and u(e.generators[0].iter).endswith(".items()"):
        tg = e.generators[0].target
        if isinstance(tg, ast.Tuple) and len(tg.elts) == 2 and u(e.key) == u(tg.elts[1]) and u(e.value) == u(tg.elts[0]):
            return u(e.generators[0].iter)[: -len(".items()")]
    if isinstance(e, ast.Call) and u(e.func) == "dict" and len(e.args) == 1 and isinstance(e.args[0], (ast.GeneratorExp, ast.ListComp)):
        c = e.args[0]
        if len(c.generators) == 1 and u(c.generators[0].iter).endswith(".items()") and isinstance(c.elt, ast.Tuple):
            tg = c.generators[0].target
            if isinstance(tg, ast.Tuple) and u(c.elt.elts[0]) == u(tg.elts[1]) and u(c.elt.elts[1]) == u(tg.elts[0]):
                return u(c.generators[0].iter)[: -len(".items()")]
    return None


# ---------------------------------------------------------------------------------------
def r5_delegation(ctx, cls, file) -> None:
    q = "hugr.utils.BiMap."

    def single_return(fn):
        # the canonical body: temporaries substituted, a guarded subscript is the .get it spells, mixin lookups resolved
        try:
            b = ctx.cfn(q + fn.name).body
        except Exception:
            b = real_body(fn)
        b = [x for x in b if not isinstance(x, ast.Pass)]
        if len(b) == 1 and isinstance(b[0], ast.Return):
            return b[0].value
        if len(b) == 1 and isinstance(b[0], ast.Expr):
            return b[0].value
        return None

    def params(fn):
        return [a.arg for a in fn.args.args[1:]]

    # lookups: which dictionary is consulted
    table = {
        "__getitem__": ("fwd", "strict"), "get_right": ("fwd", "get"), "get_left": ("bck", "get"),
    }
    for mname, (mp, mode) in table.items():
        fn = cls.methods.get(mname)
        if fn is None:
            ctx.broken(f"anchor vanished: BiMap.{mname}")
        e = single_return(fn)
        p = params(fn)
        good = False
        if e is not None and p:
            if mode == "strict":
                good = isinstance(e, ast.Subscript) and self_map(e.value) == mp and u(e.slice) == p[0]
            else:
                good = (isinstance(e, ast.Call) and isinstance(e.func, ast.Attribute) and e.func.attr == "get"
                        and self_map(e.func.value) == mp and len(e.args) >= 1 and u(e.args[0]) == p[0]
                        and (len(e.args) == 1 or u(e.args[1]) == "None"))
        ctx.check(good, "C18.R5", q + mname, file, fn.lineno,
                  f"{mname} must look its argument up in self.{mp} ({'subscript, KeyError when absent' if mode == 'strict' else '.get, None when absent'})",
                  fn, expected=f"self.{mp}{'[key]' if mode == 'strict' else '.get(key)'}", found=u(e) if e is not None else "<not a single expression>")
    # views over the forward dictionary
    for mname, shapes in {"__iter__": ("iter(self.fwd)", "iter(self.fwd.keys())", "self.fwd.__iter__()"),
                          "items": ("self.fwd.items()",),
                          "__len__": ("len(self.fwd)", "len(self.bck)")}.items():
        fn = cls.methods.get(mname)
        if fn is None:
            ctx.broken(f"anchor vanished: BiMap.{mname}")
        e = single_return(fn)
        ctx.check(e is not None and u(e) in shapes, "C18.R5", q + mname, file, fn.lineno,
                  f"{mname} must be a view of the forward dictionary", fn, expected=" | ".join(shapes), found=u(e))
    # delegations
    deleg = {
        "__setitem__": ("insert_left", "same"), "__delitem__": ("delete_left", "same"), "insert_right": ("insert_left", "swapped"),
    }
    for mname, (target, order) in deleg.items():
        fn = cls.methods.get(mname)
        if fn is None:
            ctx.broken(f"anchor vanished: BiMap.{mname}")
        e = single_return(fn)
        p = params(fn)
        good = False
        if isinstance(e, ast.Call) and isinstance(e.func, ast.Attribute) and isinstance(e.func.value, ast.Name) and e.func.value.id == "self":
            want = p if order == "same" else list(reversed(p))
            tfn = cls.methods.get(target)
            bound = norm.bind_call(tfn, e, True) if tfn is not None and e.func.attr == target else None
            if bound is not None and [u(bound[x]) for x in params(tfn)] == want:
                good = True
        if good:
            ctx.ok("C18.R5", q + mname, f"delegates to {target}({order})")
        else:
            # not a delegation: then it must itself satisfy the mirror discipline as a mutator (checked by R2)
            writes = [n for n in ast.walk(fn) if isinstance(n, ast.Subscript) and self_map(n.value) and isinstance(n.ctx, (ast.Store, ast.Del))]
            if writes and order == "same":
                ctx.ok("C18.R5", q + mname, "implements the update itself (checked by R2)")
            else:
                ctx.fail("C18.R5", q + mname, file, fn.lineno,
                         f"{mname}({', '.join(p)}) must delegate to {target}({', '.join(p if order == 'same' else reversed(p))})",
                         fn, expected=f"self.{target}({', '.join(p if order == 'same' else reversed(p))})", found=u(e))
    # deletions raise KeyError for an absent key: strict lookups only
    for mname, mp in {"delete_left": "fwd", "delete_right": "bck"}.items():
        if cls.methods.get(mname) is None:
            ctx.broken(f"anchor vanished: BiMap.{mname}")
        fn = ctx.cfn(f"hugr.utils.BiMap.{mname}")       # canonical body: unknown helpers are seen through
        p = params(fn)
        lenient = []
        for n in ast.walk(fn):
            if isinstance(n, ast.Call) and isinstance(n.func, ast.Attribute) and self_map(n.func.value):
                if n.func.attr == "get" or (n.func.attr == "pop" and (len(n.args) > 1 or n.keywords)):
                    lenient.append(n)
            if isinstance(n, ast.Try):
                lenient.append(n)
            if isinstance(n, ast.Compare) and any(isinstance(o, (ast.In, ast.NotIn)) for o in n.ops):
                lenient.append(n)
        ctx.check(not lenient, "C18.R5", q + mname + ":KeyError", file, (lenient[0].lineno if lenient else fn.lineno),
                  f"{mname} must raise KeyError for an absent key: only strict subscript / pop(key) accesses are allowed",
                  lenient[0] if lenient else None, detail="strict accesses only")
        # and it addresses the right dictionary with its own parameter
        dels = []
        for n in ast.walk(fn):
            if isinstance(n, ast.Delete):
                for tg in n.targets:
                    if isinstance(tg, ast.Subscript) and self_map(tg.value):
                        dels.append((self_map(tg.value), u(tg.slice)))
            if isinstance(n, ast.Call) and isinstance(n.func, ast.Attribute) and n.func.attr == "pop" and self_map(n.func.value):
                dels.append((self_map(n.func.value), u(n.args[0]) if n.args else "?"))
        ctx.check(p and (mp, p[0]) in dels, "C18.R5", q + mname + ":addressed", file, fn.lineno,
                  f"{mname}({p[0] if p else '?'}) must remove the entry self.{mp}[{p[0] if p else '?'}]", fn,
                  detail=f"removes {mp}[{p[0] if p else '?'}] and its partner")


def run(ctx) -> None:
    ctx.rule("C18.R1", "fwd/bck are written only inside BiMap (aliases and callee parameters followed)", floor=3)
    ctx.rule("C18.R2", "mirror discipline on every non-raising acyclic path of every BiMap mutator", floor=3)
    ctx.rule("C18.R3", "presence tests inside BiMap use `is (not) None` / `in`, never truthiness", floor=2)
    ctx.rule("C18.R4", "constructor: injectivity test controls NotBijection and dominates the exit; bck is the inverse of the copied fwd", floor=4)
    ctx.rule("C18.R5", "lookup/view/delegation table of BiMap; deletions use strict accesses (KeyError)", floor=10)
    cls = ctx.program.cls("hugr.utils.BiMap")
    file = cls.module.path
    r1_who_may_write(ctx)
    npaths = 0
    nmut = 0
    helpers = private_helpers(cls)
    r1_helpers_private(ctx, cls, helpers)
    for name, fn in cls.methods.items():
        if name == "__init__" or name in helpers:
            continue            # helpers are analysed in the context of every caller (inlined)
        body = _canon_body(ctx, cls, fn)
        nodes = [n for b_ in body for n in ast.walk(b_)]
        touches = any(isinstance(n, ast.Subscript) and self_map(n.value) and isinstance(n.ctx, (ast.Store, ast.Del)) for n in nodes) \
            or any(isinstance(n, ast.Call) and isinstance(n.func, ast.Attribute) and n.func.attr in DICT_MUTATORS and self_map(n.func.value) for n in nodes) \
            or any(isinstance(n, ast.Attribute) and n.attr in MAPS and isinstance(n.ctx, (ast.Store, ast.Del)) for n in nodes)
        if touches:
            nmut += 1
            npaths += analyse_mutator(ctx, cls, fn, file)
    ctx.stats["C18 mutators analysed"] = nmut
    ctx.stats["C18 paths enumerated"] = npaths
    r4_construction(ctx, cls, file)
    r5_delegation(ctx, cls, file)
    from .. import lints
    lints.arm(ctx)



# ---------------------------------------------------------------------------------------
U = "hugr-py/src/hugr/utils.py"
B = "hugr-py/src/hugr/hugr/base.py"
MUTANTS = [
    dict(name="drop-evict-fwd", file=U, expect="C18.R2",
         old="        if (existing_key := self.bck.get(value)) is not None:\n            del self.fwd[existing_key]\n", new=""),
    dict(name="drop-evict-bck", file=U, expect="C18.R2",
         old="        if (existing_value := self.fwd.get(key)) is not None:\n            del self.bck[existing_value]\n", new=""),
    dict(name="truthy-key", file=U, expect="C18.R3",
         old="if (existing_key := self.bck.get(value)) is not None:", new="if existing_key := self.bck.get(value):"),
    dict(name="truthy-value", file=U, expect="C18.R3",
         old="if (existing_value := self.fwd.get(key)) is not None:", new="if existing_value := self.fwd.get(key):"),
    dict(name="one-sided-delete-left", file=U, expect="C18.R2",
         old="        del self.bck[self.fwd[key]]\n        del self.fwd[key]", new="        del self.fwd[key]"),
    dict(name="one-sided-delete-right", file=U, expect="C18.R2",
         old="        del self.fwd[self.bck[key]]\n        del self.bck[key]", new="        del self.bck[key]"),
    dict(name="delete-order-swapped", file=U, expect="C18.R2",
         old="        del self.bck[self.fwd[key]]\n        del self.fwd[key]", new="        del self.fwd[key]\n        del self.bck[self.fwd[key]]"),
    dict(name="crossed-mirror", file=U, expect="C18.R2",
         old="        self.bck[value] = key\n", new="        self.bck[key] = value\n"),
    dict(name="missing-mirror", file=U, expect="C18.R2",
         old="        self.fwd[key] = value\n        self.bck[value] = key\n", new="        self.fwd[key] = value\n"),
    dict(name="evict-wrong-map", file=U, expect="C18.R2",
         old="            del self.fwd[existing_key]", new="            del self.bck[existing_key]"),
    dict(name="insert-right-not-swapped", file=U, expect="C18.R5",
         old="        self.insert_left(value, key)", new="        self.insert_left(key, value)"),
    dict(name="lenient-delete", file=U, expect="C18.R5",
         old="        del self.bck[self.fwd[key]]\n        del self.fwd[key]",
         new="        if key in self.fwd:\n            del self.bck[self.fwd[key]]\n            del self.fwd[key]"),
    dict(name="get-left-reads-fwd", file=U, expect="C18.R5",
         old="        return self.bck.get(key)", new="        return self.fwd.get(key)"),
    dict(name="no-bijection-check", file=U, expect="C18.R4",
         old="        if len(fwd) != len(set(fwd.values())):\n            raise NotBijection\n", new=""),
    dict(name="weak-bijection-check", file=U, expect="C18.R4",
         old="if len(fwd) != len(set(fwd.values())):", new="if len(fwd) != len(list(fwd.values())):"),
    dict(name="bck-not-inverted", file=U, expect="C18.R4",
         old="self.bck = {v: k for k, v in fwd.items()}", new="self.bck = {k: v for k, v in fwd.items()}"),
    dict(name="fwd-aliased", file=U, expect="C18.R4",
         old="        self.fwd = dict(fwd)", new="        self.fwd = fwd  # type: ignore[assignment]"),
    dict(name="outside-writer", file=B, expect="C18.R1",
         old="            self._links.delete_left(_SubPort(src, sub_offset))", new="            del self._links.fwd[_SubPort(src, sub_offset)]"),
    dict(name="outside-writer-alias", file=B, expect="C18.R1",
         old="        sub_port = _SubPort(port)\n        while sub_port in d:",
         new="        sub_port = _SubPort(port)\n        d.pop(sub_port, None)\n        while sub_port in d:"),
    dict(name="setitem-bypasses", file=U, expect=["C18.R5", "C18.R2"],
         old="        self.insert_left(key, value)\n\n    def __delitem__", new="        self.fwd[key] = value\n\n    def __delitem__"),
]
TWINS = [
    dict(name="twin-in-idiom", file=U,
         old="        if (existing_key := self.bck.get(value)) is not None:\n            del self.fwd[existing_key]\n",
         new="        if value in self.bck:\n            del self.fwd[self.bck[value]]\n"),
    dict(name="twin-pop-idiom", file=U,
         old="        del self.bck[self.fwd[key]]\n        del self.fwd[key]", new="        del self.bck[self.fwd.pop(key)]"),
    dict(name="twin-local-temp", file=U,
         old="        del self.fwd[self.bck[key]]\n        del self.bck[key]",
         new="        left = self.bck[key]\n        del self.fwd[left]\n        del self.bck[key]"),
    dict(name="twin-store-order", file=U,
         old="        self.fwd[key] = value\n        self.bck[value] = key\n", new="        self.bck[value] = key\n        self.fwd[key] = value\n"),
    dict(name="twin-len-bck", file=U, old="        return len(self.fwd)", new="        return len(self.bck)"),
    dict(name="twin-check-flipped", file=U,
         old="if len(fwd) != len(set(fwd.values())):", new="if len(set(fwd.values())) != len(fwd):"),
]


def thorough(ctx):
    from ..selftest import run_battery
    return run_battery(ctx, MUTANTS, TWINS)
