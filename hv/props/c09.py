"""C09 -- package envelopes round-trip and carry the documented header.

R1 header constants (table agreement with hugr-core/src/envelope/header.rs and the module docstring);
R2 flag <=> compression; R3 rejection guards of the header decoder; R4 text gate;
R5 reader / writer pairing and exhaustiveness over the formats; R6 package CODEC.
Not decided: byte-level round trip through zstd / UTF-8.
"""
from __future__ import annotations

import ast
import re

from ..cfg import CFG, EXIT, RAISE
from ..model import calls_in, call_name, kwarg, real_body, u
from ..nf import NF, Opaque, attr, ctor_args, show, sym
from .c13 import _controlling_tests, _raise_nodes

ENV = "hugr.envelope"
RUST = "hugr-core/src/envelope/header.rs"


def rust_tables(ctx):
    p = ctx.root / RUST
    if not p.exists():
        ctx.broken(f"anchor vanished: {RUST}")
    src = p.read_text()
    m = re.search(r'pub const MAGIC_NUMBERS: &\[u8\] = "([^"]+)"\.as_bytes\(\);', src)
    en = re.search(r"pub enum EnvelopeFormat \{(.*?)\n\}", src, re.S)
    if not m or not en:
        ctx.broken(f"{RUST}: MAGIC_NUMBERS / enum EnvelopeFormat not found")
    variants = {k: int(v) for k, v in re.findall(r"^\s*(\w+)\s*=\s*(\d+)\s*,", en.group(1), re.M)}
    ap = re.search(r"pub fn ascii_printable\(self\) -> bool \{\s*matches!\(self, ([^)]*)\)", src)
    printable = {x.strip().split("::")[-1] for x in ap.group(1).split("|")} if ap else set()
    fl = re.search(r"let mut flags = (0b[01]+)u8;", src)
    zb = re.search(r"let zstd = flags_bytes\[0\] & (0x[0-9a-fA-F]+|0b[01]+|\d+) != 0;", src)
    if not variants or not fl or not zb or not ap:
        ctx.broken(f"{RUST}: tables not found")
    return m.group(1).encode(), variants, {variants[x] for x in printable}, int(fl.group(1), 2), int(zb.group(1), 0)


def _is_compressed(e, block) -> bool:
    """e is pyzstd.compress(payload, ...) or a local bound to it inside the block"""
    if isinstance(e, ast.Call) and u(e.func) == "pyzstd.compress" and e.args and u(e.args[0]) == "payload":
        return True
    if isinstance(e, ast.Name):
        b = [st.value for st in ast.walk(block) if isinstance(st, ast.Assign) and u(st.targets[0]) == e.id]
        return len(b) == 1 and _is_compressed(b[0], block)
    return False


def run(ctx) -> None:
    ctx.rule("C09.R1", "header constants equal the Rust reference and the documented layout (magic, format values, flag bits, header length 10)", floor=8)
    ctx.rule("C09.R2", "the zstd flag is set iff the payload is compressed and read back with the same mask; decompression iff the flag", floor=4)
    ctx.rule("C09.R3", "header decoder rejects short input, wrong magic and unknown format bytes with ValueError before returning; nothing swallows it", floor=5)
    ctx.rule("C09.R4", "text encoding only for ASCII-printable formats whose byte value is printable", floor=3)
    ctx.rule("C09.R5", "writer and reader handle every format member; JSON arm dumps / validates the package model; Package entry points pair up", floor=8)
    ctx.rule("C09.R6", "Package <-> serial Package codec preserves modules and extensions in order", floor=4)
    prog = ctx.program
    m = prog.module(ENV)
    magic_r, variants_r, printable_r, flags_r, zmask_r = rust_tables(ctx)
    # ---- R1
    mg = m.assigns.get("MAGIC_NUMBERS")
    ok = isinstance(mg, ast.Constant) and mg.value == magic_r and len(mg.value) == 8
    ctx.check(ok, "C09.R1", "MAGIC_NUMBERS", m.path, getattr(mg, "lineno", 1), "the magic number must be the 8 bytes the Rust implementation writes", mg,
              expected=repr(magic_r), found=u(mg))
    ef = m.classes.get("EnvelopeFormat")
    if ef is None:
        ctx.broken("anchor vanished: EnvelopeFormat")
    members = {k: v.value for k, v in ef.class_assigns.items() if isinstance(v, ast.Constant) and isinstance(v.value, int)}
    ctx.check(sorted(members.values()) == sorted(variants_r.values()), "C09.R1", "EnvelopeFormat values", m.path, ef.node.lineno,
              "the format byte values must be those of the Rust EnvelopeFormat", ef.node, expected=str(variants_r), found=str(members))
    pairs = {"MODULE": "Model", "MODULE_WITH_EXTS": "ModelWithExtensions", "JSON": "PackageJson"}
    for py, rs in pairs.items():
        ctx.check(members.get(py) == variants_r.get(rs), "C09.R1", f"EnvelopeFormat.{py}", m.path, ef.node.lineno,
                  f"EnvelopeFormat.{py} must have the value of Rust's {rs}", ef.node, expected=str(variants_r.get(rs)), found=str(members.get(py)))
    hd = m.classes.get("EnvelopeHeader")
    tb, fb = hd.methods.get("to_bytes"), hd.methods.get("from_bytes")
    if tb is None or fb is None:
        ctx.broken("anchor vanished: EnvelopeHeader.to_bytes / from_bytes")
    src = u(tb)
    base = [s for s in ast.walk(tb) if isinstance(s, ast.Assign) and u(s.targets[0]) == "flags"]
    ok = len(base) == 1 and isinstance(base[0].value, ast.Constant) and base[0].value.value == flags_r and (flags_r >> 6) == 0b01
    ctx.check(ok, "C09.R1", "EnvelopeHeader.to_bytes: flag constant", m.path, tb.lineno, "bits 7,6 of the flags byte must be 0,1 (the Rust constant)", tb,
              expected=bin(flags_r), found=u(base[0].value) if base else "")
    order_ok = "bytearray(MAGIC_NUMBERS)" in src and src.index("append(self.format.value)") < src.index("append(flags)")
    ctx.check(order_ok, "C09.R1", "EnvelopeHeader.to_bytes: layout", m.path, tb.lineno, "the header is magic, then the format byte, then the flags byte", tb)
    # header length: 8 + 1 + 1 = 10 used consistently
    lens = [c for c in ast.walk(fb) if isinstance(c, ast.Compare) and "len(data)" in u(c)]
    re_ = prog.module(ENV).functions.get("read_envelope")
    sl = [n for n in ast.walk(re_) if isinstance(n, ast.Subscript) and isinstance(n.slice, ast.Slice) and u(n.value) == "envelope"]
    ok = len(lens) == 1 and u(lens[0]) in ("len(data) < 10", "10 > len(data)") and len(sl) == 1 and u(sl[0].slice) == "10:" and "data[:8]" in u(fb) and "data[8]" in u(fb) and "data[9]" in u(fb)
    ctx.check(ok, "C09.R1", "header length 10 used consistently", m.path, fb.lineno,
              "the decoder's length test, its byte positions (0..8 magic, 8 format, 9 flags) and the payload offset must all agree with the 10-byte header", fb)
    doc = ast.get_docstring(m.tree) or ""
    ok = "10 bytes" in doc and "Bit 0: Whether the payload is compressed with zstd" in doc and 'Constant "01"' in doc
    ctx.check(ok, "C09.R1", "module documentation of the header", m.path, 1, "the documented header layout must be the implemented one", None)
    # ---- R2
    zset = [n for n in ast.walk(tb) if isinstance(n, ast.If) and u(n.test) == "self.zstd"]
    ok = len(zset) == 1 and any(isinstance(s, ast.AugAssign) and isinstance(s.op, ast.BitOr) and isinstance(s.value, ast.Constant) and s.value.value == zmask_r for s in zset[0].body)
    ctx.check(ok, "C09.R2", "EnvelopeHeader.to_bytes: bit 0 = zstd", m.path, tb.lineno, "bit 0 of the flags byte is set exactly when the header says zstd", tb)
    zr = [s for s in ast.walk(fb) if isinstance(s, ast.Assign) and u(s.targets[0]) == "zstd"]
    ok = len(zr) == 1 and u(zr[0].value) in (f"bool(flags & {zmask_r})", "bool(flags & 1)", "bool(flags & 0b00000001)".replace("0b00000001", "1"))
    ctx.check(ok, "C09.R2", "EnvelopeHeader.from_bytes: zstd read from bit 0", m.path, fb.lineno, "the decoder must read the compression flag with the mask the encoder sets", fb,
              found=u(zr[0].value) if zr else "")
    cfg = m.classes.get("EnvelopeConfig")
    mh = cfg.methods.get("_make_header")
    ok = mh is not None and u(real_body(mh)[-1]) == "return EnvelopeHeader(format=self.format, zstd=self.zstd is not None)"
    ctx.check(ok, "C09.R2", "EnvelopeConfig._make_header", m.path, mh.lineno if mh else 1,
              "the header's flag must be `zstd is not None` (level 0 is a valid compression level)", mh, found=u(real_body(mh)[-1]) if mh else "")
    me = m.functions.get("make_envelope")
    comp = [n for n in ast.walk(me) if isinstance(n, ast.If) and any(call_name(c) == "compress" for c in calls_in(n))]
    ok = len(comp) == 1 and u(comp[0].test) == "config.zstd is not None" and "pyzstd.compress(payload, config.zstd)" in u(comp[0])
    if ok:
        # on every path through the guarded block the payload becomes the compressed bytes (the header flag is unconditional)
        gb = CFG(comp[0].body)
        assigns = gb.where(lambda st: isinstance(st, ast.Assign) and u(st.targets[0]) == "payload")
        good = [a for a in assigns if _is_compressed(gb.stmt[a].value, comp[0])]
        ok = bool(good) and EXIT not in gb.reachable(0, avoid=set(good)) and len(assigns) == len(good) and not comp[0].orelse
    ctx.check(ok, "C09.R2", "make_envelope: compresses iff configured", m.path, me.lineno,
              "the payload is compressed under exactly the condition that sets the header flag (zstd is not None)", me, found=u(comp[0].test) if comp else "")
    dec = [n for n in ast.walk(re_) if isinstance(n, ast.If) and any(call_name(c) == "decompress" for c in calls_in(n))]
    ok = len(dec) == 1 and u(dec[0].test) == "header.zstd" and "payload = pyzstd.decompress(payload)" in u(dec[0])
    ctx.check(ok, "C09.R2", "read_envelope: decompresses iff flagged", m.path, re_.lineno, "", re_)
    hdr_first = "config._make_header().to_bytes()" in u(me) and u(me).index("_make_header") < u(me).index("envelope += payload")
    ctx.check(hdr_first, "C09.R2", "make_envelope: header then payload", m.path, me.lineno, "", me)
    # ---- R3
    g = CFG(real_body(fb))
    rs = _raise_nodes(g, "ValueError")
    rets = [n for n, s in g.stmt.items() if isinstance(s, ast.Return)]
    specs = {"short input": "len(data) < 10", "wrong magic": "data[:8] != MAGIC_NUMBERS"}
    for what, test in specs.items():
        hit = [r for r in rs if any(u(g.stmt[t]) == test and lab == "T" for t, lab in _controlling_tests(g, r))]
        ok = bool(hit)
        tnode = [n for n, s in g.stmt.items() if g.kind.get(n) == "test" and u(s) == test]
        ok = ok and bool(tnode) and all(r not in g.reachable(0, avoid=set(tnode)) for r in rets)
        ctx.check(ok, "C09.R3", f"EnvelopeHeader.from_bytes: rejects {what}", m.path, fb.lineno,
                  f"{what} must raise ValueError before a header is returned (test `{test}` dominating the return)", fb)
    fmt = [s for s in ast.walk(fb) if isinstance(s, (ast.Assign, ast.AnnAssign)) and isinstance(s.value, ast.Call) and u(s.value.func) == "EnvelopeFormat"]
    ok = len(fmt) == 1 and u(fmt[0].value.args[0]) == "data[8]" and "Enum" in ef.base_names()
    ctx.check(ok, "C09.R3", "EnvelopeHeader.from_bytes: rejects unknown format bytes", m.path, fb.lineno,
              "the format byte must be decoded by the Enum lookup EnvelopeFormat(data[8]), which raises ValueError for values that are no member", fb)
    swallow = []
    for fn in [fb, re_, m.functions.get("read_envelope_str")] + [prog.cls("hugr.package.Package").methods.get(x) for x in ("from_bytes", "from_str")]:
        if fn is None:
            continue
        swallow += [h for h in ast.walk(fn) if isinstance(h, ast.ExceptHandler)]
    ctx.check(not swallow, "C09.R3", "no handler swallows the rejection", m.path, swallow[0].lineno if swallow else 1,
              "no try/except may sit between the header decoder and Package.from_bytes/from_str", swallow[0] if swallow else None)
    ctx.check("_missing_" not in ef.methods, "C09.R3", "EnvelopeFormat has no _missing_ fallback", m.path, ef.node.lineno, "", ef.methods.get("_missing_"))
    # ---- R4
    mes = m.functions.get("make_envelope_str")
    g = CFG(real_body(mes))
    rs = _raise_nodes(g, "ValueError")
    enc = g.where(lambda s: "make_envelope(" in u(s))
    ok = len(rs) == 1 and any(u(g.stmt[t]) == "not config.format.ascii_printable()" and lab == "T" for t, lab in _controlling_tests(g, rs[0])) and \
        bool(enc) and all(e not in g.reachable(0, avoid={t for t, _ in _controlling_tests(g, rs[0])}) for e in enc)
    ctx.check(ok, "C09.R4", "make_envelope_str: gate before encoding", m.path, mes.lineno, "text encoding must be refused with ValueError unless the format is ASCII-printable", mes)
    ap = ef.methods.get("ascii_printable")
    pr = set()
    if ap is not None:
        for n in ast.walk(ap):
            if isinstance(n, ast.Attribute) and isinstance(n.value, ast.Name) and n.value.id == "EnvelopeFormat" and n.attr in members:
                pr.add(members[n.attr])
    ctx.check(pr == printable_r, "C09.R4", "EnvelopeFormat.ascii_printable members", m.path, ap.lineno if ap else 1,
              "exactly the formats the Rust side marks printable may be offered as text", ap, expected=str(sorted(printable_r)), found=str(sorted(pr)))
    ctx.check(all(0x20 <= v <= 0x7E for v in pr) and 0x20 <= (flags_r | zmask_r) <= 0x7E and 0x20 <= flags_r <= 0x7E, "C09.R4", "printable header bytes", m.path, ef.node.lineno,
              "the format byte of a printable format and both possible flags bytes must be printable ASCII", ef.node)
    # ---- R5
    for fn, who in ((me, "make_envelope"), (re_, "read_envelope")):
        ms = [n for n in ast.walk(fn) if isinstance(n, ast.Match)]
        handled = set()
        for mt in ms:
            for c in mt.cases:
                for n in ast.walk(c.pattern):
                    if isinstance(n, ast.MatchValue) and u(n.value).startswith("EnvelopeFormat."):
                        handled.add(u(n.value).split(".")[1])
        ctx.check(handled == set(members), "C09.R5", f"{who}: every format handled", m.path, fn.lineno,
                  f"{who} must have an arm for every EnvelopeFormat member", fn, expected=str(sorted(members)), found=str(sorted(handled)))
    jarm = [c for n in ast.walk(re_) if isinstance(n, ast.Match) for c in n.cases if "EnvelopeFormat.JSON" in u(c.pattern)]
    ok = len(jarm) == 1 and "ext_s.Package.model_validate_json(payload).deserialize()" in u(jarm[0])
    ctx.check(ok, "C09.R5", "read_envelope: JSON arm validates the package model", m.path, re_.lineno, "", re_)
    jw = [c for n in ast.walk(me) if isinstance(n, ast.Match) for c in n.cases if "EnvelopeFormat.JSON" in u(c.pattern)]
    ok = len(jw) == 1 and "package._to_serial().model_dump_json()" in u(jw[0]) and "encode('utf-8')" in u(jw[0])
    ctx.check(ok, "C09.R5", "make_envelope: JSON arm dumps the package model as UTF-8", m.path, me.lineno, "", me)
    res = m.functions.get("read_envelope_str")
    ok = res is not None and u(real_body(res)[-1]) == "return read_envelope(envelope.encode('utf-8'))" and "envelope.decode('utf-8')" in u(mes)
    ctx.check(ok, "C09.R5", "string variants use UTF-8 both ways", m.path, res.lineno if res else 1, "", res)
    pk = prog.cls("hugr.package.Package")
    pairs2 = {"from_bytes": "read_envelope(envelope)", "from_str": "read_envelope_str(envelope)", "to_bytes": "make_envelope(self, config)", "to_str": "make_envelope_str(self, config)"}
    for name, want in pairs2.items():
        fn = pk.methods.get(name)
        ok = fn is not None and u(real_body(fn)[-1]) == f"return {want}"
        ctx.check(ok, "C09.R5", f"Package.{name}", pk.module.path, fn.lineno if fn else 1, f"Package.{name} must end in {want}", fn)
    # ---- R6
    nf = NF(prog)
    ts = pk.methods.get("_to_serial")
    sp = prog.cls("hugr._serialization.extension.Package")
    from .c04 import _nf_no_inline
    t, env = _nf_no_inline(nf, pk, "_to_serial")
    a = ctor_args(t) if t[0] == "ctor" else {}
    s = sym("self")
    for f in ("modules", "extensions"):
        v = a.get(f)
        ok = v is not None and v[0] == "map" and v[2] == attr(s, f) and v[1][2] in (("enc", v[1][1]), ("call", "._to_serial", (v[1][1],), ()))
        ctx.check(ok, "C09.R6", f"Package._to_serial: {f}", pk.module.path, ts.lineno, f"every element of {f} is serialized, in order", ts, found=show(v) if v else "")
    ds = sp.methods.get("deserialize")
    src = u(ds)
    ok = "modules=[Hugr._from_serial(m) for m in self.modules]" in src and "extensions=[e.deserialize() for e in self.extensions]" in src
    ctx.check(ok, "C09.R6", "serial Package.deserialize", sp.module.path, ds.lineno, "every module and extension is decoded, in order", ds)
    f = sp.find_field("extensions")
    ctx.check(f is not None and f.default_factory is not None, "C09.R6", "serial Package.extensions default", sp.module.path, f.node.lineno if f else 1, "", f.node if f else None)
    from .. import lints
    lints.arm(ctx)



# ---------------------------------------------------------------------------------------
E = "hugr-py/src/hugr/envelope.py"
P = "hugr-py/src/hugr/package.py"
SX = "hugr-py/src/hugr/_serialization/extension.py"
MUTANTS = [
    dict(name="magic-changed", file=E, expect="C09.R1", old='MAGIC_NUMBERS = b"HUGRiHJv"', new='MAGIC_NUMBERS = b"HUGRiHJw"'),
    dict(name="json-format-64", file=E, expect=["C09.R1"], old="    JSON = 63  # '?' in ASCII", new="    JSON = 64  # '@' in ASCII"),
    dict(name="flags-high-bits", file=E, expect="C09.R1", old="        flags = 0b01000000", new="        flags = 0b10000000"),
    dict(name="payload-offset-9", file=E, expect="C09.R1", old="    payload = envelope[10:]", new="    payload = envelope[9:]"),
    dict(name="flags-before-format", file=E, expect="C09.R1", old="        header_bytes.append(self.format.value)\n        flags = 0b01000000\n        if self.zstd:\n            flags |= 0b00000001\n        header_bytes.append(flags)",
         new="        flags = 0b01000000\n        if self.zstd:\n            flags |= 0b00000001\n        header_bytes.append(flags)\n        header_bytes.append(self.format.value)"),
    dict(name="zstd-bit-1", file=E, expect="C09.R2", old="            flags |= 0b00000001", new="            flags |= 0b00000010"),
    dict(name="zstd-read-other-bit", file=E, expect="C09.R2", old="        zstd = bool(flags & 0b00000001)", new="        zstd = bool(flags & 0b01000000)"),
    dict(name="level-zero-not-compressed", file=E, expect="C09.R2", old="    if config.zstd is not None:\n        payload = pyzstd.compress", new="    if config.zstd:\n        payload = pyzstd.compress"),
    dict(name="header-flag-truthy", file=E, expect="C09.R2", old="        return EnvelopeHeader(format=self.format, zstd=self.zstd is not None)", new="        return EnvelopeHeader(format=self.format, zstd=bool(self.zstd))"),
    dict(name="always-decompress", file=E, expect="C09.R2", old="    if header.zstd:\n        payload = pyzstd.decompress(payload)", new="    if header.zstd or True:\n        payload = pyzstd.decompress(payload)"),
    dict(name="short-input-accepted", file=E, expect=["C09.R3", "C09.R1"], old="        if len(data) < 10:", new="        if len(data) < 8:"),
    dict(name="magic-unchecked", file=E, expect="C09.R3", old="        if data[:8] != MAGIC_NUMBERS:", new="        if data[:4] != MAGIC_NUMBERS[:4]:"),
    dict(name="unknown-format-defaulted", file=E, expect="C09.R3", old="        format: EnvelopeFormat = EnvelopeFormat(data[8])", new="        format: EnvelopeFormat = EnvelopeFormat(data[8]) if data[8] in (1, 2, 63) else EnvelopeFormat.JSON"),
    dict(name="rejection-swallowed", file=P, expect="C09.R3", old="        return read_envelope(envelope)", new="        try:\n            return read_envelope(envelope)\n        except ValueError:\n            return Package([])"),
    dict(name="text-gate-removed", file=E, expect="C09.R4", old="    if not config.format.ascii_printable():\n        msg = \"Only ascii-printable envelope formats can be encoded into a string.\"\n        raise ValueError(msg)\n", new=""),
    dict(name="module-printable", file=E, expect="C09.R4", old="        return self in {EnvelopeFormat.JSON}", new="        return self in {EnvelopeFormat.JSON, EnvelopeFormat.MODULE}"),
    dict(name="to-str-uses-bytes-reader", file=P, expect="C09.R5", old="        return read_envelope_str(envelope)", new="        return read_envelope(envelope)  # type: ignore[arg-type]"),
    dict(name="json-arm-skips-validation", file=E, expect="C09.R5", old="            return ext_s.Package.model_validate_json(payload).deserialize()", new="            return ext_s.Package.model_construct(**json.loads(payload)).deserialize()"),
    dict(name="package-drops-extensions", file=P, expect="C09.R6", old="            extensions=[e._to_serial() for e in self.extensions],", new="            extensions=[],"),
    dict(name="package-modules-reversed", file=SX, expect="C09.R6", old="            modules=[Hugr._from_serial(m) for m in self.modules],", new="            modules=[Hugr._from_serial(m) for m in reversed(self.modules)],"),
]
TWINS = [
    dict(name="twin-mask-decimal", file=E, old="        zstd = bool(flags & 0b00000001)", new="        zstd = bool(flags & 1)"),
]


def thorough(ctx):
    from ..selftest import run_battery
    return run_battery(ctx, MUTANTS, TWINS)
