"""C09 -- package envelopes round-trip and carry the documented header.

R1 header constants (table agreement with hugr-core/src/envelope/header.rs and the module docstring);
R2 flag <=> compression; R3 rejection guards of the header decoder; R4 text gate;
R5 reader / writer pairing and exhaustiveness over the formats; R6 package CODEC.
Not decided: byte-level round trip through zstd / UTF-8.
"""
from __future__ import annotations

import ast
import copy
import re

from ..cfg import CFG, EXIT, RAISE
from ..model import calls_in, call_name, kwarg, real_body, u
from ..nf import NF, Opaque, attr, ctor_args, show, sym
from .c13 import _controlling_tests, _raise_nodes
from ..tmpl import T, tmatch

ENV = "hugr.envelope"
RUST = "hugr-core/src/envelope/header.rs"


def rust_tables(ctx):
    p = ctx.root / RUST
    if not p.exists():
        ctx.broken(f"anchor vanished: {RUST}")
    src = p.read_text()
    m = re.search(r'pub const MAGIC_NUMBERS: &\[u8\] = "([^"]+)"\.as_bytes\(\);', src)
    en = re.search(r"pub enum EnvelopeFormat \{(.*?)\n\}", src, re.S)
    if not m or not en:
        ctx.broken(f"{RUST}: MAGIC_NUMBERS / enum EnvelopeFormat not found")
    variants = {k: int(v) for k, v in re.findall(r"^\s*(\w+)\s*=\s*(\d+)\s*,", en.group(1), re.M)}
    ap = re.search(r"pub fn ascii_printable\(self\) -> bool \{\s*matches!\(self, ([^)]*)\)", src)
    printable = {x.strip().split("::")[-1] for x in ap.group(1).split("|")} if ap else set()
    fl = re.search(r"let mut flags = (0b[01]+)u8;", src)
    zb = re.search(r"let zstd = flags_bytes\[0\] & (0x[0-9a-fA-F]+|0b[01]+|\d+) != 0;", src)
    if not variants or not fl or not zb or not ap:
        ctx.broken(f"{RUST}: tables not found")
    return m.group(1).encode(), variants, {variants[x] for x in printable}, int(fl.group(1), 2), int(zb.group(1), 0)


def const_int(txt: str):
    """value of an expression made of integer literals and | & + << only (else None)"""
    try:
        e = ast.parse(txt, mode="eval").body
    except SyntaxError:
        return None

    def ev(n):
        if isinstance(n, ast.Constant) and isinstance(n.value, int) and not isinstance(n.value, bool):
            return n.value
        if isinstance(n, ast.BinOp):
            a, b = ev(n.left), ev(n.right)
            if a is None or b is None:
                return None
            if isinstance(n.op, ast.BitOr):
                return a | b
            if isinstance(n.op, ast.BitAnd):
                return a & b
            if isinstance(n.op, ast.Add):
                return a + b
            if isinstance(n.op, ast.LShift):
                return a << b
        return None
    return ev(e)


def byte_parts(p, value):
    """the bytes a path returns as a list of ("bytes", expr) / ("byte", expr) parts in order; None when not understood.
    Understands bytes(x) / bytearray(x), a + b, and a bytearray accumulator with append / extend / += effects."""
    def parts(e, depth=0, upto=None):
        upto = len(p.effects) if upto is None else upto
        if depth > 6:
            return None
        if isinstance(e, ast.Call) and u(e.func) in ("bytes", "bytearray") and len(e.args) == 1 and not e.keywords:
            if isinstance(e.args[0], (ast.List, ast.Tuple)) and not any(isinstance(x, ast.Starred) for x in e.args[0].elts):       # bytes([a, b])
                return [("byte", u(x)) for x in e.args[0].elts]
            if isinstance(e.args[0], (ast.List, ast.Tuple)) and all(not isinstance(x, ast.Starred) or isinstance(x.value, ast.Name) for x in e.args[0].elts):
                # bytes((*MAGIC, a, b)): the bytes of a named byte string, spliced in, then single bytes
                return [("bytes", x.value.id) if isinstance(x, ast.Starred) else ("byte", u(x)) for x in e.args[0].elts]
            return parts(e.args[0], depth + 1, upto)
        if isinstance(e, ast.BinOp) and isinstance(e.op, ast.Add):
            a, b = parts(e.left, depth + 1, upto), parts(e.right, depth + 1, upto)
            return None if a is None or b is None else a + b
        if isinstance(e, ast.Name) and sum(1 for x in p.effects[:upto] if isinstance(x, ast.Assign) and u(x.targets[0]) == e.id) > 1:
            # a local bound more than once (payload = ..; payload = compress(payload)): its last binding, read against what came before
            k = max(i_ for i_, x in enumerate(p.effects[:upto]) if isinstance(x, ast.Assign) and u(x.targets[0]) == e.id)
            out = parts(p.effects[k].value, depth + 1, k)
            if out is None or any((isinstance(x, ast.AugAssign) and u(x.target) == e.id) or (
                    isinstance(x, ast.Expr) and isinstance(x.value, ast.Call) and isinstance(x.value.func, ast.Attribute) and u(x.value.func.value) == e.id)
                    for x in p.effects[k + 1:upto]):
                return None
            return out
        if isinstance(e, ast.Call) and any(isinstance(a_, ast.Name) and any(isinstance(x, (ast.Assign, ast.AugAssign)) and u(x.targets[0] if isinstance(x, ast.Assign) else x.target) == a_.id
                                                                            for x in p.effects[:upto]) for a_ in e.args):
            # f(acc, ..) over a byte accumulator: the accumulator written out as the sum of its parts
            e2 = copy.deepcopy(e)
            for i_, a_ in enumerate(e2.args):
                if isinstance(a_, ast.Name) and any(isinstance(x, (ast.Assign, ast.AugAssign)) and u(x.targets[0] if isinstance(x, ast.Assign) else x.target) == a_.id for x in p.effects[:upto]):
                    r = parts(a_, depth + 1, upto)
                    if r is None or any(k_ != "bytes" for k_, _ in r):
                        return None
                    e2.args[i_] = ast.parse(" + ".join(t for _, t in r), mode="eval").body
            return [("bytes", u(e2))]
        if isinstance(e, ast.Call) and isinstance(e.func, ast.Attribute) and e.func.attr == "join" and isinstance(e.func.value, ast.Constant) \
                and e.func.value.value == b"" and len(e.args) == 1 and not e.keywords:
            # b"".join(chunks): the chunks one after the other
            return chunks(e.args[0], depth + 1)
        if isinstance(e, ast.Name):
            init = [x for x in p.effects[:upto] if isinstance(x, ast.Assign) and u(x.targets[0]) == e.id]
            if len(init) != 1:
                return [("bytes", e.id)]
            out = parts(init[0].value, depth + 1, p.effects.index(init[0]))
            if out is None:
                return None
            for x in p.effects[p.effects.index(init[0]) + 1:upto]:
                if isinstance(x, ast.AugAssign) and u(x.target) == e.id and isinstance(x.op, ast.Add):
                    r = parts(x.value, depth + 1)
                    if r is None:
                        return None
                    out += r
                elif isinstance(x, ast.Expr) and isinstance(x.value, ast.Call) and isinstance(x.value.func, ast.Attribute) and u(x.value.func.value) == e.id:
                    if x.value.func.attr == "append" and len(x.value.args) == 1:
                        out.append(("byte", u(x.value.args[0])))
                    elif x.value.func.attr == "extend" and len(x.value.args) == 1:
                        r = parts(x.value.args[0], depth + 1)
                        if r is None:
                            return None
                        out += r
                    else:
                        return None
            return out
        return [("bytes", u(e))]
    def chunks(e, depth):
        """the byte strings of a list / tuple of chunks: a display, or a local list built by append / extend / +="""
        if depth > 6:
            return None
        if isinstance(e, (ast.List, ast.Tuple)):
            out = []
            for x in e.elts:
                r = chunks(x.value, depth + 1) if isinstance(x, ast.Starred) else parts(x, depth + 1)
                if r is None:
                    return None
                out += r
            return out
        if isinstance(e, ast.Name):
            init = [x for x in p.effects if isinstance(x, ast.Assign) and u(x.targets[0]) == e.id]
            if len(init) != 1:
                return None
            out = chunks(init[0].value, depth + 1)
            if out is None:
                return None
            for x in p.effects[p.effects.index(init[0]) + 1:]:
                r = []
                if isinstance(x, ast.AugAssign) and u(x.target) == e.id and isinstance(x.op, ast.Add):
                    r = chunks(x.value, depth + 1)
                elif isinstance(x, ast.Expr) and isinstance(x.value, ast.Call) and isinstance(x.value.func, ast.Attribute) and u(x.value.func.value) == e.id and len(x.value.args) == 1:
                    if x.value.func.attr == "append":
                        r = parts(x.value.args[0], depth + 1)
                    elif x.value.func.attr == "extend":
                        r = chunks(x.value.args[0], depth + 1)
                    else:
                        return None
                if r is None:
                    return None
                out += r
            return out
        return None
    from ..rulekit import unold
    try:
        return parts(ast.parse(unold(value), mode="eval").body)
    except SyntaxError:
        return None


def _is_compressed(e, block) -> bool:
    """e is pyzstd.compress(payload, ...) or a local bound to it inside the block"""
    if isinstance(e, ast.Call) and u(e.func) == "pyzstd.compress" and e.args and u(e.args[0]) == "payload":
        return True
    if isinstance(e, ast.Name):
        b = [st.value for st in ast.walk(block) if isinstance(st, ast.Assign) and u(st.targets[0]) == e.id]
        return len(b) == 1 and _is_compressed(b[0], block)
    return False


def run(ctx) -> None:
    ctx.rule("C09.R1", "header constants equal the Rust reference and the documented layout (magic, format values, flag bits, header length 10)", floor=8)
    ctx.rule("C09.R2", "the zstd flag is set iff the payload is compressed and read back with the same mask; decompression iff the flag", floor=4)
    ctx.rule("C09.R3", "header decoder rejects short input, wrong magic and unknown format bytes with ValueError before returning; nothing swallows it", floor=5)
    ctx.rule("C09.R4", "text encoding only for ASCII-printable formats whose byte value is printable", floor=3)
    ctx.rule("C09.R5", "writer and reader handle every format member; JSON arm dumps / validates the package model; Package entry points pair up", floor=8)
    ctx.rule("C09.R6", "Package <-> serial Package codec preserves modules and extensions in order", floor=4)
    prog = ctx.program
    m = prog.module(ENV)
    magic_r, variants_r, printable_r, flags_r, zmask_r = rust_tables(ctx)
    # ---- R1
    mg = m.assigns.get("MAGIC_NUMBERS")
    ok = isinstance(mg, ast.Constant) and mg.value == magic_r and len(mg.value) == 8
    ctx.check(ok, "C09.R1", "MAGIC_NUMBERS", m.path, getattr(mg, "lineno", 1), "the magic number must be the 8 bytes the Rust implementation writes", mg,
              expected=repr(magic_r), found=u(mg))
    ef = m.classes.get("EnvelopeFormat")
    if ef is None:
        ctx.broken("anchor vanished: EnvelopeFormat")
    members = {k: v.value for k, v in ef.class_assigns.items() if isinstance(v, ast.Constant) and isinstance(v.value, int)}
    ctx.check(sorted(members.values()) == sorted(variants_r.values()), "C09.R1", "EnvelopeFormat values", m.path, ef.node.lineno,
              "the format byte values must be those of the Rust EnvelopeFormat", ef.node, expected=str(variants_r), found=str(members))
    pairs = {"MODULE": "Model", "MODULE_WITH_EXTS": "ModelWithExtensions", "JSON": "PackageJson"}
    for py, rs in pairs.items():
        ctx.check(members.get(py) == variants_r.get(rs), "C09.R1", f"EnvelopeFormat.{py}", m.path, ef.node.lineno,
                  f"EnvelopeFormat.{py} must have the value of Rust's {rs}", ef.node, expected=str(variants_r.get(rs)), found=str(members.get(py)))
    hd = m.classes.get("EnvelopeHeader")
    tb, fb = hd.methods.get("to_bytes"), hd.methods.get("from_bytes")
    if tb is None or fb is None:
        ctx.broken("anchor vanished: EnvelopeHeader.to_bytes / from_bytes")
    # ---- the header encoder as a byte sequence per path (path summaries: locals / temporaries / statement forms do not matter)
    tps = [p for p in ctx.paths(f"{ENV}.EnvelopeHeader.to_bytes") if p.kind != "raise"]
    ok_const = ok_layout = ok_bit = bool(tps)
    seen = set()
    found = ""
    def on_zstd(text):
        """[(zstd?, flags expression)] for a flags byte that chooses on self.zstd inside the expression (a conditional expression)"""
        try:
            e = ast.parse(text, mode="eval").body
        except SyntaxError:
            return []
        cond = [n for n in ast.walk(e) if isinstance(n, ast.IfExp) and u(n.test) in ("self.zstd", "not self.zstd")]
        if len(cond) != 1:
            return []
        # (re-parsed per alternative: the transformer edits in place)
        res = []
        for truth in (True, False):
            e2 = ast.parse(text, mode="eval").body
            c2 = [n for n in ast.walk(e2) if isinstance(n, ast.IfExp) and u(n.test) in ("self.zstd", "not self.zstd")][0]
            take_body = truth == (u(c2.test) == "self.zstd")

            class Pick2(ast.NodeTransformer):
                def visit_IfExp(self, node):
                    self.generic_visit(node)
                    return (node.body if take_body else node.orelse) if node is c2 else node
            res.append((truth, u(Pick2().visit(e2))))
        return res
    for p in tps:
        parts = byte_parts(p, p.value) if p.kind == "return" else None
        z = [k for t, k in p.tests if u(t) == "self.zstd"]
        found = str(parts)
        if parts is None or len(parts) != 3:
            ok_const = ok_layout = ok_bit = False
            continue
        cases = [(z[0], parts[2][1])] if z else on_zstd(parts[2][1])
        if not cases:
            ok_const = ok_layout = ok_bit = False
            continue
        ok_layout = ok_layout and parts[0] == ("bytes", "MAGIC_NUMBERS") and parts[1] == ("byte", "self.format.value") and parts[2][0] == "byte"
        for zv, ftxt in cases:
            seen.add(zv)
            fv = const_int(ftxt)
            ok_const = ok_const and fv is not None and (fv & ~zmask_r) == flags_r and (flags_r >> 6) == 0b01
            ok_bit = ok_bit and fv is not None and bool(fv & zmask_r) == zv
    ctx.check(ok_const, "C09.R1", "EnvelopeHeader.to_bytes: flag constant", m.path, tb.lineno, "bits 7,6 of the flags byte must be 0,1 (the Rust constant)", tb,
              expected=bin(flags_r), found=found)
    ctx.check(ok_layout, "C09.R1", "EnvelopeHeader.to_bytes: layout", m.path, tb.lineno, "the header is magic, then the format byte, then the flags byte", tb, found=found)
    # header length: 8 + 1 + 1 = 10 used consistently
    fps = ctx.paths(f"{ENV}.EnvelopeHeader.from_bytes")
    dp = fb.args.args[-1].arg
    rets = [p for p in fps if p.kind == "return"]
    re_ = prog.module(ENV).functions.get("read_envelope")
    rps = ctx.paths(f"{ENV}.read_envelope")
    ep = re_.args.args[0].arg
    sl = {u(n.slice) for p in rps for x in list(p.effects) + ([p.value] if p.value is not None else []) for n in ast.walk(x)
          if isinstance(n, ast.Subscript) and isinstance(n.slice, ast.Slice) and u(n.value) == ep}
    ok = bool(rets) and all(p.has_test(f"len({dp}) < 10", False) is not None and p.has_test(f"{dp}[:8] == MAGIC_NUMBERS", True) is not None for p in rets) and sl == {"10:"}
    hdr_args = [tmatch(p.value, T("EnvelopeHeader(E_f, E_z)")) or tmatch(p.value, T("cls(E_f, E_z)")) for p in rets]
    ok = ok and all(e is not None and e["E_f"] == f"EnvelopeFormat({dp}[8])" and f"{dp}[9]" in e["E_z"] for e in hdr_args)
    ctx.check(ok, "C09.R1", "header length 10 used consistently", m.path, fb.lineno,
              "the decoder's length test, its byte positions (0..8 magic, 8 format, 9 flags) and the payload offset must all agree with the 10-byte header", fb,
              found="; ".join(p.describe() for p in fps)[:300])
    doc = ast.get_docstring(m.tree) or ""
    ok = "10 bytes" in doc and "Bit 0: Whether the payload is compressed with zstd" in doc and 'Constant "01"' in doc
    ctx.check(ok, "C09.R1", "module documentation of the header", m.path, 1, "the documented header layout must be the implemented one", None)
    # ---- R2
    ctx.check(ok_bit and seen == {True, False}, "C09.R2", "EnvelopeHeader.to_bytes: bit 0 = zstd", m.path, tb.lineno, "bit 0 of the flags byte is set exactly when the header says zstd", tb)
    ok = bool(hdr_args)
    zfound = ""
    for e in hdr_args:
        if e is None:
            ok = False
            continue
        zfound = e["E_z"]
        zt = ast.parse(e["E_z"], mode="eval").body
        mk = tmatch(zt, T(f"bool({dp}[9] & E_m)")) or tmatch(zt, T(f"{dp}[9] & E_m != 0")) or tmatch(zt, T(f"({dp}[9] & E_m) != 0")) or tmatch(zt, T(f"{dp}[9] & E_m == E_m")) \
            or tmatch(zt, T(f"({dp}[9] & E_m) > 0"))
        ok = ok and mk is not None and const_int(mk["E_m"]) == zmask_r
    ctx.check(ok, "C09.R2", "EnvelopeHeader.from_bytes: zstd read from bit 0", m.path, fb.lineno, "the decoder must read the compression flag with the mask the encoder sets", fb,
              found=zfound)
    cfg = m.classes.get("EnvelopeConfig")
    mh = cfg.methods.get("_make_header")
    mps = ctx.paths(f"{ENV}.EnvelopeConfig._make_header") if mh else []
    ok = bool(mps) and all(p.kind == "return" and u(p.value) == "EnvelopeHeader(self.format, self.zstd is not None)" for p in mps)
    if mh is not None:
        ctx.check(ok, "C09.R2", "EnvelopeConfig._make_header", m.path, mh.lineno if mh else 1,
                  "the header's flag must be `zstd is not None` (level 0 is a valid compression level)", mh, found="; ".join(p.describe() for p in mps)[:200])
    me = m.functions.get("make_envelope")
    pk_p, cf_p = me.args.args[0].arg, me.args.args[1].arg
    # (stated on the writer with the header helper seen through, wherever that helper lives and whatever it is called)
    eps = [p for p in ctx.paths(f"{ENV}.make_envelope", inline=("_make_header",)) if p.kind == "return"]
    if mh is None:
        ctx.ok("C09.R2", "EnvelopeConfig._make_header", "no such method: the header construction is judged where make_envelope writes it")
    ok_c = ok_h = bool(eps)
    payloads = {}
    for p in eps:
        parts = byte_parts(p, p.value)
        z = [k for t, k in p.tests if u(t) == f"{cf_p}.zstd is not None"]
        if parts is None or len(parts) < 2 or not z:
            ok_c = ok_h = False
            continue
        ok_h = ok_h and parts[0] in (("bytes", f"{cf_p}._make_header().to_bytes()"), ("bytes", f"EnvelopeHeader({cf_p}.format, {cf_p}.zstd is not None).to_bytes()"))
        body = parts[1:]
        if z[0]:
            e = tmatch(ast.parse(body[0][1], mode="eval").body, T(f"pyzstd.compress(E_p, {cf_p}.zstd)")) if len(body) == 1 else None
            ok_c = ok_c and e is not None
            pl = e["E_p"] if e else None
        else:
            ok_c = ok_c and not any("compress" in b[1] for b in body)
            pl = " + ".join(b[1] for b in body)
        fmt = [u(t).split("EnvelopeFormat.")[-1] for t, k in p.tests if k and f"{cf_p}.format" in u(t) and "EnvelopeFormat." in u(t)]
        if fmt and pl is not None:
            payloads.setdefault(fmt[-1], set()).add(pl)
    ctx.check(ok_c, "C09.R2", "make_envelope: compresses iff configured", m.path, me.lineno,
              "the payload is compressed under exactly the condition that sets the header flag (zstd is not None)", me)
    ok = bool(rps)
    for p in rps:
        z = [k for t, k in p.tests if u(t) == f"EnvelopeHeader.from_bytes({ep}).zstd"]
        dec = [e for e in p.effects if isinstance(e, ast.Expr) and isinstance(e.value, ast.Call) and u(e.value.func).endswith("decompress")]
        ok = ok and bool(z) and (len(dec) == 1 and u(dec[0].value) == f"pyzstd.decompress({ep}[10:])" if z[0] else not dec)
    ctx.check(ok, "C09.R2", "read_envelope: decompresses iff flagged", m.path, re_.lineno, "", re_)
    ctx.check(ok_h, "C09.R2", "make_envelope: header then payload", m.path, me.lineno, "", me)
    # ---- R3
    specs = {"short input": (f"len({dp}) < 10", True), "wrong magic": (f"{dp}[:8] == MAGIC_NUMBERS", False)}
    for what, (test, pol) in specs.items():
        hit = [p for p in fps if p.has_test(test, pol) is not None]
        ok = bool(hit) and all(p.kind == "raise" and p.value is not None and u(p.value).startswith("ValueError") for p in hit) and \
            all(p.has_test(test, not pol) is not None for p in rets) and bool(rets)
        ctx.check(ok, "C09.R3", f"EnvelopeHeader.from_bytes: rejects {what}", m.path, fb.lineno,
                  f"{what} must raise ValueError before a header is returned (test `{test}` on every returning path)", fb)
    ok = bool(hdr_args) and all(e is not None and e["E_f"] == f"EnvelopeFormat({dp}[8])" for e in hdr_args) and "Enum" in ef.base_names()
    ctx.check(ok, "C09.R3", "EnvelopeHeader.from_bytes: rejects unknown format bytes", m.path, fb.lineno,
              "the format byte must be decoded by the Enum lookup EnvelopeFormat(data[8]), which raises ValueError for values that are no member", fb)
    swallow = []
    for fn in [fb, re_, m.functions.get("read_envelope_str")] + [prog.cls("hugr.package.Package").methods.get(x) for x in ("from_bytes", "from_str")]:
        if fn is None:
            continue
        swallow += [h for h in ast.walk(fn) if isinstance(h, ast.ExceptHandler)]
    ctx.check(not swallow, "C09.R3", "no handler swallows the rejection", m.path, swallow[0].lineno if swallow else 1,
              "no try/except may sit between the header decoder and Package.from_bytes/from_str", swallow[0] if swallow else None)
    ctx.check("_missing_" not in ef.methods, "C09.R3", "EnvelopeFormat has no _missing_ fallback", m.path, ef.node.lineno, "", ef.methods.get("_missing_"))
    # ---- R4
    mes = m.functions.get("make_envelope_str")
    sps = ctx.paths(f"{ENV}.make_envelope_str")
    scf = mes.args.args[1].arg
    gate = f"{scf}.format.ascii_printable()"
    refused = [p for p in sps if p.has_test(gate, False) is not None]
    allowed = [p for p in sps if p.has_test(gate, True) is not None]
    ok = bool(refused) and all(p.kind == "raise" and u(p.value).startswith("ValueError") and not any("make_envelope(" in x for x in p.effect_texts()) for p in refused) \
        and bool(allowed) and len(refused) + len(allowed) == len(sps)
    ctx.check(ok, "C09.R4", "make_envelope_str: gate before encoding", m.path, mes.lineno, "text encoding must be refused with ValueError unless the format is ASCII-printable", mes)
    ap = ef.methods.get("ascii_printable")
    pr = set()
    if ap is not None:
        for n in ast.walk(ap):
            if isinstance(n, ast.Attribute) and isinstance(n.value, ast.Name) and n.value.id == "EnvelopeFormat" and n.attr in members:
                pr.add(members[n.attr])
        # the members named are the printable ones (not the complement)
        aps = ctx.paths(f"{ENV}.EnvelopeFormat.ascii_printable")
        pos = all(p.kind == "return" and (tmatch(p.value, T("self in E_s")) is not None or tmatch(p.value, T("self is E_m")) is not None or tmatch(p.value, T("self == E_m")) is not None
                                          or (isinstance(p.value, ast.Constant) and isinstance(p.value.value, bool))) for p in aps)
        if not pos:
            pr = {-1}
    ctx.check(pr == printable_r, "C09.R4", "EnvelopeFormat.ascii_printable members", m.path, ap.lineno if ap else 1,
              "exactly the formats the Rust side marks printable may be offered as text", ap, expected=str(sorted(printable_r)), found=str(sorted(pr)))
    ctx.check(all(0x20 <= v <= 0x7E for v in pr) and 0x20 <= (flags_r | zmask_r) <= 0x7E and 0x20 <= flags_r <= 0x7E, "C09.R4", "printable header bytes", m.path, ef.node.lineno,
              "the format byte of a printable format and both possible flags bytes must be printable ASCII", ef.node)
    # ---- R5
    for who, qps, subj in (("make_envelope", ctx.paths(f"{ENV}.make_envelope"), f"{cf_p}.format"), ("read_envelope", rps, f"EnvelopeHeader.from_bytes({ep}).format")):
        handled = set()
        for p in qps:
            for t, k in p.tests:
                e = tmatch(t, T(f"{subj} == EnvelopeFormat.L_m")) or tmatch(t, T(f"{subj} is EnvelopeFormat.L_m"))
                if e is not None:
                    handled.add(e["L_m"])
        # members without an arm of their own are handled if the default path (no arm taken) refuses with ValueError
        default = [p for p in qps if not any(k for t, k in p.tests if "EnvelopeFormat." in u(t) and subj in u(t))]
        if default and all(p.kind == "raise" and u(p.value).startswith("ValueError") for p in default):
            handled |= set(members)
        elif default:
            # a closed enumeration: the path on which every other member was ruled out is the arm of the one that remains, provided it
            # ends like an arm (an answer built from what the path bound, or the refusal) and not by running off the arms
            cfn_ = ctx.cfn(f"{ENV}.{who}")
            locals_ = {n.id for n in ast.walk(cfn_) if isinstance(n, ast.Name) and isinstance(n.ctx, ast.Store)}
            left = set()
            for p in default:
                ruled_out = set()
                for t, k in p.tests:
                    e = tmatch(t, T(f"{subj} == EnvelopeFormat.L_m")) or tmatch(t, T(f"{subj} is EnvelopeFormat.L_m"))
                    if e is not None and not k:
                        ruled_out.add(e["L_m"])
                bound, unbound = set(), set()
                for x in [*p.effects, *([p.value] if p.value is not None else [])]:
                    stores = {n.id for n in ast.walk(x) if isinstance(n, ast.Name) and isinstance(n.ctx, ast.Store)}
                    loads = {n.id for n in ast.walk(x) if isinstance(n, ast.Name) and isinstance(n.ctx, ast.Load)} - stores
                    if isinstance(x, ast.AugAssign) and isinstance(x.target, ast.Name):
                        loads.add(x.target.id)
                    unbound |= (loads & locals_) - bound
                    bound |= stores
                arm_like = (p.kind == "raise" and u(p.value).startswith("ValueError")) or (p.kind == "return" and p.value is not None and not unbound)
                left.add(frozenset(set(members) - ruled_out) if arm_like else frozenset(members))
            if len(left) == 1 and len(next(iter(left))) == 1:
                handled |= next(iter(left))
        fn_ = me if who == "make_envelope" else re_
        ctx.check(handled == set(members), "C09.R5", f"{who}: every format handled", m.path, fn_.lineno,
                  f"{who} must have an arm for every EnvelopeFormat member", fn_, expected=str(sorted(members)), found=str(sorted(handled)))
    jp = [p for p in rps if any(k and u(t) in (f"EnvelopeHeader.from_bytes({ep}).format == EnvelopeFormat.JSON", f"EnvelopeHeader.from_bytes({ep}).format is EnvelopeFormat.JSON") for t, k in p.tests)]
    ok = bool(jp) and all(p.kind == "return" and tmatch(p.value, T("ext_s.Package.model_validate_json(E_pl).deserialize()")) is not None for p in jp)
    ctx.check(ok, "C09.R5", "read_envelope: JSON arm validates the package model", m.path, re_.lineno, "", re_)
    ok = payloads.get("JSON") == {f"{pk_p}._to_serial().model_dump_json().encode('utf-8')"}
    ctx.check(ok, "C09.R5", "make_envelope: JSON arm dumps the package model as UTF-8", m.path, me.lineno, "", me, found=str(payloads.get("JSON")))
    res = m.functions.get("read_envelope_str")
    qs = ctx.paths(f"{ENV}.read_envelope_str") if res else []
    ok = bool(qs) and all(p.kind == "return" and u(p.value) == f"read_envelope({res.args.args[0].arg}.encode('utf-8'))" for p in qs) and \
        all(p.kind == "return" and u(p.value) == f"make_envelope({mes.args.args[0].arg}, {scf}).decode('utf-8')" for p in allowed)
    ctx.check(ok, "C09.R5", "string variants use UTF-8 both ways", m.path, res.lineno if res else 1, "", res)
    pk = prog.cls("hugr.package.Package")
    pairs2 = {"from_bytes": "read_envelope(envelope)", "from_str": "read_envelope_str(envelope)", "to_bytes": "make_envelope(self, config or EnvelopeConfig.BINARY)",
              "to_str": "make_envelope_str(self, config or EnvelopeConfig.TEXT)"}
    for name, want in pairs2.items():
        fn = pk.methods.get(name)
        qs = ctx.paths(f"hugr.package.Package.{name}") if fn else []
        ok = bool(qs) and all(p.kind == "return" and u(p.value) == want for p in qs)
        ctx.check(ok, "C09.R5", f"Package.{name}", pk.module.path, fn.lineno if fn else 1, f"Package.{name} must end in {want}", fn, found="; ".join(p.describe() for p in qs)[:200])
    # ---- R6
    nf = NF(prog)
    ts = pk.methods.get("_to_serial")
    sp = prog.cls("hugr._serialization.extension.Package")
    from .c04 import _nf_no_inline
    t, env = _nf_no_inline(nf, pk, "_to_serial")
    a = ctor_args(t) if t[0] == "ctor" else {}
    s = sym("self")
    for f in ("modules", "extensions"):
        v = a.get(f)
        ok = v is not None and v[0] == "map" and v[2] == attr(s, f) and v[1][2] in (("enc", v[1][1]), ("call", "._to_serial", (v[1][1],), ()))
        ctx.check(ok, "C09.R6", f"Package._to_serial: {f}", pk.module.path, ts.lineno, f"every element of {f} is serialized, in order", ts, found=show(v) if v else "")
    ds = sp.methods.get("deserialize")
    from ..rulekit import arg_of
    cds = ctx.cfn("hugr._serialization.extension.Package.deserialize")
    pcalls = [c for c in calls_in(cds) if u(c.func).split(".")[-1] == "Package"]
    ok = len(pcalls) == 1
    if ok:
        am, ae = arg_of(ctx, pcalls[0], "modules", sp.module, sp), arg_of(ctx, pcalls[0], "extensions", sp.module, sp)
        # (the shared codec helper hugr.utils.deser_it is the comprehension, if its body says so)
        from ..tmpl import tseq
        try:
            di = ctx.cfn("hugr.utils.deser_it")
            di_ok = tseq(di.body, ["return [c0.deserialize() for c0 in L_it]"]) is not None
        except Exception:
            di_ok = False
        ok = am is not None and ae is not None and u(am) == "[Hugr._from_serial(c0) for c0 in self.modules]" and (
            u(ae) == "[c0.deserialize() for c0 in self.extensions]" or (di_ok and u(ae) == "deser_it(self.extensions)"))
    ctx.check(ok, "C09.R6", "serial Package.deserialize", sp.module.path, ds.lineno, "every module and extension is decoded, in order", ds)
    f = sp.find_field("extensions")
    ctx.check(f is not None and f.default_factory is not None, "C09.R6", "serial Package.extensions default", sp.module.path, f.node.lineno if f else 1, "", f.node if f else None)
    ctx.rule("C09.R7", "the extensions a package carries survive the codec used inside every envelope format (shared with C10.R1)", floor=30)
    from .c10 import r1_codec
    with ctx.as_rule(C10_R1="C09.R7"):
        r1_codec(ctx, nf)
    from .. import lints
    lints.arm(ctx)



# ---------------------------------------------------------------------------------------
E = "hugr-py/src/hugr/envelope.py"
P = "hugr-py/src/hugr/package.py"
SX = "hugr-py/src/hugr/_serialization/extension.py"
MUTANTS = [
    dict(name="magic-changed", file=E, expect="C09.R1", old='MAGIC_NUMBERS = b"HUGRiHJv"', new='MAGIC_NUMBERS = b"HUGRiHJw"'),
    dict(name="json-format-64", file=E, expect=["C09.R1"], old="    JSON = 63  # '?' in ASCII", new="    JSON = 64  # '@' in ASCII"),
    dict(name="flags-high-bits", file=E, expect="C09.R1", old="        flags = 0b01000000", new="        flags = 0b10000000"),
    dict(name="payload-offset-9", file=E, expect="C09.R1", old="    payload = envelope[10:]", new="    payload = envelope[9:]"),
    dict(name="flags-before-format", file=E, expect="C09.R1", old="        header_bytes.append(self.format.value)\n        flags = 0b01000000\n        if self.zstd:\n            flags |= 0b00000001\n        header_bytes.append(flags)",
         new="        flags = 0b01000000\n        if self.zstd:\n            flags |= 0b00000001\n        header_bytes.append(flags)\n        header_bytes.append(self.format.value)"),
    dict(name="zstd-bit-1", file=E, expect="C09.R2", old="            flags |= 0b00000001", new="            flags |= 0b00000010"),
    dict(name="zstd-read-other-bit", file=E, expect="C09.R2", old="        zstd = bool(flags & 0b00000001)", new="        zstd = bool(flags & 0b01000000)"),
    dict(name="level-zero-not-compressed", file=E, expect="C09.R2", old="    if config.zstd is not None:\n        payload = pyzstd.compress", new="    if config.zstd:\n        payload = pyzstd.compress"),
    dict(name="header-flag-truthy", file=E, expect="C09.R2", old="        return EnvelopeHeader(format=self.format, zstd=self.zstd is not None)", new="        return EnvelopeHeader(format=self.format, zstd=bool(self.zstd))"),
    dict(name="always-decompress", file=E, expect="C09.R2", old="    if header.zstd:\n        payload = pyzstd.decompress(payload)", new="    if header.zstd or True:\n        payload = pyzstd.decompress(payload)"),
    dict(name="short-input-accepted", file=E, expect=["C09.R3", "C09.R1"], old="        if len(data) < 10:", new="        if len(data) < 8:"),
    dict(name="magic-unchecked", file=E, expect="C09.R3", old="        if data[:8] != MAGIC_NUMBERS:", new="        if data[:4] != MAGIC_NUMBERS[:4]:"),
    dict(name="unknown-format-defaulted", file=E, expect="C09.R3", old="        format: EnvelopeFormat = EnvelopeFormat(data[8])", new="        format: EnvelopeFormat = EnvelopeFormat(data[8]) if data[8] in (1, 2, 63) else EnvelopeFormat.JSON"),
    dict(name="rejection-swallowed", file=P, expect="C09.R3", old="        return read_envelope(envelope)", new="        try:\n            return read_envelope(envelope)\n        except ValueError:\n            return Package([])"),
    dict(name="text-gate-removed", file=E, expect="C09.R4", old="    if not config.format.ascii_printable():\n        msg = \"Only ascii-printable envelope formats can be encoded into a string.\"\n        raise ValueError(msg)\n", new=""),
    dict(name="module-printable", file=E, expect="C09.R4", old="        return self in {EnvelopeFormat.JSON}", new="        return self in {EnvelopeFormat.JSON, EnvelopeFormat.MODULE}"),
    dict(name="module-arm-removed", file=E, expect=["C09.R5", "C09.R2"], old="        case EnvelopeFormat.MODULE:\n            payload = bytes(package.to_model())\n\n", new=""),
    dict(name="module-arm-merged-into-exts", file=E, expect="C09.R5", old="        case EnvelopeFormat.MODULE:\n            payload = bytes(package.to_model())\n\n        case EnvelopeFormat.MODULE_WITH_EXTS:", new="        case _:"),
    dict(name="to-str-uses-bytes-reader", file=P, expect="C09.R5", old="        return read_envelope_str(envelope)", new="        return read_envelope(envelope)  # type: ignore[arg-type]"),
    dict(name="json-arm-skips-validation", file=E, expect="C09.R5", old="            return ext_s.Package.model_validate_json(payload).deserialize()", new="            return ext_s.Package.model_construct(**json.loads(payload)).deserialize()"),
    dict(name="package-drops-extensions", file=P, expect="C09.R6", old="            extensions=[e._to_serial() for e in self.extensions],", new="            extensions=[],"),
    dict(name="package-modules-reversed", file=SX, expect="C09.R6", old="            modules=[Hugr._from_serial(m) for m in self.modules],", new="            modules=[Hugr._from_serial(m) for m in reversed(self.modules)],"),
]
TWINS = [
    dict(name="twin-mask-decimal", file=E, old="        zstd = bool(flags & 0b00000001)", new="        zstd = bool(flags & 1)"),
]


def thorough(ctx):
    from ..selftest import run_battery
    return run_battery(ctx, MUTANTS, TWINS)
