"""C06 -- operation signatures and port kinds follow the specification's typing rules.

The property is a table, and the table is in the code: each row is compared as a normal form
(engine C) with the row the specification assigns.  Rows are Python expressions over `self`
normalised by the same engine, so `a + b`, `[*a, *b]`, locals, properties and keyword/positional
spellings all compare alike.
"""
from __future__ import annotations

import ast

from ..model import calls_in, call_name, real_body, u
from ..nf import NF, Opaque, attr, const, ctor_args, fill_defaults, find_calls, show, sym

OPS = "hugr.ops"

# (class, method, expected expression over self [and method parameters], citation)
SIG_TABLE = [
    ("Input", "outer_signature", "tys.FunctionType([], self.types)", "spec: Input outputs are the container's inputs"),
    ("Output", "outer_signature", "tys.FunctionType(self._types, [])", "spec: Output inputs are the container's outputs"),
    ("DFG", "outer_signature", "tys.FunctionType(self.inputs, self._outputs, self._extension_delta)", "property: a DFG's outer signature equals its body's"),
    ("DFG", "inner_signature", "tys.FunctionType(self.inputs, self._outputs, self._extension_delta)", "property: a DFG's outer signature equals its body's"),
    ("CFG", "outer_signature", "tys.FunctionType(self.inputs, self._outputs)", "spec: CFG signature inputs -> outputs"),
    ("Conditional", "outer_signature", "tys.FunctionType([self.sum_ty, *self.other_inputs], self._outputs)", "property: sum followed by the other inputs"),
    ("Conditional", "nth_inputs", "[*self.sum_ty.variant_rows[n], *self.other_inputs]", "property: case i receives variant i followed by the other inputs"),
    ("Case", "inner_signature", "tys.FunctionType(self.inputs, self._outputs)", "spec: case body signature"),
    ("TailLoop", "outer_signature", "tys.FunctionType(self.just_inputs + self.rest, self._just_outputs + self.rest)", "property: just-inputs + rest -> just-outputs + rest"),
    ("TailLoop", "inner_signature", "tys.FunctionType(self.just_inputs + self.rest, [tys.Sum([self.just_inputs, self._just_outputs]), *self.rest])",
     "property: body returns Sum(just-inputs, just-outputs) plus rest"),
    ("TailLoop", "_inputs", "self.just_inputs + self.rest", "body inputs = just-inputs + rest"),
    ("DataflowBlock", "inner_signature", "tys.FunctionType(self.inputs, [self._sum, *self._other_outputs])", "spec: block body returns the branch sum plus other outputs"),
    ("DataflowBlock", "nth_outputs", "[*self._sum.variant_rows[n], *self._other_outputs]", "property: successor i receives variant i plus the other outputs"),
    ("Tag", "outer_signature", "tys.FunctionType(self.sum_ty.variant_rows[self.tag], [self.sum_ty])", "property: Tag maps variant row to the sum"),
    ("CallIndirect", "outer_signature", "tys.FunctionType([self._signature, *self._signature.input], self._signature.output)", "property: CallIndirect prepends the function type"),
    ("LoadFunc", "outer_signature", "tys.FunctionType([], [self.instantiation])", "property: LoadFunction exposes the instantiated signature"),
    ("LoadConst", "outer_signature", "tys.FunctionType([], [self._typ])", "property: LoadConstant produces the constant's type"),
    ("FuncDefn", "inner_signature", "tys.FunctionType(self.inputs, self._outputs)", "spec: function body signature"),
    ("FuncDefn", "signature", "tys.PolyFuncType(self.params, tys.FunctionType(self.inputs, self._outputs))", "spec: polymorphic signature of a definition"),
    ("Noop", "outer_signature", "tys.FunctionType([self._type], [self._type], ['prelude'])", "prelude.Noop : T -> T"),
    ("Noop", "cached_signature", "tys.FunctionType([self._type], [self._type], ['prelude'])", "prelude.Noop : T -> T"),
    ("MakeTuple", "cached_signature", "tys.FunctionType(self._types, [tys.Tuple(*self._types)], ['prelude'])", "prelude.MakeTuple : T* -> Tuple(T*)"),
    ("UnpackTuple", "cached_signature", "tys.FunctionType([tys.Tuple(*self._types)], self._types, ['prelude'])", "prelude.UnpackTuple : Tuple(T*) -> T*"),
    ("Custom", "outer_signature", "self.signature", "an opaque op's signature is the one it carries"),
    ("DFG", "_inputs", "self.inputs", "body inputs"),
    ("Case", "_inputs", "self.inputs", "body inputs"),
    ("FuncDefn", "_inputs", "self.inputs", "body inputs"),
    ("DataflowBlock", "_inputs", "self.inputs", "body inputs"),
]

# num_out: expected expression; for dataflow ops it is additionally cross-checked against len(outer_signature().output)
NUM_OUT = {
    "Input": "len(self.types)", "Output": "0", "Custom": "len(self.signature.output)", "MakeTuple": "1", "UnpackTuple": "len(self._types)",
    "Tag": "1", "DFG": "len(self._outputs)", "CFG": "len(self._outputs)", "DataflowBlock": "len(self._sum.variant_rows)", "ExitBlock": "0",
    "Const": "1", "LoadConst": "1", "Conditional": "len(self._outputs)", "Case": "0", "TailLoop": "len(self._just_outputs) + len(self.rest)",
    "FuncDefn": "1", "FuncDecl": "1", "Module": "0", "Call": "len(self.instantiation.output)", "CallIndirect": "len(self._signature.output)",
    "LoadFunc": "1", "Noop": "1", "AliasDecl": "0", "AliasDefn": "0",
}

# port_kind arms: class -> list of (pattern text, expected return expression) ; every other arm raises InvalidPort
KIND_ARMS = {
    "Const": [("OutPort(_, 0)", "tys.ConstKind(self.val.type_())")],
    "LoadConst": [("InPort(_, 0)", "tys.ConstKind(self._typ)"), ("OutPort(_, 0)", "tys.ValueKind(self._typ)")],
    "FuncDefn": [("OutPort(_, 0)", "tys.FunctionKind(tys.PolyFuncType(self.params, tys.FunctionType(self.inputs, self._outputs)))")],
    "FuncDecl": [("OutPort(_, 0)", "tys.FunctionKind(self.signature)")],
    "LoadFunc": [("InPort(_, 0)", "tys.FunctionKind(self.signature)"), ("OutPort(_, 0)", "tys.ValueKind(self.instantiation)")],
}
ALWAYS_INVALID = ["Case", "Module", "AliasDecl", "AliasDefn"]
ALWAYS_CF = ["DataflowBlock", "ExitBlock"]


def norm(nf, t):
    return fill_defaults(nf, t)


def unpack_unary_rule(ctx, rule="C06.R1") -> None:
    """UnpackTuple learns its row from a UNARY sum only: both the wire row and the sum's variant rows are taken apart by patterns
    that fit exactly one element (anything else raises), so the signature Tuple(row) -> row is the inverse of MakeTuple's"""
    q = "hugr.ops.UnpackTuple._set_in_types"
    fn, mod, _ = ctx.locate(q)
    cf = ctx.cfn(q, subst=False)

    def exactly_one(tgt, src_test):
        for n in ast.walk(cf):
            if isinstance(n, ast.Assign) and len(n.targets) == 1 and isinstance(n.targets[0], (ast.Tuple, ast.List)) and len(n.targets[0].elts) == 1 \
                    and not isinstance(n.targets[0].elts[0], ast.Starred) and src_test(n.value):
                return True
        # or an explicit length test that refuses anything but one element
        for p in ctx.paths(q):
            if p.kind == "raise":
                continue
            if not any((("len(" in u(t)) and ("== 1" in u(t)) and k) or (("len(" in u(t)) and ("!= 1" in u(t)) and not k) for t, k in p.tests if src_test(t)):
                return False
        return True
    ok = exactly_one(None, lambda e: any(isinstance(n, ast.Attribute) and n.attr == "variant_rows" for n in ast.walk(e)))
    ctx.check(ok, rule, "hugr.ops.UnpackTuple._set_in_types: unary sums only", mod.path, fn.lineno,
              "UnpackTuple must refuse a sum with more (or fewer) than one variant: its output row is the single variant's row; taking "
              "the first of several variants types the node Tuple(row0) -> row0 over a wire that carries another sum", fn)


def r1_signatures(ctx, nf) -> None:
    mod = ctx.program.module(OPS)
    for cname, meth, expr, cite in SIG_TABLE:
        c = mod.classes.get(cname)
        if c is None:
            ctx.broken(f"anchor vanished: hugr.ops.{cname}")
        k, m = c.find_method(meth)
        if m is None:
            ctx.broken(f"anchor vanished: hugr.ops.{cname}.{meth}")
        inst = f"hugr.ops.{cname}.{meth}"
        try:
            alts = nf.method_alts(c, meth)
            want, _ = nf.expr_nf(expr, c, extra={"n": sym("n")})
        except Opaque as e:
            ctx.broken(f"{inst}: not normalisable ({e})")
        w = norm(nf, want)
        bad = [(gd, norm(nf, t)) for gd, t, _ in alts if norm(nf, t) != w]
        ctx.check(not bad, "C06.R1", inst, k.module.path, m.lineno,
                  f"{cname}.{meth} deviates from the specification row ({cite})" + (f" on the path [{bad[0][0]}]" if bad and bad[0][0] else ""), m,
                  expected=show(w), found=show(bad[0][1]) if bad else "", detail=show(w)[:200])
    # UnpackTuple.outer_signature is the flip of MakeTuple's over the same element types (inverse pair)
    c = mod.classes["UnpackTuple"]
    k, m = c.find_method("outer_signature")
    got, _ = nf.method_nf(c, "outer_signature")
    mk = nf.method_nf(mod.classes["MakeTuple"], "cached_signature")[0]
    ok = got[0] == "call" and got[1] == ".flip" and any(mk == x for x in _subterms(got))
    own = m is not None and "outer_signature" in c.methods
    if own:
        ctx.check(ok, "C06.R1", "hugr.ops.UnpackTuple.outer_signature", k.module.path, m.lineno,
                  "UnpackTuple's signature must be the flip of MakeTuple's over the same element types", m,
                  expected=".flip(MakeTuple(self.types).outer_signature())", found=show(got)[:300])
    mkc, upc = norm(nf, mk), norm(nf, nf.method_nf(c, "cached_signature")[0])
    a, b = ctor_args(mkc), ctor_args(upc)
    ctx.check(a["input"] == b["output"] and a["output"] == b["input"], "C06.R1", "MakeTuple/UnpackTuple inverse", k.module.path, c.node.lineno,
              "MakeTuple and UnpackTuple must have mutually flipped signatures", c.node, expected=show(mkc), found=show(upc))
    # FunctionType.flip really swaps
    ft = ctx.program.cls("hugr.tys.FunctionType")
    fl, _ = nf.method_nf(ft, "flip")
    s = sym("self")
    ok = fl[0] == "ctor" and ctor_args(fl).get("input") == attr(s, "output") and ctor_args(fl).get("output") == attr(s, "input")
    ctx.check(ok, "C06.R1", "hugr.tys.FunctionType.flip", ft.module.path, ft.methods["flip"].lineno,
              "flip must swap input and output rows", ft.methods["flip"], found=show(fl))
    # AsExtOp: outer signature is that of the ExtOp instantiated with the cached signature; ExtOp returns the cached one when present
    ae = mod.classes["AsExtOp"]
    t, _ = nf.method_nf(ae, "outer_signature")
    ok = t[0] == "call" and t[1] == ".outer_signature" and find_calls(t, ".instantiate")
    ctx.check(bool(ok), "C06.R1", "hugr.ops.AsExtOp.outer_signature", ae.module.path, ae.methods["outer_signature"].lineno,
              "AsExtOp.outer_signature must be ext_op.outer_signature() with ext_op = op_def().instantiate(type_args(), cached_signature())",
              ae.methods["outer_signature"], found=show(t))
    eo_cls = mod.classes["AsExtOp"]
    k, eo = eo_cls.find_method("ext_op")
    tt, _ = nf.method_nf(eo_cls, "ext_op")
    want = ("call", ".instantiate", (("call", ".op_def", (s,), ()), ("call", ".type_args", (s,), ()), ("call", ".cached_signature", (s,), ())), ())
    got_s = show(tt)
    ok = tt[0] == "call" and tt[1] == ".instantiate" and len(tt[2]) == 3
    ctx.check(ok, "C06.R1", "hugr.ops.AsExtOp.ext_op", k.module.path, eo.lineno,
              "ext_op must instantiate the definition with the op's type arguments and cached signature (in this order)", eo, found=got_s)
    xo = mod.classes["ExtOp"]
    paths = nf.paths(xo, "outer_signature")
    rets = [(g, t) for g, o, t, n, e in paths if o == "return"]
    ok = any(t == attr(s, "signature") for g, t in rets) and all(
        t in (attr(s, "signature"), attr(attr(attr(attr(s, "_op_def"), "signature"), "poly_func"), "body")) for g, t in rets)
    ctx.check(ok, "C06.R1", "hugr.ops.ExtOp.outer_signature", xo.module.path, xo.methods["outer_signature"].lineno,
              "ExtOp.outer_signature must be the cached signature, else the definition's monomorphic body", xo.methods["outer_signature"],
              found="; ".join(show(t) for g, t in rets))


def _subterms(t):
    out = [t]
    if isinstance(t, tuple):
        for x in t:
            if isinstance(x, tuple):
                out += _subterms(x)
    return out


def r2_num_out(ctx, nf) -> None:
    mod = ctx.program.module(OPS)
    seen = set()
    for cname, expr in NUM_OUT.items():
        c = mod.classes.get(cname)
        if c is None:
            ctx.broken(f"anchor vanished: hugr.ops.{cname}")
        inst = f"hugr.ops.{cname}.num_out"
        seen.add(cname)
        want, _ = nf.expr_nf(expr, c)
        f = c.find_field("num_out")
        k, m = c.find_method("num_out")
        if m is not None and (f is None or c.mro.index(k) <= c.mro.index(f.owner)):
            try:
                alts = nf.method_alts(c, "num_out")
            except Opaque as e:
                ctx.broken(f"{inst}: {e}")
            got = alts[0][1]
            for gd, t, _ in alts[1:]:
                if t != got:
                    got = ("alts", tuple((g2, t2) for g2, t2, _ in alts))
                    break
            node, file = m, k.module.path
        elif f is not None:
            got = const(f.default.value) if isinstance(f.default, ast.Constant) else ("opaque", u(f.default))
            node, file = f.node, f.owner.module.path
            # `x: int = field(default=..)` only means "default .." inside a @dataclass: the decorator is not inherited, so in a
            # plain subclass the class attribute is the dataclasses.Field object itself
            if isinstance(f.node.value, ast.Call) and u(f.node.value.func) in ("field", "dataclasses.field") and not f.owner.is_dataclass:
                got = ("opaque", f"<dataclasses.Field object: {f.owner.name} is not decorated with @dataclass>")
        else:
            ctx.fail("C06.R2", inst, c.module.path, c.node.lineno, f"{cname} has no num_out", c.node)
            continue
        # num_out through outer_signature(): inline
        if find_calls(got, ".outer_signature") or (got[0] == "len" and False):
            try:
                os_, _ = nf.method_nf(c, "outer_signature")
                got = nf.mk_len(ctor_args(norm(nf, os_))["output"]) if os_[0] == "ctor" else nf.mk_len(attr(os_, "output"))
            except (Opaque, KeyError):
                pass
        ctx.check(got == want, "C06.R2", inst, file, node.lineno,
                  f"the output count of {cname} must be {expr}", node, expected=show(want), found=show(got), detail=show(got))
        # cross-check with the signature for dataflow ops
        if c.is_subclass_of("DataflowOp") and not c.is_subclass_of("AsExtOp"):
            try:
                os_, _ = nf.method_nf(c, "outer_signature")
            except Opaque:
                continue
            os_ = norm(nf, os_)
            out_len = nf.mk_len(ctor_args(os_)["output"]) if os_[0] == "ctor" else nf.mk_len(attr(os_, "output"))
            ctx.check(out_len == want, "C06.R2", inst + " vs outer_signature", file, node.lineno,
                      f"num_out of {cname} disagrees with the length of its signature's output row", node,
                      expected=show(out_len), found=show(want), detail=f"len(output row) = {show(out_len)}")
    # exhaustiveness: every concrete op class with an encoder is in the table (or inherits from one that is)
    for c in mod.classes.values():
        if "_to_serial" in c.methods and c.name not in seen and not c.is_subclass_of("AsExtOp") and c.name not in ("Op",):
            if not any(b.name in seen for b in c.mro[1:]):
                ctx.fail("C06.R2", f"hugr.ops.{c.name}.num_out", c.module.path, c.node.lineno,
                         f"operation class {c.name} is not covered by the output-count table", c.node)


def _port_key(p, pp):
    """(class, offset) a returning path of port_kind(port) is taken for: from the isinstance / offset tests on the path"""
    # the classes the port can still have: isinstance tests taken narrow {InPort, OutPort}, tests refused remove their classes
    dom = {"InPort", "OutPort"}

    def members(e):
        if isinstance(e, ast.BinOp) and isinstance(e.op, ast.BitOr):
            return members(e.left) | members(e.right)
        if isinstance(e, ast.Tuple):
            return set().union(*[members(x) for x in e.elts])
        return {u(e).split(".")[-1]}
    narrowed = False
    for t, k in p.tests:
        if isinstance(t, ast.Call) and u(t.func) == "isinstance" and len(t.args) == 2 and u(t.args[0]) == pp:
            ms = members(t.args[1])
            dom = (dom & ms) if k else (dom - ms)
            narrowed = True
    cls = [sorted(dom)[0]] if narrowed and len(dom) == 1 else []
    off = [u(t.comparators[0]) for t, k in p.tests if k and isinstance(t, ast.Compare) and isinstance(t.ops[0], ast.Eq) and u(t.left) == f"{pp}.offset"]
    off += [u(t.left) for t, k in p.tests if k and isinstance(t, ast.Compare) and isinstance(t.ops[0], ast.Eq) and u(t.comparators[0]) == f"{pp}.offset"]
    return f"{cls[-1] if cls else '?'}(_, {off[-1] if off else '?'})"


def _spt(ctx):
    """(call text, qualified name, FunctionDef) of the private helper that reads a port's type off a signature: the module function
    `_sig_port_type(sig, port)`, or -- moved by a refactoring -- a two-parameter static method of a private class of hugr.ops that
    DataflowOp.port_type hands the outer signature and the port to"""
    mod = ctx.program.module(OPS)
    fn = mod.functions.get("_sig_port_type")
    if fn is not None:
        return "_sig_port_type", "hugr.ops._sig_port_type", fn
    dfo = mod.classes.get("DataflowOp")
    pt = dfo.methods.get("port_type") if dfo else None
    if pt is not None:
        for c in calls_in(pt):
            if isinstance(c.func, ast.Attribute) and isinstance(c.func.value, ast.Name) and c.func.value.id in mod.classes and c.func.value.id.startswith("_") \
                    and len(c.args) == 2 and not c.keywords:
                k = mod.classes[c.func.value.id]
                m_ = k.methods.get(c.func.attr)
                if m_ is not None and any(u(d) == "staticmethod" for d in m_.decorator_list) and len(m_.args.args) == 2:
                    return u(c.func), f"hugr.ops.{k.name}.{c.func.attr}", m_
            if isinstance(c.func, ast.Name) and c.func.id.startswith("_") and c.func.id in mod.functions and len(c.args) == 2 and not c.keywords \
                    and len(mod.functions[c.func.id].args.args) == 2:
                return c.func.id, f"hugr.ops.{c.func.id}", mod.functions[c.func.id]
    ctx.broken("anchor vanished: hugr.ops._sig_port_type")


def r3_port_kinds(ctx, nf) -> None:
    """stated over path summaries: `match port` and isinstance/offset tests, statements and conditional expressions coincide"""
    mod = ctx.program.module(OPS)
    s = sym("self")
    # which definition answers: a dataflow op's port_kind / port_type is its own, or the one of a DATAFLOW base -- a default put on a
    # mixin that comes earlier in the bases (class DFG(DfParentOp, DataflowOp)) would answer instead of DataflowOp's
    dfo = mod.classes.get("DataflowOp")
    if dfo is None:
        ctx.broken("anchor vanished: hugr.ops.DataflowOp")
    for cname, c in sorted(mod.classes.items()):
        if c is dfo or dfo not in c.mro:
            continue
        for meth in ("port_kind", "port_type"):
            if meth == "port_kind" and cname in KIND_ARMS:
                continue        # (a class with arms of its own: whichever definition answers is judged against its arms below)
            definer = next((k for k in c.mro if hasattr(k, "methods") and meth in k.methods), None)
            ok = definer is not None and (definer is c or dfo in definer.mro)
            ctx.check(ok, "C06.R3", f"hugr.ops.{cname}.{meth}: answered by a dataflow definition", c.module.path, c.node.lineno,
                      f"{cname} is a dataflow op: its {meth} must be its own or DataflowOp's (value ports typed by the signature, order port), "
                      f"not the one of `{getattr(definer, 'name', '?')}` that precedes DataflowOp among its bases", c.node,
                      expected="DataflowOp (or an override in a dataflow class)", found=getattr(definer, "name", "none"))
    for cname, arms in KIND_ARMS.items():
        c = mod.classes[cname]
        m = c.find_method("port_kind")[1]
        if m is None:
            ctx.broken(f"anchor vanished: hugr.ops.{cname}.port_kind")
        pp = m.args.args[1].arg
        got_arms = {}
        other_ok = True
        for p in ctx.paths(f"hugr.ops.{cname}.port_kind"):
            if p.kind == "return":
                try:
                    got_arms[_port_key(p, pp)] = nf.expr_nf(p.value_text(), c, extra={pp: sym(pp)})[0]
                except Opaque as e:
                    ctx.broken(f"hugr.ops.{cname}.port_kind: {e}")
            elif p.kind == "raise":
                if not ("_invalid_port" in p.value_text() or "InvalidPort" in p.value_text()):
                    other_ok = False
            else:
                other_ok = False
        want = {}
        for pat, expr in arms:
            want[pat] = norm(nf, nf.expr_nf(expr, c)[0])
        got_n = {k: norm(nf, v) for k, v in got_arms.items()}
        ok = got_n == want and other_ok
        ctx.check(ok, "C06.R3", f"hugr.ops.{cname}.port_kind", c.module.path, m.lineno,
                  f"{cname}.port_kind must offer exactly " + ", ".join(f"{p_} -> {e}" for p_, e in arms) + " and raise InvalidPort otherwise", m,
                  expected="; ".join(f"{k}: {show(v)}" for k, v in want.items()), found="; ".join(f"{k}: {show(v)}" for k, v in got_n.items()) + ("" if other_ok else "; a non-raising fall-through"),
                  detail="; ".join(f"{k} -> {show(v)}" for k, v in got_n.items()))
    for cname in ALWAYS_INVALID:
        c = mod.classes[cname]
        m = c.find_method("port_kind")[1]
        ps = ctx.paths(f"hugr.ops.{cname}.port_kind") if m else []
        ok = bool(ps) and all(p.kind == "raise" and "_invalid_port" in p.value_text() for p in ps)
        ctx.check(ok, "C06.R3", f"hugr.ops.{cname}.port_kind", c.module.path, (m or c.node).lineno, f"{cname} has no ports: port_kind must raise InvalidPort", m)
    for cname in ALWAYS_CF:
        c = mod.classes[cname]
        m = c.find_method("port_kind")[1]
        ps = ctx.paths(f"hugr.ops.{cname}.port_kind") if m else []
        ok = bool(ps) and all(p.kind == "return" and p.value_text() == "tys.CFKind()" for p in ps)
        ctx.check(ok, "C06.R3", f"hugr.ops.{cname}.port_kind", c.module.path, (m or c.node).lineno, f"every port of a {cname} is a control-flow port", m)
    # DataflowOp.port_kind: order kind for -1, else ValueKind(port_type(port)); port_type = _sig_port_type(outer_signature(), port)
    d = mod.classes["DataflowOp"]
    dm = d.find_method("port_kind")[1]
    pp = dm.args.args[1].arg
    ps = ctx.paths("hugr.ops.DataflowOp.port_kind")
    want_v = nf.expr_nf(f"tys.ValueKind({_spt(ctx)[0]}(self.outer_signature(), {pp}))", d, extra={pp: sym(pp)})[0]
    ok = bool(ps)
    seen = set()
    for p in ps:
        t = [k for t_, k in p.tests if u(t_) == f"{pp}.offset == -1"]
        if p.kind != "return" or not t:
            ok = False
            continue
        seen.add(t[0])
        v = nf.expr_nf(p.value_text(), d, extra={pp: sym(pp)})[0]
        ok = ok and (v == ("ctor", "hugr.tys.OrderKind", ()) if t[0] else v == want_v)
    ctx.check(bool(ok) and seen == {True, False}, "C06.R3", "hugr.ops.DataflowOp.port_kind", d.module.path, dm.lineno,
              "a dataflow op's port is the order port for offset -1 and otherwise a value port typed by its outer signature", dm,
              found="; ".join(p.describe() for p in ps))
    _, spt_q, spt = _spt(ctx)
    sg, pp = spt.args.args[0].arg, spt.args.args[1].arg
    ps = ctx.paths(spt_q)
    ok = bool(ps)
    seen = set()
    for p in ps:
        order = [k for t_, k in p.tests if u(t_) == f"{pp}.offset == -1"]
        if order and order[0]:
            ok = ok and p.kind == "raise"
            seen.add("order")
            continue
        inc = [k for t_, k in p.tests if u(t_) == f"{pp}.direction == Direction.INCOMING"]
        out = [k for t_, k in p.tests if u(t_) == f"{pp}.direction == Direction.OUTGOING"]
        is_in = (inc and inc[0]) or (out and not out[0])
        if not (inc or out) or p.kind != "return" or not order:
            ok = False
            continue
        seen.add("in" if is_in else "out")
        ok = ok and p.value_text() == (f"{sg}.input[{pp}.offset]" if is_in else f"{sg}.output[{pp}.offset]")
    ctx.check(bool(ok) and seen == {"order", "in", "out"}, "C06.R3", "hugr.ops._sig_port_type", mod.path, spt.lineno,
              "_sig_port_type must index sig.input for incoming and sig.output for outgoing ports and refuse the order port", spt,
              found="; ".join(p.describe() for p in ps))
    # Hugr.port_type: value type of a Call output is the payload of its kind
    hugr = ctx.program.cls("hugr.hugr.base.Hugr")
    pt = hugr.methods.get("port_type")
    pp = pt.args.args[1].arg
    ps = [p for p in ctx.paths("hugr.hugr.base.Hugr.port_type") if p.kind == "return"]
    df = [p for p in ps if any(isinstance(t, ast.Call) and u(t.func) == "isinstance" and "DataflowOp" in u(t.args[1]) and k for t, k in p.tests)]
    vk = [p for p in ps if any(isinstance(t, ast.Call) and u(t.func) == "isinstance" and u(t.args[1]) in ("ValueKind", "tys.ValueKind") and k for t, k in p.tests)]
    ok = bool(df) and all(p.value_text().endswith(f".port_type({pp})") for p in df) and bool(vk) and all(p.value_text().endswith(".ty") and "port_kind(" in p.value_text() for p in vk)
    ctx.check(ok, "C06.R3", "hugr.hugr.base.Hugr.port_type", hugr.module.path, pt.lineno,
              "Hugr.port_type must return op.port_type(port) for dataflow ops and the ValueKind payload for Call outputs", pt,
              found="; ".join(p.describe() for p in ps)[:300])


def r4_call(ctx, nf) -> None:
    """one signature per Call: num_out, the function-port offset and port_kind all read the instantiation"""
    c = ctx.program.module(OPS).classes["Call"]
    file = c.module.path
    s = sym("self")
    inst_in = nf.mk_len(attr(attr(s, "instantiation"), "input"))
    k, m = c.find_method("_function_port_offset")
    got, _ = nf.method_nf(c, "_function_port_offset")
    ctx.check(got == inst_in, "C06.R4", "hugr.ops.Call._function_port_offset", file, m.lineno,
              "the function port of a Call sits immediately after the value inputs of the *instantiated* signature; the polymorphic body "
              "can have a different arity (row variables)", m, expected=show(inst_in), found=show(got))
    pkm = c.find_method("port_kind")[1]
    pname = pkm.args.args[1].arg
    want_ty, _ = nf.expr_nf(f"{_spt(ctx)[0]}(self.instantiation, {pname})", c, extra={pname: sym(pname)})
    want_fn, _ = nf.expr_nf("tys.FunctionKind(self.signature)", c)
    ok_fn = False
    ok_val = True
    # (the signature-port helper stays a call here, whatever it is called: its own body is judged by C06.R3)
    for p in ctx.paths("hugr.ops.Call.port_kind", keep=(_spt(ctx)[1].split(".")[-1],)):
        if p.kind != "return":
            ok_val = False
            continue
        term = nf.expr_nf(p.value_text(), c, extra={pname: sym(pname)})[0]
        key = _port_key(p, pname)
        if term[0] == "ctor" and term[1] == "hugr.tys.FunctionKind":
            ok_fn = term == want_fn and key == "InPort(_, self._function_port_offset())"
            if not ok_fn:
                break
        elif term[0] == "ctor" and term[1] == "hugr.tys.ValueKind":
            if ctor_args(term).get("ty") != want_ty:
                ok_val = False
        else:
            ok_val = False
    pk = c.find_method("port_kind")[1]
    ctx.check(ok_fn, "C06.R4", "hugr.ops.Call.port_kind: function port", file, pk.lineno,
              "the input at _function_port_offset() must be the FunctionKind port carrying the polymorphic signature", pk)
    ctx.check(ok_val, "C06.R4", "hugr.ops.Call.port_kind: value ports", file, pk.lineno,
              "all other ports of a Call are value ports typed by the instantiated signature", pk)


def r4_instantiation(ctx) -> None:
    """what `instantiation` is: the body for a function without type parameters (whatever was passed), the given one otherwise"""
    from ..rulekit import unold
    q = "hugr.ops._CallOrLoad.__init__"
    fn, m, _ = ctx.locate(q)
    a = [x.arg for x in fn.args.args]
    if len(a) < 3:
        ctx.broken("_CallOrLoad.__init__: expected (self, signature, instantiation, type_args)")
    sig, inst = a[1], a[2]
    ok = True
    seen = set()
    why = ""
    for p in ctx.paths(q):
        if p.kind == "raise":
            continue
        mono = [k for t, k in p.tests if u(t) in (f"len({sig}.params) == 0", f"0 == len({sig}.params)")] + \
               [not k for t, k in p.tests if u(t) in (f"0 < len({sig}.params)", f"{sig}.params")]
        st = [unold(e.value) for e in p.effects if isinstance(e, ast.Assign) and u(e.targets[0]) == "self.instantiation"]
        ss = [unold(e.value) for e in p.effects if isinstance(e, ast.Assign) and u(e.targets[0]) == "self.signature"]
        if not mono or len(st) != 1 or ss != [sig]:
            ok, why = False, f"path {p.describe()[:160]} stores instantiation {st}, signature {ss}"
            continue
        seen.add(mono[0])
        want = f"{sig}.body" if mono[0] else inst
        if st[0] != want:
            ok, why = False, f"{'without' if mono[0] else 'with'} type parameters the instantiation is `{st[0]}`, expected `{want}`"
    ctx.check(ok and seen == {True, False}, "C06.R4", "hugr.ops._CallOrLoad.__init__: instantiation", m.path, fn.lineno,
              "a function without type parameters has exactly one instance, its body (an `instantiation` argument is ignored); a polymorphic one is "
              "used at the given instantiation; `signature` is the scheme itself" + (f" [{why}]" if why else ""), fn)


def run(ctx) -> None:
    ctx.rule("C06.R1", "signature table: normal form of each signature method equals the specification row", floor=30)
    ctx.rule("C06.R2", "num_out equals the specified count and the length of the signature's output row", floor=30)
    ctx.rule("C06.R3", "port-kind arms per class; DataflowOp/_sig_port_type/Hugr.port_type plumbing", floor=12)
    ctx.rule("C06.R4", "Call: output count, function-port offset and port kinds all read the instantiated signature", floor=3)
    nf = NF(ctx.program)
    r1_signatures(ctx, nf)
    unpack_unary_rule(ctx)
    r2_num_out(ctx, nf)
    r3_port_kinds(ctx, nf)
    r4_call(ctx, nf)
    r4_instantiation(ctx)
    ctx.rule("C06.R5", "a reloaded op carries the fields its signature is computed from: S.deserialize ∘ X._to_serial is the identity on every init-field of every op class (shared with C02.R1)", floor=30)
    from .c02 import r1_forward_codec
    r1_forward_codec(ctx, nf, rule="C06.R5", modules=("hugr.ops",))
    ctx.rule("C06.R6", "builders give container nodes the rows and output counts of their signature (break row of a tail loop, case outputs, exit row) (shared with C01.R3)", floor=30)
    from .c01 import r3_rows
    with ctx.as_rule(C01_R3="C06.R6"):
        r3_rows(ctx)
    ctx.rule("C06.R7", "the serialized position of the state-order port follows each operation's own signature (Call alone uses its instantiation; "
             "static-input owners exactly Call / LoadConst / LoadFunc) -- shared with C03.R5", floor=4)
    from .c03 import r5_order_offset
    r5_order_offset(ctx, rule="C06.R7")
    from .. import lints
    lints.arm(ctx)



# ---------------------------------------------------------------------------------------
O = "hugr-py/src/hugr/ops.py"
T = "hugr-py/src/hugr/tys.py"
B = "hugr-py/src/hugr/hugr/base.py"
MUTANTS = [
    dict(name="tailloop-sum-swapped", file=O, expect="C06.R1", old="tys.Sum([self.just_inputs, self.just_outputs]), *self.rest]", new="tys.Sum([self.just_outputs, self.just_inputs]), *self.rest]"),
    dict(name="tailloop-outer-no-rest", file=O, expect=["C06.R1", "C06.R2"], old="        return tys.FunctionType(self._inputs(), self.just_outputs + self.rest)", new="        return tys.FunctionType(self._inputs(), self.just_outputs)"),
    dict(name="conditional-no-sum-input", file=O, expect="C06.R1", old="        inputs = [self.sum_ty, *self.other_inputs]", new="        inputs = [*self.other_inputs]"),
    dict(name="conditional-sum-last", file=O, expect="C06.R1", old="        inputs = [self.sum_ty, *self.other_inputs]", new="        inputs = [*self.other_inputs, self.sum_ty]"),
    dict(name="nth-inputs-no-others", file=O, expect="C06.R1", old="        return [*self.sum_ty.variant_rows[n], *self.other_inputs]", new="        return [*self.sum_ty.variant_rows[n]]"),
    dict(name="nth-outputs-no-others", file=O, expect="C06.R1", old="        return [*self.sum_ty.variant_rows[n], *self.other_outputs]", new="        return [*self.sum_ty.variant_rows[n]]"),
    dict(name="nth-outputs-off-by-one", file=O, expect="C06.R1", old="        return [*self.sum_ty.variant_rows[n], *self.other_outputs]", new="        return [*self.sum_ty.variant_rows[n - 1], *self.other_outputs]"),
    dict(name="tag-output-empty", file=O, expect=["C06.R1", "C06.R2"], old="            input=self.sum_ty.variant_rows[self.tag], output=[self.sum_ty]", new="            input=self.sum_ty.variant_rows[self.tag], output=[]"),
    dict(name="tag-input-row0", file=O, expect="C06.R1", old="            input=self.sum_ty.variant_rows[self.tag], output=[self.sum_ty]", new="            input=self.sum_ty.variant_rows[0], output=[self.sum_ty]"),
    dict(name="callindirect-no-fn-input", file=O, expect="C06.R1", old="        return tys.FunctionType(input=[sig, *sig.input], output=sig.output)", new="        return tys.FunctionType(input=[*sig.input], output=sig.output)"),
    dict(name="loadconst-in-kind-other", file=O, expect="C06.R3", old="                return tys.ConstKind(self.type_)", new="                return tys.ValueKind(self.type_)"),
    dict(name="loadfunc-out-polymorphic", file=O, expect=["C06.R3", "C06.R1"], old="                return tys.ValueKind(self.instantiation)", new="                return tys.ValueKind(self.signature.body)"),
    dict(name="const-kind-value", file=O, expect="C06.R3", old="                return tys.ConstKind(self.val.type_())", new="                return tys.ValueKind(self.val.type_())"),
    dict(name="funcdefn-port1", file=O, expect="C06.R3", old="            case OutPort(_, 0):\n                return tys.FunctionKind(self.signature)\n            case _:\n                raise self._invalid_port(port)\n\n    def name(self) -> str:\n        return f\"FuncDefn",
         new="            case OutPort(_, 1):\n                return tys.FunctionKind(self.signature)\n            case _:\n                raise self._invalid_port(port)\n\n    def name(self) -> str:\n        return f\"FuncDefn"),
    dict(name="order-kind-dropped", file=O, expect="C06.R3", old="        if port.offset == -1:\n            return tys.OrderKind()\n", new=""),
    dict(name="sig-port-type-crossed", file=O, expect="C06.R3", old="        return sig.input[port.offset]\n    return sig.output[port.offset]", new="        return sig.output[port.offset]\n    return sig.input[port.offset]"),
    dict(name="call-numout-body", file=O, expect=["C06.R2", "C06.R4"], old="        return len(self.instantiation.output)", new="        return len(self.signature.body.output)"),
    dict(name="call-fnport-zero", file=O, expect="C06.R4", old="        return len(self.instantiation.input)", new="        return 0"),
    dict(name="call-values-from-body", file=O, expect="C06.R4", old="                return tys.ValueKind(_sig_port_type(self.instantiation, port))", new="                return tys.ValueKind(_sig_port_type(self.signature.body, port))"),
    dict(name="dfg-outer-drops-delta", file=O, expect="C06.R1", old="        return tys.FunctionType(self.inputs, self.outputs, self._extension_delta)", new="        return tys.FunctionType(self.inputs, self.outputs)"),
    dict(name="maketuple-output-row", file=O, expect="C06.R1", old="            output=[tys.Tuple(*self.types)],\n            runtime_reqs=[\"prelude\"],\n        )\n\n    def type_args(self) -> list[tys.TypeArg]:\n        return [tys.SequenceArg([t.type_arg() for t in self.types])]\n\n    def __call__(self, *elements",
         new="            output=self.types,\n            runtime_reqs=[\"prelude\"],\n        )\n\n    def type_args(self) -> list[tys.TypeArg]:\n        return [tys.SequenceArg([t.type_arg() for t in self.types])]\n\n    def __call__(self, *elements"),
    dict(name="flip-not-swapping", file=T, expect="C06.R1", old="        return FunctionType(input=list(self.output), output=list(self.input))", new="        return FunctionType(input=list(self.input), output=list(self.output))"),
    dict(name="block-numout-one", file=O, expect="C06.R2", old="        return len(self.sum_ty.variant_rows)", new="        return 1"),
    dict(name="unpack-numout-one", file=O, expect="C06.R2", old="    @property\n    def num_out(self) -> int:\n        return len(self.types)\n\n    def __call__(self, tuple_", new="    @property\n    def num_out(self) -> int:\n        return 1\n\n    def __call__(self, tuple_"),
    dict(name="port-type-call-none", file=B, expect="C06.R3", old="            if isinstance(kind, ValueKind):\n                return kind.ty", new="            if isinstance(kind, ValueKind):\n                return None"),
    dict(name="extop-ignores-cached-sig", file=O, expect="C06.R1", old="        if self.signature is not None:\n            return self.signature\n        poly_func = self._op_def.signature.poly_func\n        if poly_func is None:\n            msg = \"Polymorphic",
         new="        poly_func = self._op_def.signature.poly_func\n        if poly_func is None:\n            msg = \"Polymorphic"),
]
TWINS = [
    dict(name="twin-plus-to-splat", file=O, old="        return self.just_inputs + self.rest", new="        return [*self.just_inputs, *self.rest]"),
    dict(name="twin-sig-local", file=O, old="        return tys.FunctionType(input=[], output=[self.type_])", new="        row = [self.type_]\n        return tys.FunctionType([], row)"),
    dict(name="twin-raw-field", file=O, old="    @property\n    def num_out(self) -> int:\n        return len(self.outputs)\n\n    def _to_serial(self, parent: Node) -> sops.CFG:",
         new="    @property\n    def num_out(self) -> int:\n        return len(self.signature.output)\n\n    def _to_serial(self, parent: Node) -> sops.CFG:"),
    dict(name="twin-endo-spelled-out", file=O, old="        return tys.FunctionType.endo(\n            [self.type_],\n            runtime_reqs=[\"prelude\"],\n        )\n\n    def _set_in_types",
         new="        return tys.FunctionType([self.type_], [self.type_], [\"prelude\"])\n\n    def _set_in_types"),
]


def thorough(ctx):
    from ..selftest import run_battery
    return run_battery(ctx, MUTANTS, TWINS)
