"""C02 -- JSON round trip of a HUGR is lossless and a fixed point.

Decided: R1 forward CODEC on every op / type / param / arg / value class; R2 single-use iterators;
R3 one index space in Hugr._to_serial; R4 no silent drop on load; R5 order-port symmetry;
R6 entry-point pairing; R7 the load loop restores op, parent and metadata of each node.
"""
from __future__ import annotations

import ast
import copy

from .. import codec
from ..cfg import CFG, EXIT
from ..model import calls_in, call_name, kwarg, real_body, u, walk_no_nested
from ..nf import NF, Opaque, contains, show, sym

BASE = "hugr.hugr.base"

ONE_SHOT = {"iter", "map", "filter", "zip", "enumerate", "reversed"}


# ---------------------------------------------------------------------------------------
def general_form(nf, x):
    """the general class a sugar / resolved class is allowed to decode to"""
    q = x.qualname
    if q == "hugr.tys.ExtType":
        return nf.prog.cls("hugr.tys.Opaque")
    return None


def r1_forward_codec(ctx, nf, rule="C02.R1", modules=("hugr.ops", "hugr.tys", "hugr.val")) -> int:
    n = 0
    for mn in modules:
        for x in codec.encoders(ctx.program, mn):
            inst = f"{x.qualname}"
            k, m = x.find_method("_to_serial")
            n += 1
            # extension-op wrappers encode through ExtOp.to_custom_op (decided under C11.R3 / C05.R1b)
            if x.is_subclass_of("AsExtOp"):
                t, env = _try_nf(nf, x, "_to_serial")
                pname = m.args.args[1].arg
                wants = []
                for src in (f"self.to_custom_op()._to_serial({pname})", f"self.ext_op.to_custom_op()._to_serial({pname})", f"self.ext_op._to_serial({pname})"):
                    try:
                        wants.append(nf.expr_nf(src, x, extra={pname: sym(pname)})[0])
                    except Opaque:
                        pass
                ok = t is not None and t in wants
                via = "self.ext_op" if "ext_op" in u(m) else "self.to_custom_op()"
                ctx.check(bool(ok), rule, inst, k.module.path, m.lineno,
                          f"{x.name}._to_serial must encode through its ExtOp / Custom form", m,
                          detail=f"delegates to {via}._to_serial(parent)")
                continue
            if x.qualname == "hugr.tys.ExtType":
                _exttype(ctx, nf, x, rule)
                continue
            if x.qualname == "hugr.tys._QubitDef":
                _singleton(ctx, nf, x, rule, "hugr.tys.Qubit")
                continue
            if x.qualname == "hugr.val.Function":
                _function_value(ctx, nf, x, rule)
                continue
            probs, desc = codec.forward(nf, x, general_of=lambda c: general_form(nf, c))
            if not probs:
                ctx.ok(rule, inst, desc)
            for p in probs:
                if p.kind == "opaque":
                    ctx.broken(f"{inst}: {p.msg}")
                ctx.fail(rule, inst + (f".{p.field}" if p.field else ""), k.module.path, m.lineno, p.msg, p.node or m,
                         expected=p.expected, found=p.found)
    return n


def _try_nf(nf, x, name):
    try:
        return nf.method_nf(x, name)
    except Opaque:
        return None, None


def _exttype(ctx, nf, x, rule):
    """ExtType encodes as its opaque form: dec(enc(self)) must equal self._to_opaque() field by field"""
    k, m = x.find_method("_to_serial")
    try:
        ser, env = nf.method_nf(x, "_to_serial")
        back = nf.mk_dec(ser, env)
        opq, _ = nf.method_nf(x, "_to_opaque")
    except Opaque as e:
        ctx.broken(f"hugr.tys.ExtType codec not normalisable: {e}")
    ctx.check(back == opq and back[0] == "ctor" and back[1] == "hugr.tys.Opaque", rule, x.qualname, k.module.path, m.lineno,
              "an extension type must come back as exactly its opaque form (extension, id, args, bound)", m,
              expected=show(opq)[:300], found=show(back)[:300], detail=show(back)[:200])


def _singleton(ctx, nf, x, rule, global_name):
    k, m = x.find_method("_to_serial")
    ser, env = nf.method_nf(x, "_to_serial")
    back = nf.mk_dec(ser, env)
    mod = ctx.program.module("hugr.tys")
    val = mod.assigns.get(global_name.rsplit(".", 1)[1])
    ok = back == ("global", global_name) and isinstance(val, ast.Call) and u(val.func) == x.name
    ctx.check(ok, rule, x.qualname, k.module.path, m.lineno,
              f"{x.name} must decode to the module singleton {global_name} (an instance of {x.name})", m,
              expected=global_name, found=show(back), detail=f"decodes to {global_name} = {x.name}()")


def _function_value(ctx, nf, x, rule):
    """val.Function delegates to the HUGR codec: enc = body._to_serial(), dec = Hugr._from_serial(SerialHugr(**hugr))"""
    k, m = x.find_method("_to_serial")
    ser, env = nf.method_nf(x, "_to_serial")
    back = nf.mk_dec(ser, env)
    s = show(back)
    ok = back[0] == "ctor" and back[1] == "hugr.val.Function" and "_from_serial" in s and "._to_serial(self.body)" in s.replace("body._to_serial()", "._to_serial(self.body)")
    body = dict(back[2]).get("body") if back[0] == "ctor" else None
    enc_body = [("call", "._to_serial", (("attr", sym("self"), "body"),), ()), ("enc", ("attr", sym("self"), "body"))]
    ok = body is not None and body[0] == "call" and body[1].endswith("_from_serial") and any(contains(body, e) for e in enc_body)
    # the nested document is handed to the model whole (nodes, edges, metadata, ...): SerialHugr(**hugr)
    from ..nf import find_calls
    sh = find_calls(body, "SerialHugr") if body is not None else []
    ok = ok and len(sh) == 1 and not sh[0][2] and [k for k, _ in sh[0][3]] == ["**"]
    ctx.check(bool(ok), rule, x.qualname, k.module.path, m.lineno,
              "a function value must round-trip its body through the HUGR codec (body._to_serial() / Hugr._from_serial)", m,
              found=s[:300], detail="body -> Hugr codec (decided by the Hugr-level rules R2-R7)")


# ---------------------------------------------------------------------------------------
def r2_single_use_iterators(ctx, files=("hugr.hugr.base", "hugr._serialization.serial_hugr", "hugr._serialization.ops",
                                        "hugr._serialization.tys", "hugr.ops", "hugr.tys", "hugr.val"), rule="C02.R2") -> None:
    """a one-shot iterator bound to a local name may be consumed only once"""
    nfun = 0
    for mn in files:
        m = ctx.program.module(mn)
        for fn in [n for n in ast.walk(m.tree) if isinstance(n, (ast.FunctionDef, ast.AsyncFunctionDef))]:
            nfun += 1
            gens: dict[str, ast.AST] = {}
            for s in ast.walk(fn):
                if isinstance(s, ast.Assign) and len(s.targets) == 1 and isinstance(s.targets[0], ast.Name):
                    v = s.value
                    if isinstance(v, ast.GeneratorExp) or (isinstance(v, ast.Call) and isinstance(v.func, ast.Name) and v.func.id in ONE_SHOT):
                        gens[s.targets[0].id] = s
            for g, s in gens.items():
                uses = [n for n in ast.walk(fn) if isinstance(n, ast.Name) and n.id == g and isinstance(n.ctx, ast.Load)]
                # a use inside a loop / comprehension element counts as repeated
                qn = f"{mn}.{_owner(m, fn)}{fn.name}:{g}"
                if len(uses) > 1:
                    ctx.fail(rule, qn, m.path, s.lineno,
                             f"one-shot iterator `{g}` is consumed at {len(uses)} sites (lines {[x.lineno for x in uses]}): "
                             "every consumer after the first sees it exhausted", s)
                else:
                    ctx.ok(rule, qn, "single consumer")
    ctx.stats[f"{rule} functions scanned"] = nfun
    if not any(i["rule"] == rule for i in ctx.instances):
        ctx.ok(rule, "no one-shot iterator is bound to a local name in the codec modules", f"{nfun} functions scanned")


def _owner(m, fn):
    for c in m.classes.values():
        if fn in c.node.body or any(fn in ast.walk(x) for x in c.node.body if isinstance(x, ast.FunctionDef)):
            return c.name + "."
    return ""


# ---------------------------------------------------------------------------------------
# R3: one index space
POS, POSNODE, POSMAP, IDXMAP, RAW, OTHER = "pos", "posnode", "posmap", "idxmap", "raw", "other"


class IndexSpace:
    """classifies expressions of Hugr._to_serial (and the helpers it calls) by where a node index comes from"""

    def __init__(self, ctx, hugr_cls, nodedata_cls):
        self.ctx = ctx
        self.hugr = hugr_cls
        self.nd = nodedata_cls
        self.sinks: list[tuple[str, str, ast.AST, str]] = []   # (kind, class, node, where)
        self.renumbered_from: list[str] = []

    def cls_of(self, e, env) -> str:
        if isinstance(e, ast.Constant):
            return OTHER
        if isinstance(e, ast.Name):
            return env.get(e.id, OTHER)
        if isinstance(e, ast.IfExp):
            a, b = self.cls_of(e.body, env), self.cls_of(e.orelse, env)
            if RAW in (a, b):
                return RAW
            return a if a == b else (a if b == OTHER else b if a == OTHER else RAW)
        if isinstance(e, ast.Call):
            fn = u(e.func)
            if fn.split(".")[-1] == "Node" and e.args:
                a = self.cls_of(e.args[0], env)
                return POSNODE if a == POS else (RAW if a == RAW else OTHER)
            if isinstance(e.func, ast.Attribute) and e.func.attr == "get" and self.cls_of(e.func.value, env) in (POSMAP, IDXMAP) and len(e.args) == 1:
                return POSNODE if self.cls_of(e.func.value, env) == POSMAP else POS
            return OTHER
        if isinstance(e, ast.Subscript):
            b = self.cls_of(e.value, env)
            if b == POSMAP:
                return POSNODE
            if b == IDXMAP:
                return POS
            return OTHER
        if isinstance(e, ast.Attribute):
            if e.attr == "idx":
                b = self.cls_of(e.value, env)
                return POS if b == POSNODE else RAW
            if e.attr == "parent":
                return RAW
            if e.attr == "node":
                return RAW if self.cls_of(e.value, env) != POSNODE else POSNODE
            return OTHER
        if isinstance(e, ast.DictComp):
            env2 = dict(env)
            self.bind_comp(e.generators, env2)
            v = self.cls_of(e.value, env2)
            return POSMAP if v == POSNODE else (IDXMAP if v == POS else OTHER)
        if isinstance(e, ast.Tuple):
            cs = [self.cls_of(x, env) for x in e.elts]
            return RAW if RAW in cs else (POS if POS in cs else OTHER)
        return OTHER

    def bind_comp(self, gens, env):
        for g in gens:
            it = g.iter
            if isinstance(it, ast.Call) and u(it.func) == "enumerate" and isinstance(g.target, ast.Tuple) and len(g.target.elts) == 2:
                if isinstance(g.target.elts[0], ast.Name):
                    env[g.target.elts[0].id] = POS
                    self.renumbered_from.append(u(it.args[0]) if it.args else "?")
                if isinstance(g.target.elts[1], ast.Name):
                    env[g.target.elts[1].id] = OTHER
            elif isinstance(g.target, ast.Name):
                env[g.target.id] = OTHER


def as_comprehension(fn, arg):
    """`arg` as a comprehension: itself, or -- when it names a list that one loop of fn fills unconditionally with exactly one
    `.append(E)` per iteration (possibly next to other accumulators) -- [E for <target> in <iter>]"""
    if not isinstance(arg, ast.Name):
        return arg
    inits = [s_ for s_ in fn.body if isinstance(s_, ast.Assign) and len(s_.targets) == 1 and u(s_.targets[0]) == arg.id]
    if len(inits) != 1 or not (isinstance(inits[0].value, ast.List) and not inits[0].value.elts):
        return arg
    loops = [s_ for s_ in fn.body if isinstance(s_, ast.For) and not s_.orelse and
             any(isinstance(c, ast.Call) and isinstance(c.func, ast.Attribute) and u(c.func.value) == arg.id for c in ast.walk(s_))]
    if len(loops) != 1:
        return arg
    lp = loops[0]
    apps = [x for x in lp.body if isinstance(x, ast.Expr) and isinstance(x.value, ast.Call) and isinstance(x.value.func, ast.Attribute)
            and u(x.value.func.value) == arg.id and x.value.func.attr == "append" and len(x.value.args) == 1]
    uses = sum(1 for n in ast.walk(lp) if isinstance(n, ast.Name) and n.id == arg.id)
    if len(apps) != 1 or uses != 1 or any(isinstance(n, (ast.Continue, ast.Break, ast.Return)) for n in ast.walk(lp)):
        return arg
    # temporaries of the loop body are written into the element: x = E, and `if c: x = A else: x = B` as a conditional expression
    from ..norm import _Subst, is_pure
    import copy as _copy
    mapping: dict = {}
    for x in lp.body[: lp.body.index(apps[0])]:
        if isinstance(x, ast.Assign) and len(x.targets) == 1 and isinstance(x.targets[0], ast.Name) and is_pure(x.value):
            mapping[x.targets[0].id] = _Subst(dict(mapping)).visit(_copy.deepcopy(x.value))
        elif isinstance(x, ast.If) and len(x.body) == 1 and len(x.orelse) == 1 and all(
                isinstance(b_, ast.Assign) and len(b_.targets) == 1 and isinstance(b_.targets[0], ast.Name) and is_pure(b_.value) for b_ in (x.body[0], x.orelse[0])) \
                and x.body[0].targets[0].id == x.orelse[0].targets[0].id and is_pure(x.test):
            sub = _Subst(dict(mapping))
            mapping[x.body[0].targets[0].id] = ast.IfExp(test=sub.visit(_copy.deepcopy(x.test)), body=sub.visit(_copy.deepcopy(x.body[0].value)),
                                                         orelse=sub.visit(_copy.deepcopy(x.orelse[0].value)))
    elt = _Subst(dict(mapping)).visit(_copy.deepcopy(apps[0].value.args[0]))
    from ..canon import _ExprNorm
    elt = _ExprNorm().visit(elt)            # m[x if c else y] -> m[x] if c else m[y], ..
    comp = ast.ListComp(elt=elt, generators=[ast.comprehension(target=lp.target, iter=lp.iter, ifs=[], is_async=0)])
    ast.copy_location(comp, lp)
    ast.fix_missing_locations(comp)
    return comp


def r3_one_index_space(ctx, rule="C02.R3", rule5="C02.R5", with_metadata: bool = True) -> None:
    prog = ctx.program
    hugr = prog.cls(f"{BASE}.Hugr")
    nd = prog.cls(f"{BASE}.NodeData")
    file = hugr.module.path
    fn_o, _, _ = ctx.locate(f"{BASE}.Hugr._to_serial")
    # canonical body with the local closures seen through (hv/canon.py): loops are comprehensions, temporaries are substituted
    closures = {n.name for n in ast.walk(fn_o) if isinstance(n, ast.FunctionDef) and n is not fn_o}
    fn = ctx.cfn(f"{BASE}.Hugr._to_serial", inline=closures)
    sh_calls = [c for c in calls_in(fn) if u(c.func).split(".")[-1] == "SerialHugr"]
    if len(sh_calls) != 1:
        ctx.broken("Hugr._to_serial: expected exactly one SerialHugr(...) construction")
    sh = sh_calls[0]
    nodes_arg, edges_arg, meta_arg = kwarg(sh, "nodes"), kwarg(sh, "edges"), kwarg(sh, "metadata")
    if nodes_arg is None or edges_arg is None:
        ctx.broken("Hugr._to_serial: SerialHugr(nodes=..., edges=...) keywords not found")
    nodes_arg, edges_arg = as_comprehension(fn, nodes_arg), as_comprehension(fn, edges_arg)
    meta_arg = as_comprehension(fn, meta_arg) if meta_arg is not None else None
    isp = IndexSpace(ctx, hugr, nd)
    env: dict[str, str] = {}
    nested = {n.name: n for n in real_body(fn) if isinstance(n, ast.FunctionDef)}
    # straight-line prefix: classify local bindings
    for s in real_body(fn):
        if isinstance(s, ast.Assign) and len(s.targets) == 1 and isinstance(s.targets[0], ast.Name):
            env[s.targets[0].id] = isp.cls_of(s.value, env)
    # does serialization renumber at all?  (anything but the unfiltered slot list)
    def elem_source(arg):
        if isinstance(arg, (ast.ListComp, ast.GeneratorExp)) and arg.generators:
            it = arg.generators[0].iter
            if isinstance(it, ast.Call) and u(it.func) == "enumerate" and it.args:
                it = it.args[0]
            return u(it), bool(arg.generators[0].ifs)
        return u(arg), False
    nsrc, _ = elem_source(nodes_arg)
    ctx.stats["C02.R3 nodes emitted from"] = nsrc

    # --- sink 1: the parent handed to each op encoder
    def check_parent_sink(call_expr: ast.Call, env_at: dict, where: str, depth=0):
        """call_expr is X._to_serial(arg) or helper(arg); follow into NodeData._to_serial / nested helper"""
        name = call_name(call_expr)
        if isinstance(call_expr.func, ast.Attribute) and call_expr.func.attr == "_to_serial" and call_expr.args:
            a = call_expr.args[0]
            recv = call_expr.func.value
            # op._to_serial(parent): final sink
            if u(recv).endswith(".op") or u(recv) == "op":
                c = isp.cls_of(a, env_at)
                ok = c == POSNODE
                ctx.check(ok, rule, f"{where}: parent index", file, call_expr.lineno,
                          f"the parent written for a node (`{u(a)}`) is a stored node index, not its position in the emitted "
                          "node list: after a deletion the document names a parent that is not (or is another) node", call_expr,
                          expected="position of the parent in the renumbered node list", found=u(a), detail=f"parent = {u(a)} [{c}]")
                return
            # NodeData._to_serial(self, p): bind p
            k, m = nd.find_method("_to_serial")
            if m is not None and depth < 3:
                p = m.args.args[1].arg
                env2 = {p: isp.cls_of(a, env_at)}
                for s in real_body(m):
                    if isinstance(s, ast.Assign) and isinstance(s.targets[0], ast.Name):
                        env2[s.targets[0].id] = isp.cls_of(s.value, env2)
                for c2 in calls_in(m, "_to_serial"):
                    check_parent_sink(c2, env2, "NodeData._to_serial", depth + 1)
                return
        if isinstance(call_expr.func, ast.Name) and call_expr.func.id in nested and depth < 3:
            h = nested[call_expr.func.id]
            env2 = dict(env_at)
            for prm, a in zip([x.arg for x in h.args.args], call_expr.args):
                env2[prm] = isp.cls_of(a, env_at)
            for s in real_body(h):
                if isinstance(s, ast.Assign) and len(s.targets) == 1 and isinstance(s.targets[0], ast.Name):
                    env2[s.targets[0].id] = isp.cls_of(s.value, env2)
            for c2 in calls_in(h, "_to_serial"):
                check_parent_sink(c2, env2, f"Hugr._to_serial.{h.name}", depth + 1)

    if isinstance(nodes_arg, (ast.ListComp, ast.GeneratorExp)):
        env_n = dict(env)
        isp.bind_comp(nodes_arg.generators, env_n)
        elt = nodes_arg.elt
        if isinstance(elt, ast.Call):
            check_parent_sink(elt, env_n, "Hugr._to_serial")
        else:
            ctx.broken("Hugr._to_serial: element of nodes= is not a call")
    else:
        ctx.broken("Hugr._to_serial: nodes= is not a comprehension")

    # --- sink 2: edge endpoints
    pairs_src = None
    if isinstance(edges_arg, (ast.ListComp, ast.GeneratorExp)):
        env_e = dict(env)
        isp.bind_comp(edges_arg.generators, env_e)
        for g_ in edges_arg.generators:
            for n_ in ast.walk(g_.target):
                if isinstance(n_, ast.Name):
                    env_e.setdefault(n_.id, OTHER)
        elt = edges_arg.elt
        if isinstance(elt, ast.Tuple) and len(elt.elts) == 2 and all(isinstance(p_, ast.Tuple) and len(p_.elts) == 2 for p_ in elt.elts):
            pairs_src = (elt.elts, env_e, elt)
    if pairs_src is None:
        ctx.broken("Hugr._to_serial: edges= is not a comprehension of ((node, offset), (node, offset)) pairs")
    pairs, env2, r = pairs_src
    for side, p_ in zip(("source", "target"), pairs):
        c = isp.cls_of(p_.elts[0], env2)
        ctx.check(c == POS, rule, f"Hugr._to_serial: {side} node index", file, r.lineno,
                  f"the {side} endpoint of an edge is written as `{u(p_.elts[0])}`, a stored node index instead of the node's "
                  "position in the emitted node list: after a deletion edges name nodes that do not exist", r,
                  expected="position in the renumbered node list", found=u(p_.elts[0]), detail=f"{u(p_.elts[0])} [{c}]")
    # both offsets go through the offset encoder (R5a)
    for side, p_ in zip(("source", "target"), pairs):
        val = p_.elts[1]
        ok = isinstance(val, ast.Call) and call_name(val) == "_constrain_offset"
        ctx.check(ok, rule5, f"Hugr._to_serial: {side} offset encoded", file, r.lineno,
                  f"the {side} port offset `{u(val)}` is written without passing through the order-port encoder: "
                  "the internal offset -1 would reach the document", r, detail=u(val))

    # --- metadata list is aligned with the node list
    if not with_metadata:
        return
    if meta_arg is not None:
        msrc, mfilter = elem_source(meta_arg)
        ctx.check(msrc == nsrc and not mfilter, rule, "Hugr._to_serial: metadata aligned with nodes", file, meta_arg.lineno,
                  f"metadata is emitted from `{msrc}` but nodes from `{nsrc}`: entry i must belong to node i", meta_arg,
                  expected=nsrc, found=msrc, detail=f"both from {nsrc}")
    else:
        ctx.fail(rule, "Hugr._to_serial: metadata emitted", file, sh.lineno, "SerialHugr(...) is built without metadata=: node metadata is never written", sh)


# ---------------------------------------------------------------------------------------
def _loops_over(fn, attr_name):
    out = []
    for n in ast.walk(fn):
        if isinstance(n, ast.For):
            it = n.iter
            if isinstance(it, ast.Call) and u(it.func) == "enumerate" and it.args:
                it = it.args[0]
            if isinstance(it, ast.Attribute) and it.attr == attr_name:
                out.append(n)
    return out


def r4_r5_r7_load(ctx, R4="C02.R4", R5="C02.R5", R7="C02.R7") -> None:
    """stated over the canonical body of Hugr._from_serial (closures and private helpers inlined) and the path summaries
    of its two loops"""
    from ..paths import summaries
    prog = ctx.program
    hugr = prog.cls(f"{BASE}.Hugr")
    file = hugr.module.path
    fn_o, _, _ = ctx.locate(f"{BASE}.Hugr._from_serial")
    closures = {n.name for n in ast.walk(fn_o) if isinstance(n, ast.FunctionDef) and n is not fn_o}
    fn = ctx.cfn(f"{BASE}.Hugr._from_serial", inline=closures, subst=False)
    sname = fn.args.args[1].arg
    # locals of the function bound once, at its top level, to something that only reads the document (`meta = serial.metadata`,
    # `n = len(meta) if meta else 0`): the document is not written while loading, so inside the loops they are what they were bound to
    from .. import norm as _norm
    fn = copy.deepcopy(fn)
    stable = {}
    counts = {}
    for n in ast.walk(fn):
        if isinstance(n, ast.Name) and isinstance(n.ctx, (ast.Store, ast.Del)):
            counts[n.id] = counts.get(n.id, 0) + 1
    for st in fn.body:
        if isinstance(st, ast.If) and len(st.body) == 1 and len(st.orelse) == 1 and all(
                isinstance(x, ast.Assign) and len(x.targets) == 1 and isinstance(x.targets[0], ast.Name) for x in (st.body[0], st.orelse[0])) \
                and st.body[0].targets[0].id == st.orelse[0].targets[0].id and counts.get(st.body[0].targets[0].id) == 2 and _norm.is_pure(st.test):
            # v = A if C else B   written as a statement
            st = ast.Assign(targets=[st.body[0].targets[0]], value=ast.IfExp(test=st.test, body=st.body[0].value, orelse=st.orelse[0].value))
            counts[st.targets[0].id] = 1
        if isinstance(st, ast.Assign) and len(st.targets) == 1 and isinstance(st.targets[0], ast.Name) and counts.get(st.targets[0].id) == 1 \
                and _norm.is_pure(st.value) and not any(isinstance(k, ast.Call) and u(k.func) not in ("len",) for k in ast.walk(st.value)):
            v = _norm._Subst(dict(stable)).visit(copy.deepcopy(st.value))
            if all(k.id == sname or k.id in ("len",) for k in ast.walk(v) if isinstance(k, ast.Name)):
                stable[st.targets[0].id] = v
    if stable:
        for st in fn.body:
            if isinstance(st, (ast.For, ast.While)):
                st.body = [ast.fix_missing_locations(_norm._Subst(dict(stable)).visit(x)) for x in st.body]
                if isinstance(st, ast.For):
                    st.iter = _norm._Subst(dict(stable)).visit(st.iter)
    bodies = {}
    for attr_name, effect in (("nodes", ("_add_node", "add_node")), ("edges", ("add_link",))):
        loops = _loops_over(fn, attr_name)
        # a loop that walks the list in step with another sequence stops at the shorter one
        zipped = []
        for n in ast.walk(fn):
            if isinstance(n, ast.For):
                it = n.iter.args[0] if isinstance(n.iter, ast.Call) and u(n.iter.func) == "enumerate" and n.iter.args else n.iter
                if isinstance(it, ast.Call) and u(it.func) == "zip" and any(u(a) == f"{sname}.{attr_name}" for a in it.args) \
                        and not any(k.arg == "strict" for k in it.keywords):
                    others = [a for a in it.args if u(a) != f"{sname}.{attr_name}"]
                    if not all(u(a) in (f"range(len({sname}.{attr_name}))", "itertools.count()", "count()") for a in others):
                        zipped.append((n, others))
        if zipped and not loops:
            ctx.fail(R4, f"Hugr._from_serial: every element of {attr_name} is loaded", file, zipped[0][0].lineno,
                     f"the loop walks {sname}.{attr_name} zipped with `{u(zipped[0][1][0])[:80]}`: it stops at the shorter of the two, so the elements of the "
                     "document beyond it are silently dropped on load", zipped[0][0], found=u(zipped[0][0].iter)[:200])
            return
        if len(loops) != 1:
            ctx.broken(f"Hugr._from_serial: expected one loop over {sname}.{attr_name}, found {len(loops)}")
        loop = loops[0]
        ps = [p for p in summaries(loop.body) if p.kind != "raise"]
        bodies[attr_name] = (loop, ps)
        def effs(p):
            return [e for e in p.effects if isinstance(e, ast.Expr) and isinstance(e.value, ast.Call) and call_name(e.value) in effect]
        missing = [p for p in ps if not effs(p)]
        ctx.check(bool(ps) and not missing, R4, f"Hugr._from_serial: every element of {attr_name} is loaded", file,
                  getattr(missing[0].node, "lineno", loop.lineno) if missing else loop.lineno,
                  f"some path through the loop over {sname}.{attr_name} never reaches {'/'.join(effect)}: those elements of the "
                  "document are silently dropped on load" + (f" ({missing[0].describe()})" if missing else ""),
                  (missing[0].node or loop) if missing else loop, detail=f"{effect[0]} on every path")
        it = loop.iter.args[0] if isinstance(loop.iter, ast.Call) and u(loop.iter.func) == "enumerate" and loop.iter.args else loop.iter
        if not (isinstance(it, ast.Attribute) and u(it) == f"{sname}.{attr_name}"):
            ctx.fail(R4, f"Hugr._from_serial: {attr_name} filtered", file, loop.lineno, "the loop must range over the whole list of the document", loop)
    # R7: node loop restores op, parent, metadata
    nloop, nps = bodies["nodes"]
    tg = nloop.target
    idxv, elv = (tg.elts[0].id, tg.elts[1].id) if isinstance(tg, ast.Tuple) and all(isinstance(e, ast.Name) for e in tg.elts) else (None, u(tg))
    ok_op = ok_par = ok_meta = bool(nps)
    seen_root = seen_child = seen_meta = False
    f_op = f_par = f_meta = ""
    line = nloop.lineno
    for p in nps:
        # (a value bound to a local recurs textually where the local is read: count the evaluations, not the mentions)
        add_idx = [i for i, e in enumerate(p.effects) if isinstance(e, ast.Expr) and isinstance(e.value, ast.Call) and call_name(e.value) in ("_add_node", "add_node")]
        adds = [p.effects[i].value for i in add_idx]
        if len(adds) != 1:
            ok_op = ok_par = ok_meta = False
            f_op = f"{len(adds)} add_node calls on a path"
            continue
        add = adds[0]
        line = getattr(add, "lineno", line)
        op_arg, par_arg, meta_arg = kwarg(add, "op", 0), kwarg(add, "parent", 1), kwarg(add, "metadata", 3)
        f_op = u(op_arg)
        ok_op = ok_op and op_arg is not None and u(op_arg) == f"{elv}.root.deserialize()"
        is_root = [k for t, k in p.tests if idxv and sorted(x.strip() for x in u(t).split("==")) == sorted([f"{elv}.root.parent", idxv])]
        f_par = u(par_arg)
        if is_root and is_root[0]:
            seen_root = True
            ok_par = ok_par and par_arg is not None and u(par_arg) == "None"
        else:
            seen_child = True
            # the parent index is read before the document's own parent field is overwritten
            overwritten = any(isinstance(e, ast.Assign) and u(e.targets[0]) == f"{elv}.root.parent" for e in p.effects[:add_idx[0]])
            want_par = f"old_(Node({elv}.root.parent))" if overwritten else f"Node({elv}.root.parent)"
            ok_par = ok_par and bool(is_root) and par_arg is not None and u(par_arg) == want_par
        # metadata: the entry at this node's own position (or empty)
        f_meta = u(meta_arg)
        # (the document is only read while loading: the table read before the loop is the table read inside it)
        from ..rulekit import unold_ast
        meta_arg = unold_ast(meta_arg) if meta_arg is not None else None
        subs = [n for n in ast.walk(meta_arg) if isinstance(n, ast.Subscript) and u(n.value) == f"{sname}.metadata"] if meta_arg is not None else []
        if subs:
            seen_meta = True
        ok_meta = ok_meta and meta_arg is not None and all(u(x.slice) == idxv for x in subs) and (bool(subs) or u(meta_arg) in ("{}", "None", "dict()"))
        # a node answered with empty metadata although the document has a table: only because its position lies beyond the table
        # (linear reading of the path's tests: idx >= len(metadata) must follow)
        if not subs and idxv and meta_arg is not None:
            from .. import lin as _lin
            from ..rulekit import unold_ast as _uo

            def atom(e):
                t_ = u(e)
                if t_ == idxv:
                    return _lin.Lin.sym("I")
                if t_ in (f"len({sname}.metadata)", f"len({sname}.metadata or ())", f"len({sname}.metadata or [])", f"len({sname}.metadata) if {sname}.metadata else 0"):
                    return _lin.Lin.sym("L")
                return None
            tests_ = [(ast.parse(_uo(t), mode="eval").body if isinstance(_uo(t), str) else _uo(t), k) for t, k in p.tests]
            no_table = any((u(t) == f"{sname}.metadata" and not k) or (u(t) == f"not {sname}.metadata" and k) or (u(t) == f"{sname}.metadata is None" and k)
                           or (u(t) == f"{sname}.metadata is not None" and not k) for t, k in tests_)
            cons = [_lin.Lin.sym("I")]
            for t, k in tests_:
                c_ = _lin.constraint(t, k, atom)
                if c_:
                    cons += c_
            mentions = any(f"{sname}.metadata" in u(t) for t, _ in tests_)
            if mentions and not no_table and not _lin.infeasible(cons) and not _lin.implies(cons, _lin.Lin.sym("I") - _lin.Lin.sym("L"), nonneg=("L",)):
                ok_meta = False
                f_meta = "{} on the path " + p.describe()[:160]
    ctx.check(ok_op, R7, "Hugr._from_serial: op", file, line,
              "each node must be created from its own serialized operation (`<node>.root.deserialize()`)", nloop,
              expected=f"{elv}.root.deserialize()", found=f_op)
    ctx.check(ok_par and seen_root and seen_child, R7, "Hugr._from_serial: parent", file, line,
              "each node must be attached to the parent its serialized form names; only the node that is its own parent becomes the root", nloop,
              expected=f"Node({elv}.root.parent), None iff {elv}.root.parent == {idxv}", found=f_par)
    ctx.check(ok_meta and seen_meta, R7, "Hugr._from_serial: metadata", file, line,
              "each node must receive the metadata entry at its own position in the document", nloop,
              expected=f"{sname}.metadata[{idxv}]", found=f_meta)
    ctx.ok(R7, "Hugr._from_serial: contiguous", "assert n.idx == idx") if any(
        isinstance(s_, ast.Assert) and "idx" in u(s_.test) for s_ in ast.walk(nloop)) else None

    # R5b: the decoder applies the inverse of the order-port encoder before add_link
    eloop, eps = bodies["edges"]
    co = hugr.methods.get("_constrain_offset")
    if co is None:
        ctx.broken("anchor vanished: Hugr._constrain_offset")
    enc_helpers = {call_name(c) for c in calls_in(co)} - {None}
    seen_sides = set()
    for p in eps:
        for c in [e.value for e in p.effects if isinstance(e, ast.Expr) and isinstance(e.value, ast.Call) and call_name(e.value) == "add_link"]:
            from ..rulekit import unold_ast
            for side, a in zip(("source", "target"), [unold_ast(x) for x in c.args]):
                if not (isinstance(a, ast.Call) and call_name(a) in ("out", "inp") and a.args):
                    ctx.broken("Hugr._from_serial: add_link arguments are not <node>.out(...)/<node>.inp(...)")
                if side in seen_sides:
                    continue
                seen_sides.add(side)
                off = a.args[0]
                inv = None
                if isinstance(off, ast.Call) and isinstance(off.func, ast.Attribute):
                    k, m = hugr.find_method(off.func.attr)
                    inv = m
                ok = False
                if inv is not None:
                    from .c03 import encoder_table
                    table, dataflow, helpers = encoder_table(ctx)
                    ips = [q for q in ctx.paths(f"{BASE}.Hugr.{inv.name}", inline=helpers) if q.kind == "return"]
                    ok = any(q.value_text() == "-1" for q in ips)
                ctx.check(bool(ok), R5, f"Hugr._from_serial: {side} offset decoded", file, getattr(c, "lineno", eloop.lineno),
                          f"the serialized {side} offset `{u(off)}` reaches add_link without the inverse of _constrain_offset: an order edge "
                          "(written at the first port after the value ports, or without offset) is reloaded as an ordinary port, so "
                          "order links are lost or turned into value links", eloop,
                          expected="inverse of _constrain_offset (may yield -1)", found=u(off))
                if ok and side == "source":
                    _decoder_table(ctx, R5, hugr, inv, table, dataflow, helpers)
                if ok:
                    # (both sides go through the same decoder: judged once, reported per side)
                    agree = _decoder_agrees(ctx, hugr, inv, table, dataflow, helpers)
                    ctx.check(agree is None, R5, f"Hugr._from_serial: {side} offset agrees with encoder", file, inv.lineno,
                              "the order-port encoder and its inverse do not place the order port at the same position: " + (agree or ""), inv,
                              detail="every threshold the decoder compares with is the offset the encoder writes for that class of operation and direction")


def _decoder_cases(ctx, hugr, inv, helpers):
    """the return paths of the decoder (signature helpers seen through) as (path, classes established, classes ruled out, direction,
    offset given?, [(threshold text with NODE_/DIRECTION_, offset below it?)])"""
    from .c03 import _class_tests, _direction_of
    from ..rulekit import unold_ast
    args = [a.arg for a in inv.args.args]
    if len(args) != 4:
        ctx.broken(f"Hugr.{inv.name}: expected (self, node, offset, direction)")
    _, node, off, direction = args
    out = []
    for q in ctx.paths(f"{BASE}.Hugr.{inv.name}", inline=helpers):
        if q.kind != "return":
            continue
        pos = _class_tests(q, True)
        neg = _class_tests(q, False)
        given = None
        cmps = []
        for t, k in q.tests:
            t = unold_ast(t)
            if isinstance(t, ast.Compare) and len(t.ops) == 1 and u(t.left) == off:
                op, rhs = t.ops[0], t.comparators[0]
                if isinstance(rhs, ast.Constant) and rhs.value is None and isinstance(op, (ast.Is, ast.IsNot)):
                    given = k if isinstance(op, ast.IsNot) else not k
                elif isinstance(op, (ast.Lt, ast.GtE)):
                    txt = u(rhs).replace(f"self[{node}]", "self[NODE_]").replace(direction, "DIRECTION_")
                    cmps.append((txt, k if isinstance(op, ast.Lt) else not k))
                else:
                    cmps.append((u(t), None))
        out.append((q, set().union(*pos) if pos else set(), set().union(*neg) if neg else set(), _direction_of(q), given, cmps))
    # whether the operation has an order port on each path: it has if the path established a class the encoder takes a signature for,
    # it has not if the path ruled out every such way (by its own tests or in the handler of the helper's private exception)
    from .c03 import _ruled_out
    allp = ctx.paths(f"{BASE}.Hugr.{inv.name}", inline=helpers)
    out = [(q, pos, _ruled_out(q, allp), d, g, c) for q, pos, neg, d, g, c in out]
    return out, off


def _decoder_agrees(ctx, hugr, inv, table, dataflow, helpers):
    """None if every threshold the decoder compares an offset with is what the encoder writes for the same operations and direction,
    else the disagreement"""
    cases, off = _decoder_cases(ctx, hugr, inv, helpers)
    seen = 0
    for q, pos, neg, dirn, given, cmps in cases:
        for txt, below in cmps:
            want = table.get((frozenset(pos), dirn))
            if want is None:
                return f"the decoder compares with `{txt}` for {sorted(pos)} / {dirn}, a case the encoder has no signature offset for"
            want_n = {w.replace("self[NODE_]", "self[NODE_]") for w in want}
            if txt not in want_n:
                return f"for {sorted(pos)} / {dirn} the encoder writes {sorted(want)} but the decoder compares with `{txt}`"
            seen += 1
    return None if seen else "the decoder never compares the offset with the position the encoder writes"


def _decoder_table(ctx, R5, hugr, inv, table, dataflow, helpers) -> None:
    """the decoder as a decision table over (offset given?, operation has an order port?, offset below it?): an operation has an
    order port exactly when the encoder takes a signature for it (Call is not a DataflowOp, yet has one)"""
    file = hugr.module.path
    cases, off = _decoder_cases(ctx, hugr, inv, helpers)
    sig_keys = [set(k_[0]) for k_ in table]
    bad = None
    for q, pos, neg, dirn, given, cmps in cases:
        v = q.value_text()
        has = True if pos & dataflow else (False if sig_keys and all(k_ & neg for k_ in sig_keys) else None)
        below = cmps[0][1] if len(cmps) == 1 else None
        if v == "-1":
            ok = has is True and (given is False or below is False)
        elif v == "0":
            ok = given is False and has is False
        elif v == off:
            ok = given is True and (has is False or below is True)
        else:
            ok = False
        if not ok:
            bad = q
            break
    n = len(cases)
    ctx.check(bad is None and n >= 3, R5, f"Hugr.{inv.name}: decision table", file, inv.lineno,
              "the decoder must answer -1 exactly when the operation has an order port and the offset is absent or not below it, 0 only for an "
              "absent offset on an operation without order port, and the given offset otherwise; an operation has an order port when the encoder "
              f"takes a signature for it ({sorted(dataflow)}: a Call has one without being a DataflowOp)" + (f" [path {bad.describe()}]" if bad else ""),
              bad.node if bad is not None and bad.node is not None else inv, found=bad.describe() if bad else "", detail=f"{n} return paths")


def _guard_of(loop, stmt):
    for n in ast.walk(loop):
        if isinstance(n, ast.If) and stmt in n.body:
            return n.test
    return stmt


def r6_entry_points(ctx, nf) -> None:
    hugr = ctx.program.cls(f"{BASE}.Hugr")
    file = hugr.module.path
    fn = hugr.methods.get("to_json")
    lj = hugr.methods.get("load_json")
    if fn is None or lj is None:
        ctx.broken("anchor vanished: Hugr.to_json / load_json")
    try:
        t, _ = nf.method_nf(hugr, "to_json")
    except Opaque as e:
        ctx.broken(f"Hugr.to_json not normalisable: {e}")
    ok = t[0] == "call" and t[1] == ".to_json" and t[2] and t[2][0] in (("call", "._to_serial", (sym("self"),), ()), ("enc", sym("self")))
    ctx.check(ok, "C02.R6", "Hugr.to_json", file, fn.lineno, "to_json must be self._to_serial().to_json()", fn,
              expected="self._to_serial().to_json()", found=show(t))
    try:
        t2, _ = nf.method_nf(hugr, "load_json")
    except Opaque as e:
        ctx.broken(f"Hugr.load_json not normalisable: {e}")
    s = show(t2)
    p = lj.args.args[1].arg
    from ..nf import find_calls
    ok = False
    for fs in find_calls(t2, "_from_serial"):
        for sh_call in find_calls(fs, "SerialHugr") + find_calls(fs, "load_json"):
            for ld in find_calls(sh_call, "loads"):
                if contains(ld, sym(p)):
                    ok = True
    ctx.check(ok, "C02.R6", "Hugr.load_json", file, lj.lineno,
              "load_json must be cls._from_serial(SerialHugr.load_json(json.loads(json_str)))", lj,
              expected="cls._from_serial(SerialHugr.load_json(json.loads(json_str)))", found=s)
    sh = ctx.program.cls("hugr._serialization.serial_hugr.SerialHugr")
    tj = sh.methods.get("to_json")
    rb = real_body(tj) if tj else []
    rets = [x for x in rb if isinstance(x, ast.Return)]
    ok = bool(rets) and u(rets[-1].value) in ("self.model_dump_json()",)
    ctx.check(ok, "C02.R6", "SerialHugr.to_json", sh.module.path, tj.lineno if tj else 1,
              "SerialHugr.to_json must dump the whole model with model_dump_json()", tj, found=u(rets[-1].value) if rets else "")


def run(ctx) -> None:
    ctx.rule("C02.R1", "forward CODEC: S.deserialize ∘ X._to_serial is the identity on every init-field, for every op/type/param/arg/value class", floor=60)
    ctx.rule("C02.R2", "one-shot iterators bound to a local are consumed once (codec modules)", floor=1)
    ctx.rule("C02.R3", "every node index written by Hugr._to_serial is a position in the emitted node list; metadata aligned with nodes", floor=4)
    ctx.rule("C02.R4", "Hugr._from_serial loads every node and every edge of the document (no skipping path)", floor=2)
    ctx.rule("C02.R5", "order-port offsets: encoder applied to both endpoints, decoder applies its inverse derived from the same helper", floor=4)
    ctx.rule("C02.R6", "to_json / load_json are paired through _to_serial / _from_serial and the pydantic model", floor=3)
    ctx.rule("C02.R7", "the load loop restores op, parent (root = own parent) and positional metadata of each node", floor=4)
    nf = NF(ctx.program)
    n = r1_forward_codec(ctx, nf)
    ctx.stats["C02.R1 codec pairs"] = n
    r2_single_use_iterators(ctx)
    r3_one_index_space(ctx)
    r4_r5_r7_load(ctx)
    from .c03 import r5_order_offset
    r5_order_offset(ctx, rule="C02.R5")     # the decoder's inverse shares this helper: its table must be right for reloads to keep their links
    r6_entry_points(ctx, nf)
    ctx.rule("C02.R8", "the emitted node list follows the hierarchy (root first, parents before children, siblings in order), not index order (shared with C03.R3/R4): a reload rebuilds children in list order", floor=2)
    from .c03 import r3_r4_order
    r3_r4_order(ctx, rule3="C02.R8", rule4="C02.R8")
    ctx.rule("C02.R9", "the link store the encoder enumerates stays consistent under edits made before saving: removals close the gap on both ports, "
             "deletion removes every link of the node, port counts are updated for the node that owns the port (shared with C04.R3/R4/R6)", floor=6)
    from .c04 import r3_dense_suboffsets, r4_deletion_complete, r6_r7_tables
    hugr_cls = ctx.program.cls(f"{BASE}.Hugr")
    with ctx.as_rule(C04_R3="C02.R9", C04_R4="C02.R9", C04_R6="C02.R9", C04_R7="C02.R9"):
        r3_dense_suboffsets(ctx, hugr_cls, hugr_cls.module.path)
        r4_deletion_complete(ctx, hugr_cls, hugr_cls.module.path)
        r6_r7_tables(ctx, hugr_cls, hugr_cls.module.path, only={"links", "add_link"})
    ctx.stats["nf call sites resolved/unresolved"] = [nf.resolved_calls, nf.unresolved_calls]
    ctx.rule("C02.R10", "the serial models hold what they are given: no model configuration or hook that rewrites values on the way in or out (shared with C05.R7 / C17.R3)", floor=60)
    from .c17 import r3_no_hidden_acceptance_logic
    from ..schema import SchemaDeriver
    d3 = SchemaDeriver(ctx.program, None)
    d3.canon = ctx.canon
    with ctx.as_rule(C17_R3="C02.R10"):
        r3_no_hidden_acceptance_logic(ctx, d3, with_required=False)
    from .. import lints
    lints.arm(ctx)



# ---------------------------------------------------------------------------------------
SO = "hugr-py/src/hugr/_serialization/ops.py"
ST = "hugr-py/src/hugr/_serialization/tys.py"
B = "hugr-py/src/hugr/hugr/base.py"
OPS = "hugr-py/src/hugr/ops.py"
TYS = "hugr-py/src/hugr/tys.py"
VAL = "hugr-py/src/hugr/val.py"


def generated_mutants(ctx, rule="C02.R1"):
    """drop each keyword argument of each decoder's constructor call (one mutant per keyword)"""
    out = []
    for mn, file in (("hugr._serialization.ops", SO), ("hugr._serialization.tys", ST)):
        for c in ctx.program.module(mn).classes.values():
            m = c.methods.get("deserialize")
            if m is None:
                continue
            for call in calls_in(m):
                tgt = call_name(call)
                for k in call.keywords:
                    if k.arg and u(call.func).split(".")[0] in ("ops", "tys", "val") and k.arg != "num_out":
                        out.append(dict(name=f"drop-{c.name}.{k.arg}", file=file, expect=[rule, "C05.R1"],
                                        transform=("drop_kw", c.name, "deserialize", k.arg)))
    # classes whose dropped parameter is required make the mutant non-compiling at run time only; still parses
    return out


HAND_MUTANTS = [
    dict(name="swap-FunctionType-io", file=ST, expect=["C02.R1", "C05.R1"], transform=("swap_kw", "FunctionType", "deserialize", "input", "output")),
    dict(name="swap-TailLoop-rows", file=SO, expect=["C02.R1", "C05.R1"], transform=("swap_kw", "TailLoop", "deserialize", "just_inputs", "_just_outputs")),
    dict(name="Tag-constant-tag", file=SO, expect=["C02.R1", "C05.R1"], old="            tag=self.tag,\n            sum_ty=tys.Sum(", new="            tag=0,\n            sum_ty=tys.Sum("),
    dict(name="encoder-drops-type_args", file=OPS, expect=["C02.R1", "C05.R1"],
         old="            func_sig=self.signature._to_serial(),\n            type_args=ser_it(self.type_args),\n            instantiation=self.instantiation._to_serial(),\n        )\n\n    @property",
         new="            func_sig=self.signature._to_serial(),\n            type_args=[],\n            instantiation=self.instantiation._to_serial(),\n        )\n\n    @property"),
    dict(name="Conditional-rows-reversed", file=SO, expect=["C02.R1", "C05.R1"],
         old="            tys.Sum([deser_it(r) for r in self.sum_rows]),\n            deser_it(self.other_inputs),",
         new="            tys.Sum([deser_it(r) for r in reversed(self.sum_rows)]),\n            deser_it(self.other_inputs),"),
    dict(name="Opaque-args-dropped-in-encoder", file=TYS, expect=["C02.R1", "C05.R1"],
         old="            args=[arg._to_serial_root() for arg in self.args],", new="            args=[],"),
    dict(name="Variable-bound-constant", file=ST, expect=["C02.R1", "C05.R1"],
         old="        return tys.Variable(idx=self.i, bound=self.b)", new="        return tys.Variable(idx=self.i, bound=TypeBound.Any)"),
    dict(name="SumValue-vals-sliced", file=SO, expect=["C02.R1", "C05.R1"],
         old="            self.tag, self.typ.deserialize(), deser_it(v.root for v in self.vs)\n",
         new="            self.tag, self.typ.deserialize(), deser_it(v.root for v in self.vs[:1])\n"),
    dict(name="metadata-generator-again", file=B, expect=["C02.R2", "C02.R3", "C03.R7", "C03.R2"],
         old="        order = self._hierarchy_order()\n", new="        order = iter(self._hierarchy_order())\n"),
    dict(name="raw-parent-index", file=B, expect=["C02.R3", "C03.R2"],
         old="            parent = rekey[data.parent] if data.parent is not None else rekey[node]",
         new="            parent = data.parent if data.parent is not None else rekey[node]"),
    dict(name="raw-edge-source", file=B, expect=["C02.R3", "C03.R2"],
         old="            return (rekey[src.port.node].idx, s), (rekey[dst.port.node].idx, d)",
         new="            return (src.port.node.idx, s), (rekey[dst.port.node].idx, d)"),
    dict(name="metadata-misaligned", file=B, expect=["C02.R3", "C03.R2"],
         old="            metadata=[self[node].metadata or None for node in order],",
         new="            metadata=[self[node].metadata or None for node in self],"),
    dict(name="skip-null-offsets-again", file=B, expect="C02.R4",
         old="            src = Node(src_node, _metadata=get_meta(src_node))\n",
         new="            if src_offset is None or dst_offset is None:\n                continue\n            src = Node(src_node, _metadata=get_meta(src_node))\n"),
    dict(name="no-offset-inverse", file=B, expect="C02.R5",
         old="                src.out(hugr._deserialize_offset(src, src_offset, Direction.OUTGOING)),",
         new="                src.out(src_offset or 0),"),
    dict(name="offset-not-encoded", file=B, expect=["C02.R5", "C03.R5"],
         old="            s, d = self._constrain_offset(src.port), self._constrain_offset(dst.port)",
         new="            s, d = self._constrain_offset(src.port), dst.port.offset"),
    dict(name="root-metadata-off-by-one", file=B, expect="C02.R7",
         old="                return serial.metadata[idx] or {}", new="                return serial.metadata[idx - 1] or {}"),
    dict(name="parent-from-position", file=B, expect="C02.R7",
         old="            parent: Node | None = Node(serial_node.root.parent)", new="            parent: Node | None = Node(max(idx - 1, 0))"),
    dict(name="load-ignores-metadata", file=B, expect="C02.R7",
         old="                serial_node.root.deserialize(), parent, metadata=node_meta\n", new="                serial_node.root.deserialize(), parent\n"),
    dict(name="to_json-bypasses-serial", file=B, expect=["C02.R6", "C03.R1"],
         old="        return self._to_serial().to_json()", new="        return json.dumps(self._to_serial().model_dump())"),
]
TWINS = [
    dict(name="twin-positional-ctor", file=SO, old="        return ops.AliasDecl(self.name, self.bound)", new="        return ops.AliasDecl(alias=self.name, bound=self.bound)"),
    dict(name="twin-local-temp", file=SO, old="        return ops.LoadConst(self.datatype.deserialize())", new="        ty = self.datatype.deserialize()\n        return ops.LoadConst(ty)"),
    dict(name="twin-comprehension-for-deser_it", file=SO, old="        return ops.Output(deser_it(self.types))", new="        return ops.Output([t.deserialize() for t in self.types])"),
    dict(name="twin-list-plus", file=OPS, old="        return [*self.sum_ty.variant_rows[n], *self.other_inputs]", new="        return list(self.sum_ty.variant_rows[n]) + self.other_inputs"),
    dict(name="twin-ser_it-spelled-out", file=OPS, old="        return sops.Input(parent=parent.idx, types=ser_it(self.types))",
         new="        return sops.Input(parent=parent.idx, types=[t._to_serial_root() for t in self.types])"),
    dict(name="twin-map-to-comprehension", file=OPS, old="            sum_rows=list(map(ser_it, self.sum_ty.variant_rows)),",
         new="            sum_rows=[ser_it(row) for row in self.sum_ty.variant_rows],"),
]


def thorough(ctx):
    from ..selftest import run_battery
    return run_battery(ctx, generated_mutants(ctx) + HAND_MUTANTS, TWINS)
